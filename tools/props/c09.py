"""C09 -- repeat, macro and count: `.`, `@r` and N-fold equal retyping.

A relation between TWO runs of the real binary (vi mode): program P containing `.` / `N.` / `@r` /
`N@r` / `@@` versus P' in which every such site is replaced by the keys it stands for (the keys of
the most recent change command including count and register prefix; the register's contents),
computed by the generator that produced P.  Written file, cursor (marker) and registers (put at the
end of the buffer) must coincide.  The extracted model (coq/InputQueue.v) is run on the same
programs: its expansion of P into the key stream that reaches the command interpreter must equal
P' (the model knows nothing of the generator's bookkeeping: it records and pushes as term.c/vi.c do,
with a syntax-directed tokenizer for command boundaries).
"""
import json
import vlib

GROUP = 'inq'
TRUSTED = ['the generator\'s own bookkeeping of "keys of the most recent change" (programs are generated command by command, '
           'each change command in a context where its motion succeeds, so that key consumption is syntax-directed)']

ESC = '\x1b'
MARK = '#%#'
BASE = ['alpha beta gamma delta epsilon zeta eta theta iota kappa',
        'one two three four five six seven eight nine ten',
        'éclair 中文 über naïve café señor smörgås façade',
        'the quick brown fox jumps over the lazy dog again',
        'lorem ipsum dolor sit amet consectetur adipiscing elit sed do',
        'aa bb cc dd ee ff gg hh ii jj kk',
        'x1 y2 z3 w4 v5 u6 t7 s8 r9 q0',
        'red green blue cyan magenta yellow black white grey pink',
        'last line of the file is here and it is long enough']
TEXTS = ['Z', 'xy', 'é中', 'new text', 'a b', 'ü-ö', 'Q9', '.', 'w.', 'tab\there', '中文 é']
TAIL = 'mz:$pu a\n:$pu b\n:$pu\n:$pu .\n:$pu 1\n:$pu 2\n`zi' + MARK + ESC + ':w! out\n:q!\n'


def change_atom(rng, safe_only=False):
    """one change command: (keys, kind)"""
    cnt = rng.choice(['', '', '', '2', '3', '4'])
    reg = rng.choice(['', '', '', '"a', '"b'])
    txt = rng.choice(TEXTS)
    t = rng.below(30)
    mot = rng.choice(['w', 'e', 'l', '2w', 'w', 'e', '$', 'fe', 'tt', 'j'])
    pre = (reg + cnt) if rng.chance(1, 2) else (cnt + reg)
    if t == 0:
        return pre + 'x', 'x'
    if t == 1:
        return pre + 'X', 'X'
    if t == 2:
        return pre + 'dd', 'dd'
    if t == 3:
        return pre + 'd' + mot, 'd'
    if t == 4:
        return pre + 'yy', 'yy'
    if t == 5:
        return pre + 'y' + rng.choice(['w', 'e', '$', 'j']), 'y'
    if t == 6:
        return cnt + 'r' + rng.choice('QZé'), 'r'
    if t == 7:
        return cnt + '~', '~'
    if t == 8:
        return cnt + 'J', 'J'
    if t == 9:
        return pre + 'c' + rng.choice(['w', 'e', '2w', 'w']) + txt + ESC, 'c'
    if t == 10:
        return pre + 'cc' + txt + ESC, 'cc'
    if t == 11:
        return cnt + 's' + txt + ESC, 's'
    if t == 12:
        return reg + 'S' + txt + ESC, 'S'
    if t == 13:
        return reg + 'C' + txt + ESC, 'C'
    if t == 14:
        return reg + 'D', 'D'
    if t == 15:
        return pre + 'Y', 'Y'
    if t in (16, 17, 18):
        return cnt + rng.choice('iaIA') + txt + ESC, 'insert'
    if t == 19:
        return cnt + rng.choice('oO') + txt + ESC, 'open'
    if t == 20:
        return cnt + 'a' + txt + ESC, 'insert'
    if t == 21:
        return reg + cnt + rng.choice('pP'), 'put'
    if t == 22:
        return cnt + rng.choice(['>>', '<<', '>j', '<j']), 'shift'
    if t == 23:
        return cnt + rng.choice(['g~', 'gu', 'gU']) + rng.choice(['w', 'e', '$', 'l']), 'case'
    if t == 24:
        return cnt + '!!' + rng.choice(['tr a-z A-Z', 'sort', 'cat', 'tr e E']) + '\n', 'filter'
    if t == 25:
        return 'd/' + rng.choice(['the', 'e', 'four', 'o']) + '\n', 'd/'
    if t == 26:
        return 'd' + cnt + 'w' if cnt else 'dw', 'd'
    if t == 27:
        return (cnt or '2') + 'd' + '2w', 'd'
    if t == 28:
        return 'i' + rng.choice(TEXTS) + '\n' + rng.choice(TEXTS) + ESC, 'insert'
    return 'A ' + txt + ESC, 'insert'


def motion_atom(rng):
    return rng.choice(['j', 'k', 'w', 'b', '0', '$', 'l', 'h', '+', '-', '2G', '3G', '1G', 'e', '2w', '4G0', '5G', 'u', 'ma', "'a",
                       '/e\n', 'fa', ';', '^', '1G', '3|'])


class Expander:
    """P -> P': what the property says the program stands for"""

    def __init__(self, macros):
        self.macros = macros        # name -> list of atoms
        self.rep = None
        self.last_reg = None
        self.depth = 0

    def atoms(self, atoms):
        out = ''
        for a in atoms:
            out += self.atom(a)
        return out

    def atom(self, a):
        k = a[0]
        if k == 'change':
            self.rep = a[1]
            return a[1]
        if k == 'keys':
            return a[1]
        if k == 'dot':
            n = a[1]
            return (self.rep or '') * max(1, n)
        if k == 'exec':
            n, r = a[1], a[2]
            if r == '@':
                r = self.last_reg
            if r is None or r not in self.macros:
                return ''
            self.last_reg = r
            out = ''
            self.depth += 1
            if self.depth < 6:
                for i in range(max(1, n)):
                    out += self.atoms(self.macros[r])
            self.depth -= 1
            return out
        raise ValueError(k)


def raw(atoms):
    out = ''
    for a in atoms:
        k = a[0]
        if k in ('change', 'keys'):
            out += a[1]
        elif k == 'dot':
            out += (str(a[1]) if a[1] else '') + '.'
        elif k == 'exec':
            out += (str(a[1]) if a[1] else '') + '@' + a[2]
    return out


def has_nested(case):
    return any(a[0] in ('dot', 'exec') for m in case['macros'].values() for a in m)


def gen_case(rng, kind):
    macros = {}
    atoms = []
    nmac = 0 if kind == 'dot' else rng.choice([1, 1, 2])
    for name in ['m', 'n'][:nmac]:
        body = []
        for j in range(rng.choice([1, 2, 2, 3])):
            t = rng.below(10)
            if t < 6:
                k = change_atom(rng)[0]
                while '\n' in k:
                    k = change_atom(rng)[0]
                body.append(['change', k])
            elif t < 8:
                k = motion_atom(rng)
                while '\n' in k:
                    k = motion_atom(rng)
                body.append(['keys', k])
            elif kind == 'nested' and t == 8:
                body.append(['dot', rng.choice([0, 0, 2])])
            elif kind == 'nested' and name == 'm' and nmac == 2:
                body.append(['exec', rng.choice([0, 0, 2]), 'n'])
            else:
                body.append(['keys', rng.choice(['j', 'w', '0', 'k', 'e'])])
        if kind == 'nested' and not any(a[0] in ('dot', 'exec') for a in body):
            body.append(['dot', 0])
        macros[name] = body
    atoms.append(['keys', rng.choice(['1G', '2G', '1Gw', '2Gw', '3G', '4Gww', '1G'])])
    n = rng.choice([2, 3, 3, 4, 5, 6])
    have = False
    for j in range(n):
        t = rng.below(12)
        if t < 4 or not have:
            atoms.append(['change', change_atom(rng)[0]])
            have = True
        elif t < 6:
            atoms.append(['keys', motion_atom(rng)])
        elif t < 9 or not macros:
            atoms.append(['dot', rng.choice([0, 0, 0, 2, 3, 4])])
            if rng.chance(1, 2):
                atoms.append(['keys', motion_atom(rng)])
        elif t < 11:
            atoms.append(['exec', rng.choice([0, 0, 2, 3]), rng.choice(list(macros.keys()) + (['@'] if any(a[0] == 'exec' for a in atoms) else []))])
        else:
            atoms.append(['keys', rng.choice([':3y .\n', ':2y a\n', ':4y b\n', ':5y .\n'])])
    if not any(a[0] in ('dot', 'exec') for a in atoms):
        atoms.append(['dot', rng.choice([0, 2])])
    text = list(BASE)
    rng.shuffle(text)
    return {'text': text, 'macros': macros, 'atoms': atoms, 'kind': kind}


def long_macro(nbytes):
    """a macro of exactly nbytes bytes made of many short commands"""
    units = [['change', 'ia' + ESC], ['keys', 'l'], ['change', 'rZ'], ['keys', 'l'], ['change', 'x'], ['keys', 'l'],
             ['change', 'ib' + ESC], ['change', 'rQ'], ['keys', 'l'], ['change', 'x'], ['change', 'dw'], ['keys', 'w']]
    body = []
    n = 0
    i = 0
    while nbytes - n >= 4:
        u = units[i % len(units)]
        if u[1] == 'dw' and i % 5:
            u = ['keys', 'l']
        body.append(u)
        n += len(u[1])
        i += 1
    while n < nbytes:
        body.append(['change', 'x'] if nbytes - n == 1 else ['keys', 'l'])
        n += 1
    return body


def grid_cases():
    """every change command x prefixes x repeat counts 1..4 x contexts, `.` typed at the terminal"""
    out = []
    cmds = ['x', 'X', 'dd', 'dw', 'd2w', 'de', 'd$', 'D', 'yy', 'yw', 'Y', 'rQ', '~', 'J', 'cwZ9' + ESC, 'ccé中' + ESC, 'sxy' + ESC,
            'Snew' + ESC, 'Cend' + ESC, 'iZ' + ESC, 'aé' + ESC, 'Iw.' + ESC, 'A 中' + ESC, 'oline' + ESC, 'Oline' + ESC,
            'p', 'P', '>>', '<<', 'g~w', 'guw', 'gUe', '!!tr a-z A-Z\n', 'dfe', 'dte', 'd/o\n', 'ia\nb' + ESC, '>j', 'g~$']
    ctxs = ['1G', '2Gw', '3Gww']
    for ci, c in enumerate(cmds):
        for pi, pre in enumerate(['', '2', '"a', '"a2', '3"b']):
            if pre.startswith('"') or '"' in pre:
                if c[0] not in 'xXdDyYcsSCpP':
                    continue
            for n in [0, 2, 3, 4]:
                ctx = ctxs[(ci + pi + n) % 3]
                atoms = [['keys', ctx], ['keys', 'yw' if c in ('p', 'P') else ''], ['change', pre + c], ['keys', ['j', 'w', '+'][(ci + n) % 3]], ['dot', n],
                         ['keys', 'j0'], ['dot', 0]]
                out.append({'text': list(BASE), 'macros': {}, 'atoms': atoms, 'kind': 'grid'})
    return out


def special_cases():
    out = []
    # `.` replays the recorded keystrokes, not register `.`
    out.append({'text': list(BASE), 'macros': {}, 'kind': 'special',
                'atoms': [['keys', '1G'], ['change', 'x'], ['keys', ':3y .\n'], ['dot', 0], ['keys', 'j'], ['dot', 2]]})
    out.append({'text': list(BASE), 'macros': {}, 'kind': 'special',
                'atoms': [['keys', '2G'], ['change', '2dw'], ['keys', ':5y .\n:1\n'], ['dot', 3]]})
    # a change executed from a macro becomes the repeat command
    for body in [[['change', 'dw']], [['change', 'rZ'], ['keys', 'l'], ['change', 'x']], [['change', 'cwTYPED' + ESC]], [['change', '"a2dd']],
                 [['change', '3x']], [['change', 'A!' + ESC]], [['keys', 'w'], ['change', 'cw中é' + ESC], ['keys', 'w']]]:
        for n in [0, 2]:
            out.append({'text': list(BASE), 'macros': {'m': body}, 'kind': 'special',
                        'atoms': [['keys', '1G'], ['change', 'x'], ['keys', 'w'], ['exec', 0, 'm'], ['keys', 'j0'], ['dot', n], ['keys', 'w'], ['exec', n, '@']]})
    # DESIGN section 9 row 16 (repaired by fixes/C09-term-push-front.patch)
    out.append({'text': ['abcdef'] + BASE[1:], 'macros': {'m': [['dot', 0], ['change', 'iZ' + ESC]]}, 'kind': 'nested',
                'atoms': [['keys', '1G'], ['change', 'x'], ['exec', 0, 'm']]})
    out.append({'text': list(BASE), 'macros': {'m': [['change', 'x'], ['exec', 0, 'n'], ['change', 'rQ']], 'n': [['keys', 'w'], ['change', 'dw']]}, 'kind': 'nested',
                'atoms': [['keys', '2G'], ['exec', 2, 'm'], ['dot', 0]]})
    # long registers: @r / N@r / @@ with 300 .. 1200 bytes, totals up to just below the 4096-byte queue
    for nbytes, cnt in [(300, 0), (511, 0), (512, 0), (750, 0), (1200, 0), (300, 13), (511, 8), (512, 7), (750, 5), (1023, 4), (1200, 3)]:
        body = long_macro(nbytes)
        out.append({'text': list(BASE), 'macros': {'m': body}, 'kind': 'longreg', 'timeout': 90,
                    'atoms': [['keys', '1G'], ['change', 'x'], ['exec', cnt, 'm'], ['keys', 'j0'], ['dot', 0]]})
    for nbytes, cnt in [(512, 0), (750, 2), (1200, 2)]:
        out.append({'text': list(BASE), 'macros': {'m': long_macro(nbytes)}, 'kind': 'longreg', 'timeout': 90,
                    'atoms': [['keys', '2G'], ['exec', 0, 'm'], ['keys', 'j0'], ['exec', cnt, '@'], ['dot', 2]]})
    # long recorded command just below the recording buffer; many repeats within the queue
    long_txt = 'ab' * 2030
    out.append({'text': list(BASE), 'macros': {}, 'kind': 'capacity',
                'atoms': [['keys', '1G'], ['change', 'i' + long_txt + ESC], ['keys', 'j'], ['dot', 0]]})
    out.append({'text': ['a' * 6000] + BASE[1:], 'macros': {}, 'kind': 'capacity',
                'atoms': [['keys', '1G'], ['change', 'x'], ['dot', 4000]]})
    return out


# ---------------------------------------------------------------------------------------------


def setup_keys(case):
    """load the macro lines (appended to the file) into registers m, n (character mode)"""
    k = ''
    base = len(case['text'])
    for i, name in enumerate(sorted(case['macros'])):
        k += '%dG0"%sy$' % (base + 1 + i, name)
    return k


def file_of(case):
    lines = list(case['text'])
    for name in sorted(case['macros']):
        lines.append(raw(case['macros'][name]))
    return ''.join(l + '\n' for l in lines).encode('utf-8')


def ok_bytes(s):
    return '\x1a' not in s and '\x00' not in s


def run_keys(exe, case, keys, timeout=20):
    kb = (setup_keys(case) + keys + TAIL).encode('utf-8')
    r = vlib.run_vi(exe, kb, files={'f': file_of(case)}, args=['f'], readback=['out'], timeout=timeout)
    if r.timed_out:
        r = vlib.run_vi(exe, kb, files={'f': file_of(case)}, args=['f'], readback=['out'], timeout=3 * timeout)
    if r.timed_out:
        return 'hang'
    if r.crashed() or r.files.get('out') is None:
        r2 = vlib.run_vi(exe, kb, files={'f': file_of(case)}, args=['f'], readback=['out'], timeout=timeout)
        if r2.crashed() or r2.files.get('out') is None:
            return 'crash rc=%s' % r2.rc
        r = r2
    return r.files['out']


def pair(exe, case):
    p = raw(case['atoms'])
    q = Expander(case['macros']).atoms(case['atoms'])
    if not ok_bytes(p) or not ok_bytes(q):
        return None
    t = case.get('timeout', 20)
    return (p, q, run_keys(exe, case, p, t), run_keys(exe, case, q, t))


def model_request(case):
    """tokens for the model: every atom of the program and of the macros with its kind"""
    def enc(atoms):
        w = []
        for a in atoms:
            if a[0] == 'change':
                w.append('c' + vlib.hx(a[1].encode('utf-8')))
            elif a[0] == 'keys':
                if a[1]:
                    w.append('k' + vlib.hx(a[1].encode('utf-8')))
            elif a[0] == 'dot':
                w.append('d%d' % a[1])
            else:
                w.append('e%d%s' % (a[1], a[2]))
        return ','.join(w) or '-'
    return 'expand %s %s %s' % (enc(case['macros'].get('m', [])), enc(case['macros'].get('n', [])), enc(case['atoms']))


def load_corpus():
    import glob, os
    out = []
    for p in sorted(glob.glob(os.path.join(vlib.VERIF, 'corpus', 'C09-*.json'))):
        for c in json.load(open(p)).get('cases', []):
            c['kind'] = c.get('kind', 'corpus')
            out.append(c)
    return out


def run(ctx):
    res = ctx.res
    rng = ctx.rng
    exe = vlib.build_vi()
    model = ctx.model('inq')
    res.rule = ('one case = file x program P with `.` / N. / @r / N@r / @@ sites x the retyped program P\' ; both are run on the real binary; '
                'compared: written file (text), cursor marker, registers a b " . 1 2 put at the end.  non-trivial = P differs from P\' and the '
                'program changes the text; distinct = distinct (file, P)')
    if ctx.replay:
        rp = json.load(open(ctx.replay))
        todo = [rp['input']] if isinstance(rp.get('input'), dict) else []
    else:
        todo = load_corpus() + special_cases()
        g = grid_cases()
        if ctx.quick:
            g = [c for i, c in enumerate(g) if (i + ctx.seed) % 3 == 0]
        todo += g
        for i in range(500 if ctx.quick else 15000):
            todo.append(gen_case(rng, rng.choice(['dot', 'dot', 'macro', 'macro', 'nested'])))
    res.count('pairs', len(todo))
    results = vlib.pmap(lambda c: pair(exe, c), todo)

    mout = None
    if model:
        rc, mout, err = vlib.run_lines(model, [model_request(c) for c in todo] + ['capacity'], timeout=900)
        if rc != 0 or len(mout) != len(todo) + 1:
            res.disagree({'what': 'model driver failed: rc=%s, %d answers for %d requests' % (rc, len(mout), len(todo) + 1), 'stderr': err[-800:]})
            mout = None

    def fails(case):
        r = pair(exe, case)
        return r is not None and r[2] != r[3]

    nviol = 0
    for i, (case, r) in enumerate(zip(todo, results)):
        if r is None:
            res.count('skipped (forbidden byte)')
            continue
        res.evaluations += 1
        p, q, a, b = r
        res.count('kind ' + case['kind'])
        for at in case['atoms']:
            res.count('site ' + at[0]) if at[0] in ('dot', 'exec') else None
        if any(ord(ch) > 127 for ch in p):
            res.count('multi-byte keys')
        if p != q and isinstance(a, bytes) and a != file_of(case):
            res.nontriv(json.dumps([case['text'][:2], p]))
        if i % 499 == 0:
            res.sample({'P': p, 'retyped': q, 'same': a == b})
        if mout is not None:
            want = vlib.hx(q.encode('utf-8'))
            if mout[i] != want:
                res.disagree({'what': 'model expansion of P differs from the retyped program', 'input': case, 'P': p, 'retyped': q,
                              'model': vlib.unhx(mout[i]).decode('utf-8', 'replace') if mout[i] not in ('?', '') else mout[i]})
        if isinstance(a, str) or isinstance(b, str) or a != b:
            if nviol < 3 and not ctx.replay and len(case['atoms']) > 2:
                small = vlib.shrink(case['atoms'], lambda at: fails(dict(case, atoms=at)))
                case = dict(case, atoms=small)
                r2 = pair(exe, case)
                if r2 is not None:
                    p, q, a, b = r2
            nviol += 1
            res.violation({'what': 'the program with ./@ and the retyped program end differently (file, cursor marker or registers)',
                           'input': case, 'P': p, 'retyped': q,
                           'expected': {'out': b if isinstance(b, str) else b.decode('utf-8', 'replace')[-600:]},
                           'observed': {'out': a if isinstance(a, str) else a.decode('utf-8', 'replace')[-600:]},
                           'replay_cmd': 'python3 tools/check.py C09 --replay <this file>'})
    # capacity: the model's clip against the real queue: `x` then 5000. on a 6000-character line
    if mout is not None and not ctx.replay:
        pushes = int(mout[-1])
        case = {'text': ['a' * 6000] + BASE[1:], 'macros': {}}
        out = run_keys(exe, case, '1Gx5000.', timeout=60)
        got = None
        if isinstance(out, bytes):
            got = 6000 - len(out.split(b'\n')[0].replace(MARK.encode(), b''))
        res.evaluations += 1
        res.extra['capacity'] = {'model_pushes': pushes, 'characters_deleted_by_x_5000dot': got}
        if got != 1 + pushes:
            res.disagree({'what': 'capacity: x then 5000. deleted %s characters, the model clips the pushes to %d' % (got, pushes), 'input': '1Gx5000.'})
