"""Shared helpers of the C17 / C18 checks: the generated tables as Python values (parsed from the
generated Coq files, i.e. exactly what the proofs are about), running harness/probe_ren.c and the
extracted model on the same `ren` requests, parsing the answers."""
import os, re, bisect
import vlib

COQ = vlib.COQ


def _defn(text, name):
    m = re.search(r'Definition %s\b[^:]*:[^=]*:=\s*(.*?)\.\n\s*\n|Definition %s\b[^:]*:[^=]*:=\s*(.*?)\.\s*$' % (name, name), text, re.S | re.M)
    if not m:
        raise RuntimeError('generated definition %s not found' % name)
    return m.group(1) or m.group(2)


def _ints(s):
    return [int(x) for x in re.findall(r'-?\d+', s)]


def _pairs(text, name):
    v = _ints(_defn(text, name))
    return [(v[2 * i], v[2 * i + 1]) for i in range(len(v) // 2)]


def tables():
    uc = open(os.path.join(COQ, 'GenUcTables.v')).read()
    cf = open(os.path.join(COQ, 'GenConf.v')).read()
    cs = open(os.path.join(COQ, 'GenConsts.v')).read()
    t = {}
    for k in ('dwchars', 'zwchars', 'bchars', 'r2l_ranges', 'acomb_ranges'):
        t[k] = _pairs(uc, k)
    v = _ints(_defn(uc, 'achars'))
    t['achars'] = [tuple(v[5 * i:5 * i + 5]) for i in range(len(v) // 5)]
    t['dw_min'] = int(re.search(r'Definition dw_min : Z := (\d+)', uc).group(1))
    t['zw_min'] = int(re.search(r'Definition zw_min : Z := (\d+)', uc).group(1))
    t['TABSTOP'] = int(re.search(r'Definition TABSTOP : Z := (\d+)', cs).group(1))
    t['TABMASK'] = int(re.search(r'Definition TABMASK : Z := (\d+)', cs).group(1))
    # placeholders: ([bytes]%N, [bytes]%N, wid%Z)
    body = _defn(cf, 'placeholders')
    ph = []
    for m in re.finditer(r'\(\[([^\]]*)\]%N,\s*\[([^\]]*)\]%N,\s*\(?(-?\d+)\)?%Z\)', body):
        ph.append((bytes(_ints(m.group(1))), bytes(_ints(m.group(2))), int(m.group(3))))
    t['placeholders'] = ph
    body = _defn(cf, 'dirmarks')
    dm = []
    for m in re.finditer(r'\(\((-?\d+)\)%Z,\s*\((-?\d+)\)%Z,\s*\((-?\d+)\)%Z,\s*\[([^\]]*)\]%N\)', body):
        dm.append((int(m.group(1)), int(m.group(2)), int(m.group(3)), bytes(_ints(m.group(4)))))
    t['dirmarks'] = dm
    body = _defn(cf, 'dircontexts')
    dc = []
    for m in re.finditer(r'\(\((-?\d+)\)%Z,\s*\[([^\]]*)\]%N\)', body):
        dc.append((int(m.group(1)), bytes(_ints(m.group(2)))))
    t['dircontexts'] = dc
    if not ph or not dm or not dc:
        raise RuntimeError('generated conf tables could not be parsed')
    return t


def in_table(tab, c):
    """membership by linear scan -- the meaning of 'the table lists c' (no order assumed)"""
    for a, b in tab:
        if a <= c <= b:
            return True
    return False


class Classes:
    """width classes of code points as the generated tables list them"""

    def __init__(self, t):
        self.t = t
        self.ph = {}
        for s, d, w in t['placeholders']:
            try:
                c = ord(s.decode('utf-8'))
            except Exception:
                continue
            self.ph.setdefault(c, (d, w))

    @staticmethod
    def plain_ascii(c):
        return c in (0x20, 9, 10) or 0x20 <= c < 0x7f

    def zw(self, c):
        return in_table(self.t['zwchars'], c)

    def dw(self, c):
        return in_table(self.t['dwchars'], c)

    def bell(self, c):
        return (not self.plain_ascii(c)) and (self.zw(c) or in_table(self.t['bchars'], c))

    def comb(self, c):
        return (not self.plain_ascii(c)) and in_table(self.t['acomb_ranges'], c)

    def wid(self, c):
        return 0 if self.zw(c) else 2 if self.dw(c) else 1

    def cwid(self, c, col):
        """cells the character occupies when it starts in column col (the property's sentence)"""
        if c == 9:
            return 8 - col % 8
        if c in self.ph:
            return self.ph[c][1]
        if self.bell(c):
            return 1
        return self.wid(c)


def enc(cs):
    return ''.join(chr(c) for c in cs).encode('utf-8', 'surrogatepass')


def build(model=None, vi=False):
    """plain and sanitized probe (and, if asked for, the extracted model and the real binary) built side by side"""
    vlib.tmpdir()                       # create the scratch directory before the threads start
    jobs = [lambda: vlib.build_probe('ren', includes=['uc', 'ren', 'dir']),
            lambda: vlib.build_probe('ren', includes=['uc', 'ren', 'dir'], asan=True)]
    if model:
        jobs.append(model)
    r = vlib.pmap(lambda f: f(), jobs)
    if vi:
        r.append(vlib.build_vi())       # shares the object directory of the plain probe
        if vi == 'asan':
            r.append(vlib.build_vi(asan=True))
    return r


def parse_obs(s):
    d = {}
    for part in s.split():
        k, eq, v = part.partition('=')
        d[k] = v if eq else True
    return d


def ilist(v):
    return [int(x) for x in v.split(',') if x != '']


def cols(v):
    """cols field -> {p: (off, cursor, next+, next-, pn0, pn1, pp0, pp1)}"""
    out = {}
    for e in v.split(','):
        if e:
            w = [int(x) for x in e.split(':')]
            out[w[0]] = tuple(w[1:])
    return out


def run_ren(probe, model, reqs, chunks=16, timeout=900, heads=None):
    """reqs: list of 'ren <hex> <order> <td> <lim>'.  Returns (impl_obs, model_obs, model_reqs, err):
    the observable part of the probe's answers, the model's answers for the same requests extended
    by the recorded matcher oracle, and an error text if a process failed.  If `heads` is a list it
    receives, per request, the parsed non-observable part of the probe's answer (n, cut = depth cuts
    of the regex engine during dir_context + dir_reorder, ctxf, trace)."""
    n = len(reqs)
    if n == 0:
        return [], [], [], None
    chunks = max(1, min(chunks, n))
    idx = [list(range(k, n, chunks)) for k in range(chunks)]      # round robin: expensive cases spread out
    parts = [[reqs[i] for i in ix] for ix in idx]

    def one(part):
        rc, out, err = vlib.run_lines(probe, part, timeout=timeout)
        if rc != 0 or len(out) != len(part):
            # the probe answers in order: the request after the last answer is the one it died on
            culprit = [part[len(out)]] if len(out) < len(part) else part
            return (None, None, None, 'probe_ren: rc=%d after %d of %d requests: %s' % (rc, len(out), len(part), err[-1500:]), culprit, None)
        obs, mreq, hd = [], [], []
        for r, o in zip(part, out):
            head, sep, ob = o.partition(' |')
            h = parse_obs(head)
            hd.append(h)
            obs.append(ob)
            mreq.append('%s %s %s' % (r, h.get('ctxf', '-2'), h.get('trace', '-')))
        mo = None
        if model:
            rc, mo, err = vlib.run_lines(model, mreq, timeout=timeout)
            if rc != 0 or len(mo) != len(part):
                return (obs, None, mreq, 'model_ren: rc=%d, %d answers for %d requests: %s' % (rc, len(mo), len(part), err[-1500:]), part, hd)
        return (obs, mo, mreq, None, part, hd)

    res = vlib.pmap(one, parts)
    obs, mo, mreq, errs = [None] * n, [None] * n, [None] * n, []
    if heads is not None:
        heads[:] = [None] * n
    for ix, (o, m, q, e, part, hd) in zip(idx, res):
        if e:
            errs.append((e, part))
        for j, i in enumerate(ix):
            if hd is not None and heads is not None:
                heads[i] = hd[j]
            if o is not None:
                obs[i] = o[j]
            if m is not None:
                mo[i] = m[j]
            if q is not None:
                mreq[i] = q[j]
    return obs, mo, mreq, errs
