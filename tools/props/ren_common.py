"""Shared helpers of the C17 / C18 checks: the generated tables as Python values (parsed from the
generated Coq files, i.e. exactly what the proofs are about), running harness/probe_ren.c and the
extracted model on the same `ren` requests, parsing the answers."""
import subprocess
import os, re, bisect
import vlib

COQ = vlib.COQ


def _defn(text, name):
    m = re.search(r'Definition %s\b[^:]*:[^=]*:=\s*(.*?)\.\n\s*\n|Definition %s\b[^:]*:[^=]*:=\s*(.*?)\.\s*$' % (name, name), text, re.S | re.M)
    if not m:
        raise RuntimeError('generated definition %s not found' % name)
    return m.group(1) or m.group(2)


def _ints(s):
    return [int(x) for x in re.findall(r'-?\d+', s)]


def _pairs(text, name):
    v = _ints(_defn(text, name))
    return [(v[2 * i], v[2 * i + 1]) for i in range(len(v) // 2)]


def tables():
    uc = open(os.path.join(COQ, 'GenUcTables.v')).read()
    cf = open(os.path.join(COQ, 'GenConf.v')).read()
    cs = open(os.path.join(COQ, 'GenConsts.v')).read()
    t = {}
    for k in ('dwchars', 'zwchars', 'bchars', 'r2l_ranges', 'acomb_ranges'):
        t[k] = _pairs(uc, k)
    v = _ints(_defn(uc, 'achars'))
    t['achars'] = [tuple(v[5 * i:5 * i + 5]) for i in range(len(v) // 5)]
    t['dw_min'] = int(re.search(r'Definition dw_min : Z := (\d+)', uc).group(1))
    t['zw_min'] = int(re.search(r'Definition zw_min : Z := (\d+)', uc).group(1))
    t['TABSTOP'] = int(re.search(r'Definition TABSTOP : Z := (\d+)', cs).group(1))
    t['TABMASK'] = int(re.search(r'Definition TABMASK : Z := (\d+)', cs).group(1))
    # placeholders: ([bytes]%N, [bytes]%N, wid%Z)
    body = _defn(cf, 'placeholders')
    ph = []
    for m in re.finditer(r'\(\[([^\]]*)\]%N,\s*\[([^\]]*)\]%N,\s*\(?(-?\d+)\)?%Z\)', body):
        ph.append((bytes(_ints(m.group(1))), bytes(_ints(m.group(2))), int(m.group(3))))
    t['placeholders'] = ph
    body = _defn(cf, 'dirmarks')
    dm = []
    for m in re.finditer(r'\(\((-?\d+)\)%Z,\s*\((-?\d+)\)%Z,\s*\((-?\d+)\)%Z,\s*\[([^\]]*)\]%N\)', body):
        dm.append((int(m.group(1)), int(m.group(2)), int(m.group(3)), bytes(_ints(m.group(4)))))
    t['dirmarks'] = dm
    body = _defn(cf, 'dircontexts')
    dc = []
    for m in re.finditer(r'\(\((-?\d+)\)%Z,\s*\[([^\]]*)\]%N\)', body):
        dc.append((int(m.group(1)), bytes(_ints(m.group(2)))))
    t['dircontexts'] = dc
    if not ph or not dm or not dc:
        raise RuntimeError('generated conf tables could not be parsed')
    return t


def in_table(tab, c):
    """membership by linear scan -- the meaning of 'the table lists c' (no order assumed)"""
    for a, b in tab:
        if a <= c <= b:
            return True
    return False


class Classes:
    """width classes of code points as the generated tables list them"""

    def __init__(self, t):
        self.t = t
        self.ph = {}
        for s, d, w in t['placeholders']:
            try:
                c = ord(s.decode('utf-8'))
            except Exception:
                continue
            self.ph.setdefault(c, (d, w))

    @staticmethod
    def plain_ascii(c):
        return c in (0x20, 9, 10) or 0x20 <= c < 0x7f

    def zw(self, c):
        return in_table(self.t['zwchars'], c)

    def dw(self, c):
        return in_table(self.t['dwchars'], c)

    def bell(self, c):
        return (not self.plain_ascii(c)) and (self.zw(c) or in_table(self.t['bchars'], c))

    def comb(self, c):
        return (not self.plain_ascii(c)) and in_table(self.t['acomb_ranges'], c)

    def wid(self, c):
        return 0 if self.zw(c) else 2 if self.dw(c) else 1

    def cwid(self, c, col):
        """cells the character occupies when it starts in column col (the property's sentence)"""
        if c == 9:
            return 8 - col % 8
        if c in self.ph:
            return self.ph[c][1]
        if self.bell(c):
            return 1
        return self.wid(c)


def enc(cs):
    return ''.join(chr(c) for c in cs).encode('utf-8', 'surrogatepass')


def reorder_expected(cs, opt):
    """Is the line laid out in the order dir_reorder computes?  ex.c: `linelimit` = "do not process lines longer
    than this" -- longer in CHARACTERS (the terminator counts); order 2 = always, order 1 = only lines that
    contain a multi-byte sequence, order 0 = never.  opt = (order, td, lim)."""
    n = len(cs)
    return n <= opt[2] and (opt[0] == 2 or (opt[0] == 1 and n < len(enc(cs))))


LIM_ARAB = [0x628, 0x62a, 0x633, 0x644, 0x645, 0x646, 0x647, 0x64a]       # two bytes each
LIM_HEB = [0x5d0, 0x5d1, 0x5d2, 0x5e9, 0x5dc]                               # two bytes each
LIM_CJK = [0x4e2d, 0x6587, 0x65e5, 0x672c]                                  # three bytes each, left-to-right, two cells
LIM_LAT2 = [0xe9, 0xe8, 0xfc]                                               # two bytes each, left-to-right
LIM_LATIN = [0x61, 0x62, 0x63, 0x7a, 0x41, 0x39]


def gen_limit_lines(rng, quick, lims=(8, 16, 256)):
    """Lines around `linelimit`, counted both ways.  For every limit L: lines of L-1, L, L+1 CHARACTERS (with and
    without a terminator, which counts) whose BYTE count is far above L (two- and three-byte characters), and
    lines whose BYTE count is L-1, L, L+1 while they have far fewer characters; each one with a run that the
    reordering must reverse: right-to-left letters (Arabic, Hebrew; neutrals inside) in a left-to-right line,
    a Latin run in a right-to-left line; the base direction comes from the first character or from
    textdirection; orders 0, 1, 2.  Single-byte lines of the same lengths are the controls (order 1 never
    reorders them; with td=-2 they are one Latin run in a right-to-left line for order 2).
    Returns [(code points, (order, td, lim))]; deterministic given the rng."""
    NL = 10
    out = []

    def pad(cs, n, pool, tail):
        """cs extended by characters of `pool` to n characters, ending in `tail`"""
        body = list(cs)
        k = 0
        while len(body) + len(tail) < n:
            body.append(pool[k % len(pool)])
            k += 1
        return (body + tail)[:n] if len(body) + len(tail) > n else body + tail

    def lines_of(n, nl):
        """lines of exactly n characters (terminator included if nl); None entries are dropped by the caller"""
        m = n - (1 if nl else 0)            # characters before the terminator
        end = [NL] if nl else []
        r = []
        if m < 6:
            return r
        ar = [rng.choice(LIM_ARAB) for _ in range(3)]
        he = [rng.choice(LIM_HEB) for _ in range(3)]
        # left-to-right line: "a <run> b" padded with three-byte / two-byte left-to-right characters
        r.append((pad([0x61, 0x20] + ar[:2] + [0x20, 0x62], m, LIM_CJK, []) + end, (0, 1)))
        r.append((pad([0x61, 0x20, ar[0], 0x20, ar[1], ar[2], 0x20], m, LIM_LAT2, []) + end, (0, 1, 2)))
        r.append((pad([0x7a, 0x20] + he + [0x2e], m, LIM_CJK, [0x20, ar[0], ar[1]]) + end, (0, 2)))
        # the run at the very end of the line / the whole line one run (left-to-right forced)
        r.append((pad([0x61, 0x20], m, LIM_ARAB, []) + end, (0, 1, 2)))
        r.append((pad([], m, LIM_ARAB, []) + end, (1, 2)))
        r.append((pad([], m, LIM_HEB, [0x20, 0x5d0]) + end, (2,)))
        # right-to-left line: Arabic text with a Latin run inside / at the end
        r.append((pad(ar[:2] + [0x20, 0x61, 0x62, 0x20, 0x63, 0x20], m, LIM_ARAB, []) + end, (0, -1, -2)))
        r.append((pad(ar[:1] + [0x20], m, LIM_ARAB, [0x20, 0x78, 0x79, 0x31]) + end, (0, -1)))
        r.append((pad([0x61, 0x62, 0x20] + he[:2] + [0x20, 0x63, 0x64, 0x20], m, LIM_HEB, []) + end, (-2, -1)))
        # single-byte controls of the same length
        r.append((pad([0x61, 0x62, 0x20, 0x63], m, LIM_LATIN, []) + end, (-2, 0)))
        return r

    def lines_bytes(nbytes, nl):
        """lines of exactly nbytes bytes made (almost) only of multi-byte characters: about half / a third as many characters"""
        m = nbytes - (1 if nl else 0)
        end = [NL] if nl else []
        r = []
        if m < 8:
            return r
        # "a " + two-byte right-to-left letters (+ one single-byte character if the parity asks for it)
        k = (m - 2) // 2
        r.append(([0x61, 0x20] + [LIM_ARAB[i % len(LIM_ARAB)] for i in range(k)] + ([0x2e] if (m - 2) % 2 else []) + end, (0, 1)))
        # right-to-left line with a Latin run: letters, " ab c", letters
        k = (m - 6) // 2
        r.append(([LIM_ARAB[i % 5] for i in range(k)] + [0x20, 0x61, 0x62, 0x20, 0x63] + ([0x2e] if (m - 6) % 2 else [0x20]) + end, (0, -1)))
        # three-byte filler in front of a run
        k = (m - 5) // 3
        r.append(([LIM_CJK[i % len(LIM_CJK)] for i in range(k)] + [0x20] * ((m - 5) % 3 + 1) + [rng.choice(LIM_HEB), rng.choice(LIM_ARAB)] + end, (0, 2)))
        return r

    for lim in lims:
        big = lim > 64
        for n in (lim - 1, lim, lim + 1):
            for nl in (True, False):
                if big and quick and not nl and n != lim:
                    continue
                cand = lines_of(n, nl) + lines_bytes(n, nl)
                if big and quick:
                    cand = [cand[i] for i in range(len(cand)) if (i + n) % 2 == 0 or i in (0, 6)]
                for cs, tds in cand:
                    assert all(c != 0 and c != 26 for c in cs)
                    for td in tds:
                        orders = (1, 2) if (big and quick) else (1, 2, 0)
                        for order in orders:
                            if order == 0 and td != tds[0]:
                                continue
                            out.append((cs, (order, td, lim)))
                    # the same line against the neighbouring limits: one character / a few bytes either side
                    if not big:
                        for l2 in (len(cs) - 1, len(cs) + 1, len(enc(cs)), len(enc(cs)) - 1):
                            if l2 != lim and l2 > 0:
                                out.append((cs, (rng.choice([1, 2]), tds[0], l2)))
    return out


def build(model=None, vi=False):
    """plain and sanitized probe (and, if asked for, the extracted model and the real binary) built side by side"""
    vlib.tmpdir()                       # create the scratch directory before the threads start
    jobs = [lambda: vlib.build_probe('ren', includes=['uc', 'ren', 'dir']),
            lambda: vlib.build_probe('ren', includes=['uc', 'ren', 'dir'], asan=True)]
    if model:
        jobs.append(model)
    r = vlib.pmap(lambda f: f(), jobs)
    if vi:
        r.append(vlib.build_vi())       # shares the object directory of the plain probe
        if vi == 'asan':
            r.append(vlib.build_vi(asan=True))
    return r


def parse_obs(s):
    d = {}
    for part in s.split():
        k, eq, v = part.partition('=')
        d[k] = v if eq else True
    return d


def ilist(v):
    return [int(x) for x in v.split(',') if x != '']


def cols(v):
    """cols field -> {p: (off, cursor, next+, next-, pn0, pn1, pp0, pp1)}"""
    out = {}
    for e in v.split(','):
        if e:
            w = [int(x) for x in e.split(':')]
            out[w[0]] = tuple(w[1:])
    return out


def run_ren(probe, model, reqs, chunks=16, timeout=900, heads=None):
    """reqs: list of 'ren <hex> <order> <td> <lim>'.  Returns (impl_obs, model_obs, model_reqs, err):
    the observable part of the probe's answers, the model's answers for the same requests extended
    by the recorded matcher oracle, and an error text if a process failed.  If `heads` is a list it
    receives, per request, the parsed non-observable part of the probe's answer (n, cut = depth cuts
    of the regex engine during dir_context + dir_reorder, ctxf, trace)."""
    n = len(reqs)
    if n == 0:
        return [], [], [], None
    chunks = max(1, min(chunks, n))
    idx = [list(range(k, n, chunks)) for k in range(chunks)]      # round robin: expensive cases spread out
    parts = [[reqs[i] for i in ix] for ix in idx]

    def one(part):
        try:
            rc, out, err = vlib.run_lines(probe, part, timeout=timeout)
        except subprocess.TimeoutExpired:
            # the probe hangs (e.g. dir_fix no longer advances because the matcher reports an empty match): find the request.
            # Each request alone takes milliseconds; the first one without an answer within 60 s is re-run alone with 180 s
            # before it is reported (only a reproduced timeout counts).
            for r1 in part:
                try:
                    vlib.run_lines(probe, [r1], timeout=60)
                    continue
                except subprocess.TimeoutExpired:
                    pass
                try:
                    vlib.run_lines(probe, [r1], timeout=180)
                except subprocess.TimeoutExpired:
                    return (None, None, None, 'probe_ren: HANG: this request alone gets no answer within 180 s (dir_context / dir_reorder '
                            'do not return; the property promises an order array for every line)', [r1], None)
            return (None, None, None, 'probe_ren: %d requests did not finish within %d s, no single one of them reproduces it' % (len(part), timeout), part, None)
        if rc != 0 or len(out) != len(part):
            # the probe answers in order: the request after the last answer is the one it died on
            culprit = [part[len(out)]] if len(out) < len(part) else part
            return (None, None, None, 'probe_ren: rc=%d after %d of %d requests: %s' % (rc, len(out), len(part), err[-1500:]), culprit, None)
        obs, mreq, hd = [], [], []
        for r, o in zip(part, out):
            head, sep, ob = o.partition(' |')
            h = parse_obs(head)
            hd.append(h)
            obs.append(ob)
            mreq.append('%s %s %s' % (r, h.get('ctxf', '-2'), h.get('trace', '-')))
        mo = None
        if model:
            rc, mo, err = vlib.run_lines(model, mreq, timeout=timeout)
            if rc != 0 or len(mo) != len(part):
                return (obs, None, mreq, 'model_ren: rc=%d, %d answers for %d requests: %s' % (rc, len(mo), len(part), err[-1500:]), part, hd)
        return (obs, mo, mreq, None, part, hd)

    res = vlib.pmap(one, parts)
    obs, mo, mreq, errs = [None] * n, [None] * n, [None] * n, []
    if heads is not None:
        heads[:] = [None] * n
    for ix, (o, m, q, e, part, hd) in zip(idx, res):
        if e:
            errs.append((e, part))
        for j, i in enumerate(ix):
            if hd is not None and heads is not None:
                heads[i] = hd[j]
            if o is not None:
                obs[i] = o[j]
            if m is not None:
                mo[i] = m[j]
            if q is not None:
                mreq[i] = q[j]
    return obs, mo, mreq, errs
