"""C20 -- each open buffer keeps its own text, position and dirty state across switches.

Implementation side: the real binary, `vi -s -e f1 f2 ...` (ex mode, several files) and `vi -v`
for the shortcuts (^^ zj zk zJ zK zD).  A history is a list of abstract commands; `expand()`
inserts after every command the observation commands `=`, `%p`, `<n>p` (restores the current
line) and `b` (the listing: ids, aliases, `*` flags) and puts a sentinel `ec <@k>` in front of
every command so that the output stream can be cut per command.

Oracle (class Spec, independent of the Coq model): a finite map id -> (path, text, current
line, undo stack with a dirty token) plus the most-recently-used list, following the property
text.  Correspondence: the extracted model (coq/BufsDefs.v via ocaml/drv_bufs.ml) runs the same
expanded command list and prints the same canonical events.

Buffer NAMES are strings exactly as typed (`./a` and `a` are two buffers), FILES are what the spellings denote on disk
(fskey, mirror of BufsDefs.fskey).  Styles `unnamed` / `spell`: sessions without a file argument in which the unnamed
buffer is named by `:w <spelling>` (ec_write -- the third place besides bufs_find / bufs_open that decides what a buffer is
called), left and re-entered by that spelling, by #, by number, by :ew and by another spelling of the same file.
"""
import json, re, os, copy
import vlib

GROUP = 'bufs'
TRUSTED = ['tools/props/c20.py class Spec: the reference semantics of the multi-buffer commands (finite map + MRU list) used as the oracle of the failing-input search',
           'assumption of the model and of the oracle: one editor session happens within one clock second (file time stamps are compared by the editor with one-second granularity); generated histories avoid the time-dependent case (a non-forced :w over a file that another buffer rewrote)']

NAMES = ['a', 'ab', 'abc', 'b', 'ba', 'c', 'ca', 'd', 'da', 'e', 'ea', 'f', 'fa', 'g', 'ga', 'h']
NBUFS = 16
SENT = re.compile(rb'<@(\d+)>')
LIST_RE = re.compile(r'([ \d]\d) (.) (\S*) ([* ])')

# ---------------------------------------------------------------------------------------------
# abstract commands (tuples; first element = kind)
#   ('e', bang, ew, ptype, path)      ptype: 'lit' | 'alt' (#) | 'cur' (%) | 'none'
#   ('bl',) ('bd',) ('br',) ('bi', n) ('b+',) ('b-',) ('ba', k)
#   ('n',) ('p',) ('q', bang) ('w', bang, path|None) ('wa', 0|1)
#   ('oa', addr|None, [lines]) ('od', addr|None) ('os', addr|None, tag) ('ou',) ('or',)
#   ('o=',) ('o%',) ('op', n)
#   ('alive',)                          ec ALIVE sentinel (observes whether the editor quit)
#   ('ln', [c1, c2, ...])               one command line `c1|c2|...` (edits s/d, forced switches, a final u/redo)
#   ('obs', 0|1)                        not an editor command: turns the `b` listing of the observation block off / on.  The listing
#                                       calls lbuf_modified() on EVERY buffer (it ends the open undo step of the background buffers),
#                                       so histories about undo steps across switches look at the listing only at chosen moments


def cmd_text(c):
    k = c[0]
    if k == 'e':
        _, bang, ew, pt, path = c
        s = ('ew' if ew else 'e') + ('!' if bang else '')
        arg = {'lit': path, 'alt': '#', 'cur': '%', 'none': ''}[pt]
        return (s + ' ' + arg).rstrip() + '\n'
    if k == 'bl':
        return 'b\n'
    if k == 'bd':
        return 'b !\n'
    if k == 'br':
        return 'b ~\n'
    if k == 'bi':
        return 'b %d\n' % c[1]
    if k == 'b+':
        return 'b +\n'
    if k == 'b-':
        return 'b -\n'
    if k == 'ba':
        return 'b %s\n' % '%#^'[c[1]]
    if k == 'n':
        return 'next\n'
    if k == 'p':
        return 'prev\n'
    if k == 'q':
        return 'q!\n' if c[1] else 'q\n'
    if k == 'w':
        return ('w!' if c[1] else 'w') + ((' ' + c[2]) if c[2] else '') + '\n'
    if k == 'wa':
        return 'se wa\n' if c[1] else 'se nowa\n'
    if k == 'oa':
        return ('' if c[1] is None else str(c[1])) + 'a\n' + ''.join(l + '\n' for l in c[2]) + '.\n'
    if k == 'od':
        return ('' if c[1] is None else str(c[1])) + 'd\n'
    if k == 'os':
        return ('' if c[1] is None else str(c[1])) + 's/$/%s/\n' % c[2]
    if k == 'ou':
        return 'u\n'
    if k == 'or':
        return 'redo\n'
    if k == 'o=':
        return '=\n'
    if k == 'o%':
        return '%p\n'
    if k == 'op':
        return '%dp\n' % c[1]
    if k == 'alive':
        return 'ec ALIVE\n'
    if k == 'obs':
        return '" (observation block %s the b listing from here on)\n' % ('with' if c[1] else 'without')
    if k == 'ln':
        return '|'.join(cmd_text(x).rstrip('\n') for x in c[1]) + '\n'
    raise ValueError(c)


def hx(s):
    return s.encode().hex() if s else '-'


def fskey(p):
    """The file a path spelling denotes on disk, relative to the session's directory (mirror of BufsDefs.fskey): components
    between slashes without the empty ones and `.`, `d/..` removed.  ONLY the file system of the reference is keyed by it:
    buffer names are compared as strings, exactly as typed (`./a` and `a` are two buffers for one file)."""
    if p == '':
        return ''
    ab = p[0] == '/'
    st = []
    for c in p.split('/'):
        if c in ('', '.'):
            continue
        if c == '..':
            if not st:
                if not ab:
                    st.append(c)
            elif st[-1] == '..':
                st.append(c)
            else:
                st.pop()
        else:
            st.append(c)
    k = '/'.join(st)
    return '/' + k if ab else k


SUBDIR = 'sub'                  # the one directory that path spellings `sub/../name` go through (created with a file in it)


def spell_variants(base):
    return ['./' + base, '././' + base, './/' + base, SUBDIR + '/../' + base, './' + SUBDIR + '/../' + base, base]


def cmd_token(c):
    """Encoding for the model driver (one token per command)."""
    k = c[0]
    if k == 'ln':
        return 'LN/' + '/'.join(cmd_token(x) for x in c[1])
    if k == 'e':
        return 'E:%d:%d:%s:%s' % (c[1], c[2], c[3], hx(c[4] or ''))
    if k == 'bi':
        return 'BI:%d' % c[1]
    if k == 'ba':
        return 'BA:%d' % c[1]
    if k in ('bl', 'bd', 'br', 'b+', 'b-', 'n', 'p', 'ou', 'or', 'o=', 'o%', 'alive'):
        return {'bl': 'BL', 'bd': 'BD', 'br': 'BR', 'b+': 'B+', 'b-': 'B-', 'n': 'N', 'p': 'P', 'ou': 'OU', 'or': 'OR',
                'o=': 'O=', 'o%': 'O%', 'alive': 'AL'}[k]
    if k == 'q':
        return 'Q:%d' % c[1]
    if k == 'w':
        return 'W:%d:%s' % (c[1], hx(c[2] or ''))
    if k == 'wa':
        return 'SW:%d' % c[1]
    ad = lambda a: '-' if a is None else str(a)
    if k == 'oa':
        return 'OA:%s:%s' % (ad(c[1]), ','.join(hx(l) for l in c[2]))
    if k == 'od':
        return 'OD:%s' % ad(c[1])
    if k == 'os':
        return 'OS:%s:%s' % (ad(c[1]), hx(c[2]))
    if k == 'op':
        return 'OP:%d' % c[1]
    raise ValueError(c)


# ---------------------------------------------------------------------------------------------
# the reference: finite map id -> buffer, MRU list of ids


class SBuf:
    def __init__(self, bid, path):
        self.id, self.path = bid, path
        self.text = []
        self.row = 0
        self.tok = 0            # token of the current text in the undo history
        self.saved = 0          # token the file on disk corresponds to (-1: none)
        self.undo = []          # [(token before, text before, token after, text after)]
        self.redo = []
        self.stamp = -1         # logical time of the file when read / last written by this buffer (-1: no file)
        self.open = False       # an undo step of this buffer is still open (same command line, buffer not left since)

    def dirty(self):
        return self.tok != self.saved


class Spec:
    def __init__(self, files, args):
        self.fs = {k: v for k, v in files.items()}      # path -> list of lines
        self.ftime = {k: 0 for k in files}
        self.clock = 0
        self.args = list(args)
        self.next_pos = 0
        self.bufs = {}
        self.mru = []
        self.cnt = 0
        self.row = 0
        self.wa = False
        self.quit = False
        self.ntok = 0
        self.time_dependent = False
        self.evicted = False
        # ex_init: edit the first argument (or an unnamed buffer)
        self.edit(False, False, args[0] if args else '', [])

    # -- helpers
    def cur(self):
        return self.bufs[self.mru[0]]

    def fresh(self):
        self.ntok += 1
        return self.ntok

    def find(self, path):
        path = '' if path == '/' else path
        for i in self.mru:
            if self.bufs[i].path == path:
                return i
        return None

    def switch_to(self, bid):
        self.cur().row = self.row
        self.cur().open = False             # leaving a buffer ends its undo step (also in the middle of a command line)
        self.mru.remove(bid)
        self.mru.insert(0, bid)
        self.row = self.cur().row

    def change(self, b, new):
        t = self.fresh()
        if b.open and b.undo:
            # same command line, buffer not left in between: one undo step
            t0, x0, _, _ = b.undo[-1]
            b.undo[-1] = (t0, x0, t, new)
        else:
            b.undo.append((b.tok, b.text, t, new))
        b.open = True
        b.redo = []
        b.text, b.tok = new, t

    # -- commands; each returns the list of canonical events
    def edit(self, bang, ew, path, ev):
        if not bang and self.mru and not self.wa and self.cur().dirty():
            return ev
        if path is None:
            return ev
        if path and ew:
            t = self.find(path)
            if t is not None and self.mru.index(t) > 1:
                self.switch_to(self.mru[1])
        if path and self.find(path) is not None:
            self.switch_to(self.find(path))
            return ev
        if path or not self.mru:
            if len(self.mru) >= NBUFS:
                self.evicted = True
                victim = self.mru.pop()
                del self.bufs[victim]
            self.cnt += 1
            b = SBuf(self.cnt, '' if path == '/' else path)
            self.bufs[b.id] = b
            if self.mru:
                self.cur().row = self.row
                self.cur().open = False
            self.mru.insert(0, b.id)
            self.row = 0
        b = self.cur()
        if fskey(b.path) in self.fs:
            new = list(self.fs[fskey(b.path)])
            if path:
                b.text = new
            else:
                self.change(b, new)
            ev.append('R')
        if path:
            b.undo, b.redo = [], []
        b.saved = b.tok
        b.stamp = self.ftime.get(fskey(b.path), -1)
        self.row = max(0, min(self.row, len(b.text) - 1))
        return ev

    def expand_path(self, pt, path):
        if pt == 'lit':
            return path
        if pt == 'none':
            return ''
        idx = 1 if pt == 'alt' else 0
        if idx >= len(self.mru):
            return None
        p = self.bufs[self.mru[idx]].path
        return p if p else '/'

    def do(self, c):
        """One command line: a single command, or ('ln', parts) = `c1|c2|...` (every part runs, a failing one does not
        stop the line).  The end of the line ends the undo step of the buffer that is current then."""
        if self.quit or c[0] == 'obs':
            return []
        if c[0] == 'ln':
            evs = []
            for x in c[1]:
                evs += self.do1(x)
            ev = ['R'] if 'R' in evs else []
        else:
            ev = self.do1(c)
        if self.mru:
            self.cur().open = False
        return ev

    def do1(self, c):
        ev = []
        k = c[0]
        b = self.cur()
        n = len(b.text)
        if self.quit:
            return ev
        if k == 'e':
            _, bang, ew, pt, path = c
            # the dirty test comes before the path expansion
            if not bang and not self.wa:
                b.open = False
            if not bang and not self.wa and b.dirty():
                return ev
            self.edit(bang, ew, self.expand_path(pt, path), ev)
        elif k == 'bl':
            for x in self.bufs.values():
                x.open = False
            ev.append('L' + ','.join('%d.%s.%s.%d' % (self.bufs[i].id, '%#^'[j] if j < 3 else '_', hx(self.bufs[i].path), self.bufs[i].dirty())
                                     for j, i in enumerate(self.mru)))
        elif k == 'bd':
            del self.bufs[self.mru.pop(0)]
            if self.mru:
                self.row = self.cur().row
            else:
                self.cnt += 1
                self.bufs[self.cnt] = SBuf(self.cnt, '')
                self.mru = [self.cnt]
                self.row = 0
        elif k == 'br':
            new = {}
            for j, i in enumerate(self.mru):
                self.bufs[i].id = j + 1
                new[j + 1] = self.bufs[i]
            self.bufs = new
            self.mru = list(range(1, len(self.mru) + 1))
            self.cnt = len(self.mru)
        elif k in ('bi', 'b+', 'b-', 'ba'):
            t = None
            if k == 'bi':
                t = c[1] if c[1] in self.bufs else None
            elif k == 'b+':
                up = [i for i in self.mru if i > b.id]
                t = min(up) if up else None
            elif k == 'b-':
                dn = [i for i in self.mru if i < b.id]
                t = max(dn) if dn else None
            else:
                t = self.mru[c[1]] if c[1] < len(self.mru) else None
            if t is not None and not self.wa:
                b.open = False                      # the dirty test (bufs_modified -> lbuf_modified) ends the step
            if t is not None and (self.wa or not b.dirty()):
                self.switch_to(t)
        elif k in ('n', 'p'):
            d = 1 if k == 'n' else -1
            idx = self.next_pos + d if self.next_pos < len(self.args) else -1
            if 0 <= idx < len(self.args):
                if not self.wa:
                    b.open = False                  # the dirty test of ec_edit
                if self.wa or not b.dirty():
                    self.edit(False, False, self.args[idx], ev)
                    self.next_pos = idx
        elif k == 'q':
            if c[1]:
                self.quit = True
            else:
                d = [i for i in self.mru if self.bufs[i].dirty()]
                b.open = False                      # the walk of ec_quit starts with the dirty test of slot 0
                if d:
                    self.switch_to(d[0])
                else:
                    self.quit = True
        elif k == 'w':
            _, bang, path = c
            own = path is None or path == b.path
            path = b.path if path is None else path
            if path == '':
                return ev
            key = fskey(path)                       # the file; the NAME of the buffer stays the string as typed
            exists = key in self.fs
            if not bang:
                if own:
                    if exists and b.stamp < 0:
                        return ev                   # appeared since the buffer was opened
                    if exists and self.ftime[key] > b.stamp:
                        self.time_dependent = True  # refused only if the clock second changed in between
                else:
                    if exists:
                        return ev
            self.clock += 1
            self.fs[key] = list(b.text)
            self.ftime[key] = self.clock
            if b.path == '':
                b.path = path
            if b.path == path:
                b.saved = b.tok
                b.stamp = self.clock
                b.open = False
        elif k == 'wa':
            self.wa = bool(c[1])
        elif k == 'oa':
            a = c[1]
            if a is None:
                if self.row < 0 or self.row > n:
                    return ev
                beg, end = self.row, (self.row if self.row == n else self.row + 1)
            else:
                if a == 0:
                    beg, end = 0, 0
                elif 1 <= a <= n:
                    beg, end = a - 1, a
                else:
                    return ev
            if end > beg and beg + 1 <= n:
                beg += 1
            self.change(b, b.text[:beg] + list(c[2]) + b.text[beg:])
            self.row = max(0, min(len(b.text) - 1, beg + len(c[2]) - 1))
        elif k == 'od':
            a = c[1]
            if a is None:
                if self.row < 0 or self.row > n or n == 0:
                    return ev
                beg, end = self.row, (self.row if self.row == n else self.row + 1)
            else:
                if not (1 <= a <= n):
                    return ev
                beg, end = a - 1, a
            if end > beg:
                self.change(b, b.text[:beg] + b.text[end:])
            self.row = max(0, min(beg, len(b.text) - 1))
        elif k == 'os':
            a = c[1]
            if a is None:
                if self.row < 0 or self.row >= n:
                    return ev
                beg = self.row
            else:
                if not (1 <= a <= n):
                    return ev
                beg = a - 1
            self.change(b, b.text[:beg] + [b.text[beg] + c[2]] + b.text[beg + 1:])      # :s does not move the current line
        elif k == 'ou':
            if b.undo:
                t0, x0, t1, x1 = b.undo.pop()
                b.redo.append((t0, x0, t1, x1))
                b.text, b.tok = x0, t0
            b.open = False
        elif k == 'or':
            if b.redo:
                t0, x0, t1, x1 = b.redo.pop()
                b.undo.append((t0, x0, t1, x1))
                b.text, b.tok = x1, t1
            b.open = False
        elif k == 'o=':
            if 0 <= self.row <= n:
                ev.append('=%d' % (self.row if self.row == n else self.row + 1))
        elif k == 'o%':
            ev.append('T' + ','.join(hx(l) for l in b.text))
            self.row = max(0, n - 1)
        elif k == 'op':
            if 1 <= c[1] <= n:
                ev.append('T' + hx(b.text[c[1] - 1]))
                self.row = c[1] - 1
        elif k == 'alive':
            ev.append('A')
        return ev


# ---------------------------------------------------------------------------------------------
# expansion of a history into the script + the oracle's prediction


def expand(files, args, cmds):
    """Returns (expanded command list, predicted events per expanded command, Spec at the end).
    After every command: `=`, `%p`, `<row>p` (restore), `b`."""
    sp = Spec(files, args)
    out, pred = [], []
    listing = [True]

    def emit(c):
        out.append(c)
        pred.append(sp.do(c))

    def observe():
        row = sp.row
        n = len(sp.cur().text)
        emit(('o=',))
        emit(('o%',))
        if 0 <= row < n:
            emit(('op', row + 1))
        if listing[0]:
            emit(('bl',))

    observe()
    for c in cmds:
        if c[0] == 'obs':
            listing[0] = bool(c[1])
            if listing[0]:
                emit(('bl',))
            continue
        emit(c)
        if sp.quit:
            break
        if c[0] == 'q':
            emit(('alive',))
        observe()
    return out, pred, sp


def script_of(xcmds):
    parts = []
    for k, c in enumerate(xcmds):
        parts.append('ec <@%d>\n' % k)
        parts.append(cmd_text(c))
    parts.append('ec <@%d>\nq!\nq!\n' % len(xcmds))
    return ''.join(parts).encode()


def canon_output(out, xcmds):
    """Cut the editor's stdout at the sentinels and canonicalise every segment into events."""
    segs = {}
    pos = 0
    last = None
    for m in SENT.finditer(out):
        if last is not None:
            segs[last] = out[pos:m.start()]
        last = int(m.group(1))
        pos = m.end()
    if last is not None:
        segs[last] = out[pos:]
    res = []
    for k, c in enumerate(xcmds):
        if k not in segs:
            res.append(None)
            continue
        s = segs[k].decode('latin-1')
        ev = []
        kind = c[0]
        if kind in ('e', 'n', 'p', 'ln'):
            if '[r]' in s:
                ev.append('R')
        elif kind == 'bl':
            items = []
            for j, m in enumerate(LIST_RE.finditer(s)):
                al = m.group(2)
                items.append('%d.%s.%s.%d' % (int(m.group(1)), al if al != ' ' else '_', hx(m.group(3)), m.group(4) == '*'))
            ev.append('L' + ','.join(items))
        elif kind == 'o=':
            m = re.match(r'(\d+)\n', s)
            if m:
                ev.append('=%s' % m.group(1))
        elif kind == 'o%':
            lines = s.split('\n')[:-1] if s.endswith('\n') else s.split('\n')
            ev.append('T' + ','.join(hx(l) for l in lines) if s else 'T')
        elif kind == 'op':
            if s.endswith('\n'):
                ev.append('T' + hx(s[:-1]))
            elif s:
                ev.append('?' + hx(s))
        elif kind == 'alive':
            if 'ALIVE' in s:
                ev.append('A')
        res.append(ev)
    return res


def run_history(exe, files, args, cmds, timeout=20):
    xcmds, pred, sp = expand(files, args, cmds)
    fbytes = {k: ''.join(l + '\n' for l in v).encode() for k, v in files.items()}
    names = sorted(set(list(files) + list(sp.fs)))
    if any((SUBDIR + '/') in cmd_text(c) for c in xcmds) or any((SUBDIR + '/') in a for a in args):
        fbytes[SUBDIR + '/.keep'] = b''            # the directory that the spellings `sub/../name` go through
    r = vlib.run_ex(exe, script_of(xcmds), files=fbytes, args=args, readback=names, timeout=timeout)
    if r.timed_out:
        r = vlib.run_ex(exe, script_of(xcmds), files=fbytes, args=args, readback=names, timeout=3 * timeout)
    got = canon_output(r.out, xcmds)
    # after the editor has quit nothing is printed: the prediction has no commands after a quit
    return xcmds, pred, sp, got, r


def compare(xcmds, pred, sp, got, r):
    """The oracle: returns None or (index, description, expected, observed)."""
    if r.timed_out:
        return (-1, 'the editor did not terminate', 'exit', 'timeout')
    if r.crashed():
        return (-1, 'the editor crashed (status %s)' % r.rc, 'exit 0', r.err[-300:].decode('latin-1'))
    for k, c in enumerate(xcmds):
        if got[k] is None:
            return (k, 'no output segment for command %d %r (the editor stopped early)' % (k, cmd_text(c)), pred[k], None)
        if got[k] != pred[k]:
            return (k, describe(xcmds, k), pred[k], got[k])
    seen_end = (b'<@%d>' % len(xcmds)) in r.out
    if seen_end == sp.quit:
        return (len(xcmds), 'quit decision: the editor %s although the reference %s' % (
            ('was still running at the end of the script', 'quits') if sp.quit else ('quit', 'refuses (a buffer is dirty)')), not sp.quit, seen_end)
    for name, lines in sp.fs.items():
        want = ''.join(l + '\n' for l in lines).encode()
        if r.files.get(name) != want:
            return (len(xcmds), 'file %r on disk after the session differs from what the buffers wrote' % name, want.decode('latin-1'),
                    None if r.files.get(name) is None else r.files[name].decode('latin-1'))
    return None


def describe(xcmds, k):
    j = k
    while j > 0 and xcmds[j][0] in ('o=', 'o%', 'op', 'bl', 'alive'):
        j -= 1
    what = {'o=': 'current line number', 'o%': 'buffer text', 'op': 'current line', 'bl': 'buffer listing (ids, aliases, paths, dirty flags)',
            'alive': 'quit decision'}.get(xcmds[k][0], 'file read / command outcome')
    return '%s after %r differs from the reference' % (what, cmd_text(xcmds[j]).strip())


# ---------------------------------------------------------------------------------------------
# generators


def gen_files(rng, nfiles, missing=0):
    names = list(NAMES)
    rng.shuffle(names)
    names = names[:nfiles]
    files = {}
    for i, nm in enumerate(names):
        if i >= nfiles - missing:
            continue
        n = rng.choice([0, 1, 2, 3, 3, 4, 6])
        files[nm] = ['%s%d' % (nm, j + 1) for j in range(n)]
    return names, files


def gen_spell_files(rng, style):
    """Files and names of the path-spelling styles.  2..4 base names; each is used under 2..3 spellings (`./n`, `././n`, `.//n`,
    `sub/../n`, `./sub/../n`, `n`) that the editor keeps apart as buffer NAMES although they are one file.
    'unnamed': the session starts WITHOUT a file argument, at least one base name has no file yet (so that an unforced `:w`
    can give the unnamed buffer that name); 'spell': the argument list is one spelling per base name."""
    bases = list(NAMES)
    rng.shuffle(bases)
    bases = bases[:rng.range(2, 4)]
    files = {}
    for i, nm in enumerate(bases):
        if i == 0 and style == 'unnamed':
            continue
        if rng.chance(3, 4):
            files[nm] = ['%s%d' % (nm, j + 1) for j in range(rng.choice([0, 1, 2, 3, 4]))]
    pool = []
    groups = {}
    for nm in bases:
        v = spell_variants(nm)
        first = rng.choice(v[:5])                # at least one spelling that is not the plain name
        rest = [x for x in v if x != first]
        rng.shuffle(rest)
        groups[nm] = [first] + rest[:rng.range(1, 2)]
        pool += groups[nm]
    args = [] if style == 'unnamed' else [rng.choice(groups[nm]) for nm in bases]
    return bases, files, pool, groups, args


def gen_history(rng, names, files, length, style, args=None, groups=None):
    """Generation is steered by the reference state so that most commands are meaningful.
    names: the paths that :e / :w pick from (the argument list unless args is given)."""
    args = list(names) if args is None else list(args)
    spell = groups is not None
    sp = Spec(files, args)
    cmds = []
    tagn = [0]
    outn = [0]

    def push(c):
        cmds.append(c)
        sp.do(c)

    def pick_edit():
        b = sp.cur()
        n = len(b.text)
        t = rng.below(10)
        valid = 0 <= sp.row < n
        noaddr = valid and rng.chance(2, 3)
        tagn[0] += 1
        if t < 4 or n == 0:
            a = None if (noaddr or (n == 0 and sp.row == 0)) else rng.range(0, n)
            return ('oa', a, ['%s+%d' % (b.path or 'nn', tagn[0])] + (['x%d' % tagn[0]] if rng.chance(1, 4) else []))
        if t < 7:
            return ('os', None if noaddr else rng.range(1, n), '~%d' % tagn[0])
        return ('od', None if noaddr else rng.range(1, n))

    def pick_switch():
        t = rng.below(20)
        ids = list(sp.mru)
        bang = rng.chance(1, 3)
        if t < 4:
            return ('e', bang, 0, 'lit', rng.choice(names))
        if t < 6:
            return ('e', bang, 0, 'alt', None)
        if t < 7:
            return ('e', bang, 1, 'lit', rng.choice(names))
        if t < 11:
            return ('bi', rng.choice(ids) if rng.chance(9, 10) else rng.range(0, 18))
        if t < 13:
            return ('b+',)
        if t < 15:
            return ('b-',)
        if t < 17:
            return ('ba', rng.below(3))
        if t < 18:
            return ('n',)
        if t < 19:
            return ('p',)
        return ('e', bang, 0, 'cur', None)

    # -- `|`-joined command lines that switch buffers in mid-line (repo commit 75e4c2f: leaving a buffer ends its undo step).
    #    Parts: s/d edits, switches that skip the dirty test (e! / e # with !, anything under writeany), a final u / redo.
    def forced_switch(sim):
        open_paths = [sim.bufs[i].path for i in sim.mru if sim.bufs[i].path]
        opts = [('e', 1, 0, 'lit', rng.choice(open_paths) if open_paths and rng.chance(3, 4) else rng.choice(names))] * 3
        if len(sim.mru) > 1:
            opts.append(('e', 1, 0, 'alt', None))
        if sim.wa:
            opts += [('bi', rng.choice(list(sim.mru))), ('b+',), ('b-',), ('ba', rng.range(1, 2)),
                     ('e', 0, 0, 'lit', rng.choice(open_paths) if open_paths else rng.choice(names))]
        return rng.choice(opts)

    def line_edit(sim):
        b = sim.cur()
        n = len(b.text)
        tagn[0] += 1
        a = None if (0 <= sim.row < n and rng.chance(1, 2)) else rng.range(1, n)
        if rng.chance(3, 4):
            return ('os', a, '~%d' % tagn[0])
        return ('od', a)

    def pick_line():
        sim = copy.deepcopy(sp)
        parts = []
        nparts = rng.range(2, 4)
        switched = False
        for k in range(nparts):
            n = len(sim.cur().text)
            if n == 0 or (k == nparts - 1 and not switched) or rng.chance(1, 2):
                c = forced_switch(sim)
                switched = True
            else:
                c = line_edit(sim)
            parts.append(c)
            sim.do1(c)
        if rng.chance(1, 3):
            parts.append(('ou',) if rng.chance(3, 4) else ('or',))
        return ('ln', parts)

    def push_roundtrip():
        """`s|e! g`, `e! f|s`, `u`: the undo history of f is its own -- the u undoes only the last line's change."""
        f = sp.cur()
        others = [x for x in names if x != f.path]
        if not f.path or not f.text or not others:
            push(pick_edit())
            return
        g = rng.choice(others)
        n = len(f.text)
        tagn[0] += 2
        first = [('os', rng.range(1, n), '~%d' % (tagn[0] - 1)), ('e', 1, 0, 'lit', g)]
        sim = copy.deepcopy(sp)
        for c in first:
            sim.do1(c)
        if sim.cur().text and rng.chance(1, 2):
            first.append(line_edit(sim))
        push(('ln', first))
        if sp.cur().path == f.path or sp.find(f.path) is None:
            return
        back = ('e', 1, 0, 'lit', f.path) if not (sp.wa and rng.chance(1, 3)) else ('bi', f.id)
        push(('ln', [back, ('os', rng.range(1, n), '~%d' % tagn[0])]))
        push(('ou',))
        if rng.chance(1, 3):
            push(rng.choice([('ou',), ('or',)]))

    # -- path spellings (styles 'unnamed' and 'spell'): the buffer gets its name from `:w spelling` typed in the unnamed buffer
    #    (ec_write: the third place besides bufs_find / bufs_open that decides what a buffer is called), is left and re-entered
    #    by the same spelling, by #, by number, and by ANOTHER spelling of the same file (a different name = a second buffer
    #    that reads the file).
    def name_by_write():
        cand = [x for x in names if sp.find(x) is None] or list(names)
        path = rng.choice(cand)
        return ('w', 1 if (fskey(path) in sp.fs and rng.chance(4, 5)) else rng.below(2), path)

    def come_back(path, bid):
        t = rng.below(10)
        bang = 1 if rng.chance(3, 4) else 0
        if t < 4:
            return ('e', bang, 0, 'lit', path)
        if t < 5:
            return ('e', bang, 1, 'lit', path)
        if t < 7 and len(sp.mru) > 1 and sp.bufs[sp.mru[1]].id == bid:
            return ('e', bang, 0, 'alt', None)
        if t < 8:
            return ('bi', bid)
        same = [x for x in names if fskey(x) == fskey(path) and x != path]
        if same and t < 9:
            return ('e', bang, 0, 'lit', rng.choice(same))
        return ('e', bang, 0, 'lit', path)

    def spell_episode():
        """(go to / make the unnamed buffer,) give it text, name it by :w, change it again, leave, come back."""
        if sp.cur().path != '':
            push(('e', 1, 0, 'lit', '/'))
        if sp.cur().path != '':
            return
        if rng.chance(4, 5):
            push(pick_edit())
        push(name_by_write())
        b = sp.cur()
        if b.path == '':
            return                                  # the write was refused (the file exists and the command was not forced)
        me, mypath = b.id, b.path
        if rng.chance(2, 3):
            push(pick_edit())
        others = [x for x in names if fskey(x) != fskey(mypath)]
        away = rng.choice(others) if others and rng.chance(5, 6) else '/'
        push(('e', 1, int(rng.below(5) == 0), 'lit', away))
        if rng.chance(1, 4):
            push(pick_edit())
            push(('e', 1, 0, 'lit', rng.choice(names)))
        if sp.cur().id != me:
            push(come_back(mypath, me))
        if rng.chance(1, 2):
            push(('ou',))
        if sp.cur().id == me and rng.chance(1, 3):
            push(('w', 0, None))
            if rng.chance(1, 2):
                push(('q', 0))

    if style in ('wa', 'full16') or rng.chance(1, 2):
        push(('wa', 1))
    if style == 'unnamed':
        spell_episode()
    if style == 'full16':
        order = list(names)
        rng.shuffle(order)
        for nm in order:
            push(('e', 1, 0, 'lit', nm))
    while len(cmds) < length and not sp.quit:
        if spell and rng.chance(1, 6):
            if rng.chance(1, 2):
                spell_episode()
            else:
                named = [i for i in sp.mru[1:] if sp.bufs[i].path]
                if named:
                    i = rng.choice(named)
                    push(come_back(sp.bufs[i].path, i))
            if sp.time_dependent:
                break
            continue
        t = rng.below(112)
        b = sp.cur()
        if t >= 106:
            push_roundtrip()
        elif t >= 100:
            push(pick_line())
        elif t < 30:
            push(pick_switch())
        elif t < 55:
            push(pick_edit())
        elif t < 62:
            push(('ou',))
        elif t < 66:
            push(('or',))
        elif t < 72:
            # write: own path; forced when another buffer rewrote the file (time stamp case)
            bang = rng.chance(1, 4)
            if b.path and b.path in sp.fs and sp.ftime[b.path] > b.stamp >= 0:
                bang = 1
            push(('w', bang, None))
        elif t < 76 and spell and b.path == '':
            push(name_by_write())
        elif t < 76:
            # write to another path: a fresh one, or the path of another open buffer / existing file
            if b.path == '' or rng.chance(1, 2):
                outn[0] += 1
                push(('w', rng.chance(1, 2), 'o%d' % outn[0]))
            else:
                push(('w', rng.chance(2, 3), rng.choice(names)))
        elif t < 80:
            push(('e', 1, 0, 'none', None))            # e! : reload the current file
        elif t < 84:
            push(('bd',))
        elif t < 87:
            push(('br',))
        elif t < 90:
            push(('wa', rng.below(2)))
        elif t < 94:
            push(('q', 0))
        else:
            push(pick_switch())
        if sp.time_dependent:
            # do not keep a command whose outcome depends on the wall clock
            cmds.pop()
            sp2 = Spec(files, args)
            for c in cmds:
                sp2.do(c)
            sp = sp2
    # final sweep: visit every buffer and look at it, then quit
    if sp.time_dependent:
        # (path-spelling episodes only) cut the history back to its last prefix whose outcome does not depend on the clock
        while cmds:
            cmds.pop()
            sp = Spec(files, args)
            for c in cmds:
                sp.do(c)
            if not sp.time_dependent:
                break
    if not sp.quit:
        push(('wa', 1))
        for i in sorted(sp.mru):
            push(('bi', i))
        if spell:
            # ... and by its own name: the buffer reached must be that very buffer, and no file is read
            for i in sorted(sp.mru):
                if sp.bufs[i].path:
                    push(('e', rng.below(2), int(rng.below(4) == 0), 'lit', sp.bufs[i].path))
        push(('wa', 0))
        push(('q', 0))
    return args, cmds


def gen_reenter_files(rng):
    names = list(NAMES)
    rng.shuffle(names)
    names = names[:rng.choice([2, 2, 3, 3, 4, 5])]
    return names, {nm: ['%s%d' % (nm, j + 1) for j in range(rng.range(2, 5))] for nm in names}


def gen_reenter(rng, names, files):
    """Undo steps never span a buffer switch, WHICHEVER way the buffer is left and reached again.
    An episode: (1) the current buffer A is changed and left within ONE command line (`s|e! B`, `s|e! #`, under writeany also
    `s|b N`, `s|b +`, `s|b -`, `s|b #`, `s|next`, `s|prev`, `s|e B`), (2) now and then other buffers are visited (never A),
    (3) A is reached again by one of all the ways there are -- `e! A`, `e #`, `b N`, `b + / -`, `b #`, `next` / `prev`, and
    `b !` (delete the current buffer, one or several times, until A, the alternate one, moves up: the only way into a buffer
    that does not go through bufs_switch) -- with another change on the SAME line, (4) `u` (sometimes at the end of that
    line), `u` / `redo` again, `q`.  The reference: the step of A was closed when A was left, so the first `u` undoes the
    new change only and A's dirty flag is the one it had before the new change.  Between (1) and (4) the observation
    block has no `b` listing (the listing itself closes every buffer's step)."""
    args = list(names)
    sp = Spec(files, args)
    cmds = []
    tagn = [0]

    def push(c):
        cmds.append(c)
        sp.do(c)

    def edits(sim, k):
        out = []
        for _ in range(k):
            n = len(sim.cur().text)
            if n == 0:
                break
            tagn[0] += 1
            a = None if (0 <= sim.row < n and rng.chance(1, 3)) else rng.range(1, n)
            c = ('os', a, '~%d' % tagn[0]) if (n < 2 or rng.chance(4, 5)) else ('od', a)
            out.append(c)
            sim.do1(c)
        return out

    def ways_to(sim, target):
        """every single command that makes buffer `target` (not current) the current one in state sim"""
        b = sim.bufs[target]
        w = []
        if b.path:
            w += [('e', 1, 0, 'lit', b.path), ('e', 1, 1, 'lit', b.path)]
            if sim.wa:
                w.append(('e', 0, 0, 'lit', b.path))
        if len(sim.mru) > 1 and sim.mru[1] == target:
            w += [('e', 1, 0, 'alt', None), ('bd',), ('bd',), ('bd',)]
            if sim.wa:
                w += [('ba', 1), ('e', 0, 0, 'alt', None)]
        if len(sim.mru) > 2 and sim.mru[2] == target and sim.wa:
            w.append(('ba', 2))
        if sim.wa:
            w.append(('bi', target))
            cur = sim.cur().id
            up = [i for i in sim.mru if i > cur]
            dn = [i for i in sim.mru if i < cur]
            if up and min(up) == target:
                w.append(('b+',))
            if dn and max(dn) == target:
                w.append(('b-',))
            if sim.next_pos < len(sim.args):
                for d, c in ((1, ('n',)), (-1, ('p',))):
                    j = sim.next_pos + d
                    if 0 <= j < len(sim.args) and b.path and sim.args[j] == b.path:
                        w += [c, c]
        return w

    def leave_cmd(sim, avoid=None):
        """a command that certainly leaves the current buffer (to a buffer other than `avoid`)"""
        cur = sim.cur()
        cand = []
        for i in sim.mru[1:]:
            if i != avoid:
                cand += ways_to(sim, i)
        cand = [c for c in cand if c[0] != 'bd']
        for nm in names:
            if sim.find(nm) is None:
                cand += [('e', 1, 0, 'lit', nm)] * 2
        return rng.choice(cand) if cand else None

    if rng.chance(1, 2):
        push(('wa', 1))
    order = list(names)
    rng.shuffle(order)
    for nm in order[:rng.range(1, len(order))]:
        push(('e', 1, 0, 'lit', nm))
    for ep in range(rng.range(1, 3)):
        if sp.quit:
            break
        if rng.chance(1, 4):
            push(('wa', int(not sp.wa)))
        a = sp.cur()
        if not a.text or not a.path:
            c = leave_cmd(sp)
            if c is None:
                break
            push(c)
            continue
        push(('obs', 0))
        # (1) change A and leave it on the same line
        sim = copy.deepcopy(sp)
        parts = edits(sim, rng.choice([1, 1, 2]))
        c = leave_cmd(sim)
        if c is None:
            push(('obs', 1))
            break
        parts.append(c)
        sim.do1(c)
        if sim.cur().id == a.id:
            push(('obs', 1))
            continue
        if rng.chance(1, 3):
            parts += edits(sim, 1)
        push(('ln', parts))
        # (2) elsewhere, never through A
        for _ in range(rng.choice([0, 0, 1, 2])):
            t = rng.below(3)
            if t == 0 and sp.cur().text:
                push(edits(copy.deepcopy(sp), 1)[0])
            else:
                sim = copy.deepcopy(sp)
                c = leave_cmd(sim, avoid=a.id)
                if c is not None:
                    sim.do(c)
                    if sim.cur().id != a.id and a.id in sim.bufs:
                        p2 = [c] + (edits(sim, 1) if rng.chance(1, 2) else [])
                        push(p2[0] if len(p2) == 1 else ('ln', p2))
        if a.id not in sp.bufs or sp.cur().id == a.id:
            push(('obs', 1))
            continue
        # (3) back into A, another change on the same line
        pos = sp.mru.index(a.id)
        sim = copy.deepcopy(sp)
        parts = []
        if sim.cur().text and rng.chance(1, 4):
            parts += edits(sim, 1)                      # a change of the buffer that is left (or deleted) by this line
        if 1 <= pos <= 3 and rng.chance(1, 2 if pos == 1 else 3):
            # delete the current buffer until A moves up; the deletions are lines of their own or parts of the last line
            k = pos
            while k > 1 and rng.chance(1, 2):
                push(('bd',))
                k -= 1
            sim = copy.deepcopy(sp)
            parts = edits(sim, 1) if (parts and sim.cur().text) else []
            for _ in range(k):
                parts.append(('bd',))
                sim.do1(('bd',))
        else:
            w = ways_to(sim, a.id)
            if not w:
                push(('obs', 1))
                continue
            c = rng.choice(w)
            parts.append(c)
            sim.do1(c)
        if sim.cur().id != a.id:
            push(('obs', 1))
            continue
        parts += edits(sim, rng.choice([1, 1, 2]))
        inline_u = rng.chance(1, 4)
        if inline_u:
            parts.append(('ou',))
        push(('ln', parts))
        # (4) undo / redo, the dirty flags, quit
        if not inline_u:
            push(('ou',))
        t = rng.below(6)
        if t == 0:
            push(('ou',))
        elif t == 1:
            push(('or',))
        elif t == 2:
            push(('ou',))
            push(('ou',))
        push(('obs', 1))
        if rng.chance(1, 3):
            push(('q', 0))
        if rng.chance(1, 4):
            push(('or',))
    if not sp.quit:
        push(('wa', 1))
        for i in sorted(sp.mru):
            push(('bi', i))
        push(('wa', 0))
        push(('q', 0))
    return args, cmds


def gen_quit16(rng, names, files):
    """Exactly 16 buffers, exactly one of them dirty, sitting at a chosen most-recently-used position (half of the time the
    last slot, 15): `q` must refuse and switch to it (the walk of ec_quit covers all 16 slots); after `u` it quits."""
    args = list(names)
    sp = Spec(files, args)
    cmds = []

    def push(c):
        cmds.append(c)
        sp.do(c)

    push(('wa', 1))
    order = list(names)
    rng.shuffle(order)
    for nm in order:
        push(('e', rng.below(2), 0, 'lit', nm))
    ids = list(sp.mru)
    d = rng.choice(ids)
    pos = len(ids) - 1 if rng.chance(1, 2) else rng.below(len(ids))
    push(('bi', d))
    push(('oa', None, ['dirty+%d' % d]))
    others = [i for i in ids if i != d]
    rng.shuffle(others)
    for o in others[:pos]:
        push(rng.choice([('bi', o), ('e', 1, 0, 'lit', sp.bufs[o].path)]))
    push(('wa', 0))
    push(('q', 0))
    push(('ou',))
    if rng.chance(1, 2):
        push(('b-',) if rng.chance(1, 2) else ('b+',))
    push(('q', 0))
    return args, cmds


# ---------------------------------------------------------------------------------------------
# vi-mode programs for the shortcuts: ^^ (e #), zj/zk (b +/-), zJ/zK (next/prev), zD (b !)


def vi_case(rng, idx):
    """Three or four files of 6 lines x 12 columns.  In every buffer the cursor is parked at a
    distinct (row, column); after a tour through the shortcuts a marker is inserted at the
    cursor of each buffer and everything is written.  The expected files follow from the
    property: each buffer keeps its own row and offset."""
    nf = rng.choice([3, 3, 4])
    names = ['v%d' % (i + 1) for i in range(nf)]
    files = {nm: ['%s_%02d_abcdefgh' % (nm, j) for j in range(40)] for nm in names}
    top = {}
    keys = []
    pos = {}
    # open and park: file k via :next (zJ) so that the argument list position moves along
    order = list(range(nf))
    cur = 0
    for k in order:
        if k > 0:
            keys.append('zJ')
            cur = k
        r, d, c = rng.range(3, 15), rng.range(0, 5), rng.range(1, 12)
        keys.append('%dGz\n' % r + ('%dj' % d if d else '') + '%d|' % c)      # window top = row r, cursor d lines below
        pos[names[k]] = (r - 1 + d, c - 1)
        top[names[k]] = r - 1
    # ids are 1..nf in opening order; MRU list: last opened first
    mru = list(reversed(order))
    mark = 0
    expect = {nm: list(files[nm]) for nm in names}
    deleted = set()
    steps = rng.range(4, 10)
    argpos = nf - 1
    for s in range(steps):
        t = rng.below(12)
        live = [k for k in mru]
        curk = mru[0]
        if t < 3 and len(mru) > 1:
            keys.append('\x1e')                 # ^^ = e #
            mru.insert(0, mru.pop(1))
        elif t < 5:
            up = [k for k in live if k > curk]
            keys.append('zj')
            if up:
                k = min(up)
                mru.remove(k); mru.insert(0, k)
        elif t < 7:
            dn = [k for k in live if k < curk]
            keys.append('zk')
            if dn:
                k = max(dn)
                mru.remove(k); mru.insert(0, k)
        elif t < 8:
            keys.append('zK')
            if argpos - 1 >= 0 and (argpos - 1) in live:
                argpos -= 1
                k = argpos
                mru.remove(k); mru.insert(0, k)
            elif argpos - 1 >= 0:
                return None                     # would re-open a deleted file: keep the programs simple
        elif t < 9:
            keys.append('zJ')
            if argpos + 1 < nf and (argpos + 1) in live:
                argpos += 1
                k = argpos
                mru.remove(k); mru.insert(0, k)
            elif argpos + 1 < nf:
                return None
        elif t < 10 and len(mru) > 2 and not deleted:
            keys.append('zD')                   # b ! : delete the current buffer (it is clean here)
            deleted.add(mru.pop(0))
        else:
            # mark the cursor position of the current buffer, write it (so that it is clean again)
            mark += 1
            nm = names[mru[0]]
            r, c = pos[nm]
            tag = 'M%d' % mark
            keys.append('i%s\x1b:w\n' % tag)
            ln = expect[nm][r]
            expect[nm][r] = ln[:c] + tag + ln[c:]
            pos[nm] = (r, c + len(tag) - 1)
    # final: visit every live buffer by id, mark, write
    for k in sorted(mru):
        keys.append(':b %d\n' % (k + 1))
        mark += 1
        nm = names[k]
        r, c = pos[nm]
        tag = 'F%d' % mark
        keys.append('i%s\x1b:w\n' % tag)
        ln = expect[nm][r]
        expect[nm][r] = ln[:c] + tag + ln[c:]
        # H goes to the first line of the window: a marker there shows the restored xtop
        keys.append('HiT%d\x1b:w\n' % mark)
        expect[nm][top[nm]] = 'T%d' % mark + expect[nm][top[nm]]
    keys.append(':q!\n:q!\n')
    return names, files, ''.join(keys), expect


def vi_undo_case(rng):
    """vi mode, `:` command lines joined by `|` that leave a buffer in mid-line, then vi's `u`: the undo history of each
    buffer is its own (repo commit 75e4c2f) -- only the change of the last line is undone, whether the buffer is reached
    again by `:e! name` or by `:b !` (deleting the buffer in between)."""
    nf = rng.choice([2, 3])
    names = ['v%d' % (i + 1) for i in range(nf)]
    files = {nm: ['%s_%02d_abcdefgh' % (nm, j) for j in range(12)] for nm in names}
    expect = {nm: list(files[nm]) for nm in names}
    r1, r2 = rng.range(1, 12), rng.range(1, 12)
    other = rng.choice(names[1:])
    keys = [':%ds/^/A/|e! %s\n' % (r1, other)]
    if rng.chance(1, 2):
        r3 = rng.range(1, 12)
        keys.append(':%ds/^/C/|w\n' % r3)                 # a change of the other buffer, written
        expect[other][r3 - 1] = 'C' + expect[other][r3 - 1]
    if rng.chance(1, 2):
        keys.append(':e! %s|%ds/^/B/\n' % (names[0], r2))
    else:
        # back by deleting the current buffer: the only way into a buffer that does not go through bufs_switch
        keys.append(':b !|%ds/^/B/\n' % r2)
    keys.append('u')
    expect[names[0]][r1 - 1] = 'A' + expect[names[0]][r1 - 1]
    if rng.chance(1, 2):
        keys.append('u')                                    # a second u undoes the first line's change as well
        expect[names[0]][r1 - 1] = files[names[0]][r1 - 1]
    keys.append(':w\n:q!\n:q!\n')
    return names, files, ''.join(keys), expect


def run_vi_case(exe, case, timeout=20):
    names, files, keys, expect = case
    fbytes = {k: ''.join(l + '\n' for l in v).encode() for k, v in files.items()}
    r = vlib.run_vi(exe, keys.encode('latin-1'), files=fbytes, args=names, readback=names, timeout=timeout)
    if r.timed_out:
        r = vlib.run_vi(exe, keys.encode('latin-1'), files=fbytes, args=names, readback=names, timeout=3 * timeout)
    bad = None
    if r.timed_out:
        bad = ('the editor did not terminate', None, None)
    else:
        for nm in names:
            want = ''.join(l + '\n' for l in expect[nm]).encode()
            if r.files.get(nm) != want:
                bad = ('file %s after the tour through the vi shortcuts: a marker typed at the cursor of each buffer shows its restored row/offset' % nm,
                       want.decode('latin-1'), None if r.files.get(nm) is None else r.files[nm].decode('latin-1'))
                break
    return bad


# ---------------------------------------------------------------------------------------------


def model_request(files, args, xcmds):
    toks = ['H', str(len(files))]
    for k in sorted(files):
        toks += [k.encode().hex(), ','.join(hx(l) for l in files[k]) or '-']
    toks.append(str(len(args)))
    toks += [a.encode().hex() for a in args]
    toks.append(str(len(xcmds)))
    toks += [cmd_token(c) for c in xcmds]
    return ' '.join(toks)


def parse_model_answer(line, n):
    """`ev|ev ev ...;FS name=lines ...` -> (list of event lists, fs dict)"""
    head, _, tail = line.partition(';')
    evs = []
    for w in head.split(' '):
        if w == '':
            continue
        evs.append([e for e in w.split('|') if e != '.'])
    fs = {}
    for w in tail.split(' '):
        if '=' in w:
            k, _, v = w.partition('=')
            fs[fskey(bytes.fromhex(k).decode())] = [] if v == '-' else [('' if x == '-' else bytes.fromhex(x).decode('latin-1')) for x in v.split(',')]
    return evs, fs


def load_corpus():
    d = os.path.join(vlib.VERIF, 'corpus')
    out = []
    if os.path.isdir(d):
        for fn in sorted(os.listdir(d)):
            if fn.startswith('C20-') and fn.endswith('.json'):
                j = json.load(open(os.path.join(d, fn)))
                out.append((fn, j))
    return out


def tup(c):
    return tuple(tuple(x) if isinstance(x, list) and c[0] != 'oa' else x for x in c)


def hist_from_json(j):
    files = {k: list(v) for k, v in j['files'].items()}
    cmds = []
    for c in j['cmds']:
        c = list(c)
        if c[0] == 'oa':
            cmds.append(('oa', c[1], list(c[2])))
        elif c[0] == 'ln':
            cmds.append(('ln', [tuple(x) for x in c[1]]))
        else:
            cmds.append(tuple(c))
    return files, list(j['args']), cmds


def undo_corollary():
    """coq/BufsUndo.v instantiates the abstract line-buffer payload of the C20 theorems with the edit-log model of C04
    (coq/UndoDefs.v, another group's file) and proves `switching_keeps_undo_stacks`.  It is compiled and its assumptions are
    printed here; the outcome is recorded in the evidence but is not one of the obligations of Properties_C20.v."""
    info = {'file': 'coq/BufsUndo.v', 'theorem': 'switching_keeps_undo_stacks', 'compiled': False, 'print_assumptions': None, 'forbidden_tokens': None}
    try:
        ok, log = vlib.coq_make(['BufsUndo.vo'])
        info['compiled'] = bool(ok)
        if not ok:
            info['log'] = log[-800:]
            return info
        src = vlib.strip_comments(open(os.path.join(vlib.COQ, 'BufsUndo.v')).read())
        info['forbidden_tokens'] = [m.group(0) for m in vlib.FORBIDDEN.finditer(src)]
        d = os.path.join(vlib.tmpdir(), 'assum_C20_undo')
        os.makedirs(d, exist_ok=True)
        fn = os.path.join(d, 'AssumUndo.v')
        with open(fn, 'w') as f:
            f.write('From NV Require Import BufsUndo.\nPrint Assumptions switching_keeps_undo_stacks.\n'
                    'Print Assumptions undo_step_laws.\nPrint Assumptions undo_no_open_step_in_background.\nPrint Assumptions ulb_one_undo.\n')
        r = vlib.sh(['coqc', '-Q', vlib.COQ, 'NV', fn], cwd=d, timeout=600)
        info['also'] = ['undo_step_laws', 'undo_no_open_step_in_background', 'ulb_one_undo']
        info['print_assumptions'] = [l for l in r.stdout.split('\n') if l.strip()][-12:]
    except Exception as e:
        info['error'] = str(e)
    return info


def bump_corollary():
    """coq/TrBufsLbuf.v discharges the hypothesis `bump_call` of C20_tr_bufs_switch (the lbuf_modified(bufs[0].lb) of bufs_switch,
    repo commit 75e4c2f) with the theorem about the translated lbuf_modified of coq/TrLbuf.v (another group's file: C02).  It is
    compiled and its assumptions are printed here; recorded in the evidence, not an obligation of Properties_C20.v (a change of
    lbuf.c must not raise a C20 alarm)."""
    info = {'file': 'coq/TrBufsLbuf.v', 'theorem': 'tr_bufs_switch_bump', 'compiled': False, 'print_assumptions': None, 'forbidden_tokens': None}
    try:
        ok, log = vlib.coq_make(['TrBufsLbuf.vo'])
        info['compiled'] = bool(ok)
        if not ok:
            info['log'] = log[-800:]
            return info
        src = vlib.strip_comments(open(os.path.join(vlib.COQ, 'TrBufsLbuf.v')).read())
        info['forbidden_tokens'] = [m.group(0) for m in vlib.FORBIDDEN.finditer(src)]
        d = os.path.join(vlib.tmpdir(), 'assum_C20_bump')
        os.makedirs(d, exist_ok=True)
        fn = os.path.join(d, 'AssumBump.v')
        with open(fn, 'w') as f:
            f.write('From NV Require Import TrBufsLbuf.\nPrint Assumptions tr_bufs_switch_bump.\n')
        r = vlib.sh(['coqc', '-Q', vlib.COQ, 'NV', fn], cwd=d, timeout=600)
        info['print_assumptions'] = [l for l in r.stdout.split('\n') if l.strip()][-6:]
    except Exception as e:
        info['error'] = str(e)
    return info


def run(ctx):
    res = ctx.res
    rng = ctx.rng
    exe = vlib.build_vi(asan=False)
    model = ctx.model('bufs')
    res.rule = ('one evaluation = one history (sequence of open/switch/edit/undo/write/delete-buffer/quit commands over 2..16 files) run through '
                'the real `vi -s -e`, observed after EVERY command line (single commands and `c1|c2|..` lines that switch buffers in mid-line; =, %p, current line, :b listing) and compared with the reference map '
                'id -> (path, text, line, dirty, undo stack) + MRU list, plus the files on disk at the end (styles unnamed / spell: sessions without a file argument whose buffer is named by `:w ./n`, path spellings ./n .//n sub/../n in :e :ew :w and the argument list); or one vi-mode key program for the shortcuts. '
                'style reenter: a buffer is changed and left within one command line, reached again by e / e # / b N / b + / b - / b # / next / prev / b ! (deleting the current buffer) with another change on the same line, then u / redo / q -- the b listing (which ends every buffer\'s undo step) is observed only after the u. '
                'non-trivial = the history switches buffers at least 3 times and edits at least 2 different buffers (style reenter: at least 3 switches and two |-joined lines); distinct = distinct command list')
    hists = []      # (tag, files, args, cmds)
    if ctx.replay:
        rp = json.load(open(ctx.replay))
        inp = rp.get('input')
        if isinstance(inp, dict) and 'cmds' in inp:
            files, args, cmds = hist_from_json(inp)
            hists.append(('replay', files, args, cmds))
        elif isinstance(inp, dict) and 'keys' in inp:
            hists = []
    else:
        for fn, j in load_corpus():
            if 'cmds' in j:
                files, args, cmds = hist_from_json(j)
                hists.append(('corpus:' + fn, files, args, cmds))
        nh = 600 if ctx.quick else 12000
        for i in range(nh):
            r = rng.fork('h%d' % i)
            style = ['mixed', 'mixed', 'wa', 'full16', 'few'][i % 5]
            if i % 10 == 9:
                style = 'quit16'
            if style in ('full16', 'quit16'):
                nf = 16
            elif style == 'few':
                nf = r.range(2, 3)
            else:
                nf = r.choice([2, 3, 4, 5, 8, 15, 16])
            names, files = gen_files(r, nf, missing=r.choice([0, 0, 1]))
            if style == 'quit16':
                args, cmds = gen_quit16(r, names, files)
                hists.append((style, files, args, cmds))
                continue
            args, cmds = gen_history(r, names, files, r.choice([12, 25, 40]) if ctx.quick else r.choice([12, 25, 40, 80]), style)
            hists.append((style, files, args, cmds))
        # path spellings: buffers named by `:w ./name` in a session started without a file ('unnamed'), `./name`, `.//name`,
        # `sub/../name` as arguments of :e / :ew / :w and in the argument list ('spell')
        for i in range(240 if ctx.quick else 4000):
            r = rng.fork('s%d' % i)
            style = 'unnamed' if i % 3 != 2 else 'spell'
            bases, files, pool, groups, args = gen_spell_files(r, style)
            args, cmds = gen_history(r, pool, files, r.choice([10, 20, 30]), style, args=args, groups=groups)
            hists.append((style, files, args, cmds))

        # undo steps across switches: change + leave on one line, come back every way there is (incl. `b !`) + change on one line, u, q
        for i in range(300 if ctx.quick else 6000):
            r = rng.fork('r%d' % i)
            names, files = gen_reenter_files(r)
            args, cmds = gen_reenter(r, names, files)
            hists.append(('reenter', files, args, cmds))

    def one(h):
        tag, files, args, cmds = h
        xcmds, pred, sp, got, r = run_history(exe, files, args, cmds)
        return xcmds, pred, sp, got, r

    outs = vlib.pmap(one, hists)
    # model: one request per history
    mans = None
    if model and hists:
        reqs = [model_request(h[1], h[2], o[0]) for h, o in zip(hists, outs)]
        try:
            rc, lines, err = vlib.run_lines(model, reqs, timeout=900)
            if rc != 0 or len(lines) != len(reqs):
                res.disagree({'what': 'model driver failed: rc=%s, %d answers for %d requests' % (rc, len(lines), len(reqs)), 'stderr': err[-500:]})
            else:
                mans = lines
        except Exception as e:
            res.disagree({'what': 'model driver: %s' % e})

    def as_json(files, args, cmds):
        return {'files': files, 'args': args, 'cmds': [list(c) for c in cmds],
                'script': script_of(expand(files, args, cmds)[0]).decode('latin-1'),
                'replay_cmd': 'vi -s -e %s < script   (files as listed%s)' % (' '.join(args), '; an empty directory %s/ exists' % SUBDIR if (SUBDIR + '/') in json.dumps([list(c) for c in cmds] + list(args)) else '')}

    for hi, (h, o) in enumerate(zip(hists, outs)):
        tag, files, args, cmds = h
        xcmds, pred, sp, got, r = o
        res.evaluations += 1
        res.count('style ' + tag.split(':')[0])
        res.count('files %d' % len(args))
        for c in cmds:
            res.count('cmd ' + c[0])
        flat = [x for c in cmds for x in (c[1] if c[0] == 'ln' else [c])]
        nsw = sum(1 for c in flat if c[0] in ('e', 'bi', 'b+', 'b-', 'ba', 'n', 'p', 'q', 'bd'))
        if any(c[0] == 'ln' for c in cmds):
            res.count('histories with |-joined command lines (mid-line buffer switch)')
        if nsw >= 3 and len(set(l.split('+')[0] for c in cmds if c[0] == 'oa' for l in c[2][:1])) >= 2:
            res.nontriv(json.dumps([list(c) for c in cmds]))
        elif tag == 'reenter' and nsw >= 3 and sum(1 for c in cmds if c[0] == 'ln') >= 2:
            res.nontriv(json.dumps([list(c) for c in cmds]))
        if tag == 'reenter':
            inside = False
            for c in cmds:
                if c[0] == 'obs':
                    inside = not c[1]
                elif inside and c[0] == 'ln' and c[1][-1][0] in ('os', 'od', 'ou'):
                    sw = [x for x in c[1] if x[0] not in ('os', 'od', 'ou', 'or')]
                    if sw:
                        res.count('reenter: back by ' + ' '.join(cmd_text(sw[-1]).split()[:1] + (['#'] if sw[-1][0] == 'e' and sw[-1][3] == 'alt' else []) + (['!'] if sw[-1][0] == 'bd' else [])))
        if sp.evicted:
            res.count('histories with a 17th buffer (outside the quantifier, not judged)')
            continue
        bad = compare(xcmds, pred, sp, got, r)
        if bad:
            # confirm, then shrink the command list
            def fails(sub):
                x2 = run_history(exe, files, args, sub)
                if x2[2].evicted or x2[2].time_dependent:
                    return False
                return compare(*x2) is not None
            if fails(cmds):
                small = vlib.shrink(cmds, fails, max_steps=150)
                x2 = run_history(exe, files, args, small)
                b2 = compare(*x2) or bad
                res.violation({'what': b2[1], 'input': as_json(files, args, small), 'expected': b2[2], 'observed': b2[3]})
            else:
                res.count('unreproduced difference (ignored)')
        if mans is not None:
            mev, mfs = parse_model_answer(mans[hi], len(xcmds))
            if len(mev) != len(xcmds):
                res.disagree({'what': 'model answered %d commands of %d' % (len(mev), len(xcmds)), 'input': as_json(files, args, cmds)})
            else:
                for k in range(len(xcmds)):
                    if got[k] is not None and got[k] != mev[k]:
                        res.disagree({'what': 'model and implementation differ: ' + describe(xcmds, k), 'input': as_json(files, args, cmds),
                                      'implementation': got[k], 'model': mev[k]})
                        break
                else:
                    for name, lines in mfs.items():
                        want = ''.join(l + '\n' for l in lines).encode()
                        if name in r.files and r.files.get(name) != want:
                            res.disagree({'what': 'model and implementation differ: file %r at the end' % name, 'input': as_json(files, args, cmds),
                                          'implementation': (r.files.get(name) or b'').decode('latin-1'), 'model': want.decode('latin-1')})
                            break
        if hi % 61 == 0:
            res.sample({'files': len(args), 'commands': [cmd_text(c).strip() for c in cmds][:30]})

    # vi-mode shortcut programs
    vcases = []
    if ctx.replay:
        rp = json.load(open(ctx.replay))
        inp = rp.get('input')
        if isinstance(inp, dict) and 'keys' in inp:
            vcases.append((inp['names'], inp['files'], inp['keys'], inp['expect']))
    else:
        for fn, j in load_corpus():
            if 'keys' in j:
                vcases.append((j['names'], j['files'], j['keys'], j['expect']))
        i = 0
        want = 150 if ctx.quick else 3000
        while len(vcases) < want and i < want * 3:
            c = vi_case(rng.fork('v%d' % i), i)
            i += 1
            if c:
                vcases.append(c)
        for k in range(12 if ctx.quick else 200):
            vcases.append(vi_undo_case(rng.fork('vu%d' % k)))
    vout = vlib.pmap(lambda c: run_vi_case(exe, c), vcases)
    for c, bad in zip(vcases, vout):
        res.evaluations += 1
        res.count('vi-mode shortcut programs')
        res.nontriv('vi:' + c[2])
        if bad:
            if run_vi_case(exe, c):
                res.violation({'what': bad[0], 'input': {'names': c[0], 'files': c[1], 'keys': c[2], 'expect': c[3],
                                                          'replay_cmd': 'vi -v %s < keys (LINES=24 COLUMNS=80)' % ' '.join(c[0])},
                               'expected': bad[1], 'observed': bad[2]})
    res.extra['model_compared'] = mans is not None
    if not ctx.replay:
        res.extra['undo_stack_corollary'] = undo_corollary()
        res.extra['bump_corollary'] = bump_corollary()
