"""C12 -- the literal-pattern fast path (rstr.c) is indistinguishable from the general regex engine.

Correspondence: harness/probe_rstr.c (rstr_make/rstr_find of /repo, plain and ASan) versus the
extracted Coq model of rstr_simple/rstr_find (coq/RstrDefs.v): which path a pattern takes, the
offsets, the groups.
Oracle (the property itself on the implementation's answers): for every pattern that takes the
fast path, rstr_find's answer equals rset_find's answer on the singleton set (the general engine
of regex.c) for the same line and flags, groups 1.. are -1; a pattern that contains an operator
of the engine (judged here in Python from regex.c's own metacharacter string) never takes the
fast path.  Exhaustive over the 16 anchor combinations x literals of <= 2 (quick) / 3 (thorough)
characters x lines of <= 4 / 5 characters over {a A _ - space e-acute} x ICASE x NOTBOL x NOTEOL,
plus random longer lines, patterns with operators, and a malformed (invalid UTF-8) stream that
is compared model-vs-code only.  Engine answers obtained with a non-zero depth-cut counter are
discarded.
"""
import json, os, glob
import vlib

GROUP = 'rstr'
TRUSTED = ["the Python judgement 'pattern contains an engine operator' (strip one leading ^, \\<, one trailing $, \\>; any byte of regex.c's metacharacter string left)"]

ALPHA = [b'a', b'A', b'_', b'-', b' ', b'\xc3\xa9']
ALPHA_SPEC = ','.join(a.hex() for a in ALPHA)
ENGINE_META = b'.^$[(|)*?+{\\'        # cross-checked against the generated re_meta below
B36 = '0123456789abcdefghijklmnopqrstuvwxyz'


def hx(b):
    return vlib.hx(b)


def has_operator(p):
    q = p
    if q.startswith(b'^'):
        q = q[1:]
    if q.startswith(b'\\<'):
        q = q[2:]
    if q.endswith(b'$'):
        q = q[:-1]
    if q.endswith(b'\\>'):
        q = q[:-2]
    return any(c in ENGINE_META for c in q)


def anchors(p):
    """(lbeg, wbeg, wend, lend) of a pattern without operators"""
    lbeg = p.startswith(b'^')
    q = p[1:] if lbeg else p
    wbeg = q.startswith(b'\\<')
    lend = q.endswith(b'$')
    q = q[:-1] if lend else q
    wend = q.endswith(b'\\>')
    return lbeg, wbeg, wend, lend


def mkpat(k, lit):
    return (b'^' if k & 1 else b'') + (b'\\<' if k & 2 else b'') + lit + (b'\\>' if k & 4 else b'') + (b'$' if k & 8 else b'')


def words_of(n, alpha):
    out = [[]]
    res = [b'']
    for _ in range(n):
        out = [o + [a] for o in out for a in alpha]
        res += [b''.join(o) for o in out]
    return res


def sweep_cases(maxlen):
    """the enumeration order of probe_rstr.c / drv_rstr.ml: (icase, notbol, noteol, line)"""
    lines = []
    for n in range(maxlen + 1):
        cur = [b'']
        for _ in range(n):
            cur = [c + a for c in cur for a in ALPHA]
        lines += cur
    cases = []
    for ic in (0, 1):
        for fl in range(4):
            for l in lines:
                cases.append((ic | (fl << 1), l + b'\n'))
    return cases


def parse_kv(line):
    d = {}
    for part in line.split(' '):
        k, _, v = part.partition('=')
        d[k] = v
    return d


def parse_res(v):
    """'0:so,eo:..' -> (so, eo, [groups...]) ; '-1' -> None"""
    if v in ('-1', 'x', 'na', 'oob', ''):
        return None if v == '-1' else v
    parts = v.split(':')[1:]
    g = [tuple(int(x) for x in p.split(',')) for p in parts]
    return g


def run(ctx):
    res = ctx.res
    rng = ctx.rng
    probe = vlib.build_probe('rstr', includes=['rstr'])
    probe_asan = vlib.build_probe('rstr', includes=['rstr'], asan=True)
    model = ctx.model('rstr')
    maxlit, maxline = (2, 4) if ctx.quick else (3, 5)
    res.rule = ('one evaluation = one (pattern, line, flags) triple answered by rstr_find and by rset_find on the singleton set; '
                'exhaustive: 16 anchor combinations x literals of <= %d characters x lines of <= %d characters over {a A _ - space U+00E9} '
                'x ICASE x NOTBOL x NOTEOL; random longer cases; operator patterns (path check). '
                'non-trivial = a (pattern, flags) row of the sweep in which both found and not-found occur, or a found single case; distinct = distinct pattern/flags/line'
                % (maxlit, maxline))
    # the engine's operator string as generated from regex.c must be the one this module judges with
    gen = open(os.path.join(vlib.COQ, 'GenConsts.v')).read()
    import re as _re
    m = _re.search(r'Definition re_meta : list N := \[([0-9; ]*)\]', gen)
    if not m or sorted(int(x) for x in m.group(1).split(';')) != sorted(ENGINE_META):
        res.broken_ties.append("regex.c's metacharacter string changed: %s; the Python operator judgement of c12.py must follow" % (m.group(1) if m else '?'))

    def report(pat, line, flags, fast, eng, what):
        res.violation({'what': what, 'input': ['f %s %s %d' % (hx(pat), hx(line), flags)],
                       'pattern': pat.decode('utf-8', 'replace'), 'line': line.decode('utf-8', 'replace'), 'flags': flags,
                       'expected': 'general engine: %s' % (eng,), 'observed': 'fast path: %s' % (fast,)})

    # ------------------------------------------------------------------ single requests
    singles = []        # (pat, line, flags, kind)
    fn_reqs = []        # (pat, line, flags, n): the same question with group count n instead of 3
    if ctx.replay:
        rp = json.load(open(ctx.replay))
        for r in rp.get('input', []):
            w = r.split()
            if len(w) == 4 and w[0] == 'f':
                singles.append((vlib.unhx(w[1]), vlib.unhx(w[2]), int(w[3]), 'replay'))
            if len(w) == 5 and w[0] == 'fn':
                fn_reqs.append((vlib.unhx(w[1]), vlib.unhx(w[2]), int(w[3]), int(w[4])))
    else:
        for fn in sorted(glob.glob(os.path.join(vlib.VERIF, 'corpus', 'C12-*.json'))):
            for r in json.load(open(fn)).get('requests', []):
                w = r.split()
                singles.append((vlib.unhx(w[1]), vlib.unhx(w[2]), int(w[3]), 'corpus'))
        long_alpha = [b'a', b'A', b'b', b'_', b'-', b' ', b'\xc3\xa9', b'\xc3\x89', b'\xe2\x82\xac', b'0', b'z', b'Z', b'\t', b'.']
        lit_alpha = [b'a', b'A', b'b', b'_', b'-', b' ', b'\xc3\xa9', b'\xe2\x82\xac', b'0', b'z', b'Z', b']', b'}', b'<', b'>', b'/', b'~']
        nrand = 3000 if ctx.quick else 40000
        for i in range(nrand):
            llen = rng.choice([1, 2, 3, 5, 8, 13, 30])
            lit = b''.join(rng.choice(lit_alpha) for _ in range(rng.choice([0, 1, 1, 2, 3, 4, 6])))
            k = rng.below(16)
            pat = mkpat(k, lit)
            t = rng.below(4)
            if t == 0 or not lit:
                line = b''.join(rng.choice(long_alpha) for _ in range(llen))
            else:                       # plant the literal (possibly with a case flip) so that matches are common
                pre = b''.join(rng.choice(long_alpha) for _ in range(rng.below(llen)))
                post = b''.join(rng.choice(long_alpha) for _ in range(rng.below(llen)))
                mid = lit.swapcase() if rng.chance(1, 3) else lit
                line = pre + mid + post if rng.chance(3, 4) else mid + post if rng.chance(1, 2) else pre + mid
            singles.append((pat, line + b'\n', rng.below(8), 'random simple'))
        # bytes at the edges of isword()'s classes (isalnum, '_', > 127) next to \< and \>: the case split of
        # TrRstr.tr_rstr_isword / RstrDefs.isword
        edge = [b'/', b'0', b'9', b':', b'@', b'A', b'Z', b'[', b'^', b'_', b'`', b'a', b'z', b'{', b'~', b'\x7f', b'\xc2\x80', b' ']
        for i in range(800 if ctx.quick else 8000):
            lit = b''.join(rng.choice([b'a', b'0', b'_', b'Z', b'-', b'\x7f']) for _ in range(rng.choice([0, 0, 1, 2])))
            k = rng.choice([4, 8, 12, 5, 9, 13, 6, 10, 14])        # at least one of \< \>
            line = b''.join(rng.choice(edge) for _ in range(rng.choice([1, 2, 3, 4])))
            if lit and rng.chance(1, 2):
                j = rng.below(len(line) + 1)
                line = line[:j] + lit + line[j:]
            try:
                line.decode('utf-8')
            except UnicodeDecodeError:
                continue
            singles.append((mkpat(k, lit), line + b'\n', rng.below(8), 'word-class edges'))
        # group counts 0..3 (the sweep and the other requests always pass 3)
        for (p_, l_, f_, k_) in singles[:(700 if ctx.quick else 7000)]:
            if k_ in ('corpus', 'random simple'):
                for n_ in (0, 1, 2):
                    fn_reqs.append((p_, l_, f_, n_))
        # patterns with operators: must never take the fast path
        ops = [b'.', b'*', b'+', b'?', b'[a]', b'[', b'{2}', b'{', b'(a)', b'(', b')', b'|', b'^', b'$', b'\\', b'\\.', b'\\<', b'\\>', b'\\$', b'\\^', b'\\\\', b'a|b', b'a^b']
        nops = 1500 if ctx.quick else 15000
        for i in range(nops):
            parts = [rng.choice(lit_alpha[:11]) for _ in range(rng.below(4))]
            pos = rng.below(len(parts) + 1)
            parts.insert(pos, rng.choice(ops))
            if rng.chance(1, 4):
                parts.insert(rng.below(len(parts) + 1), rng.choice(ops))
            pat = mkpat(rng.below(16), b''.join(parts))
            if b'(a*)*' in pat:
                continue
            line = b''.join(rng.choice(long_alpha) for _ in range(rng.choice([0, 1, 3, 6]))) + b'\n'
            singles.append((pat, line, rng.below(8), 'operator'))
        # malformed stream: stray continuation bytes and truncated sequences (model vs code only)
        bad = [b'\xa9', b'\xc3', b'\xe2\x82', b'\xff', b'a', b' ', b'\xc3\xa9']
        for i in range(400 if ctx.quick else 4000):
            lit = b''.join(rng.choice(bad) for _ in range(rng.range(1, 3)))
            line = b''.join(rng.choice(bad) for _ in range(rng.range(0, 5))) + b'\n'
            singles.append((mkpat(rng.below(16), lit), line, rng.below(8), 'malformed'))
    reqs = ['f %s %s %d' % (hx(p), hx(l), f) for p, l, f, _ in singles]

    def run_probe(exe, lines, what):
        if not lines:
            return []
        rc, out, err = vlib.run_lines(exe, lines, timeout=1500)
        if rc != 0 or len(out) != len(lines):
            # find the request on which the process died
            bad_in = lines[len(out):len(out) + 1] if len(out) < len(lines) else lines[:3]
            res.violation({'what': '%s exited with status %d after %d of %d requests (sanitizer report or crash)' % (what, rc, len(out), len(lines)),
                           'stderr': err[-3000:], 'input': bad_in})
        return out

    out_c = run_probe(probe, reqs, 'probe_rstr')
    out_a = run_probe(probe_asan, reqs, 'probe_rstr (ASan/UBSan)')
    if out_c != out_a and len(out_c) == len(out_a):
        for r, a, b in zip(reqs, out_c, out_a):
            if a != b:
                res.violation({'what': 'plain and sanitized builds answer differently (undefined behaviour)', 'input': [r], 'plain': a, 'asan': b})
                break
    out_m = None
    if model and reqs:
        rc, out_m, err = vlib.run_lines(model, reqs, timeout=1500)
        if rc != 0 or len(out_m) != len(reqs):
            res.disagree({'what': 'model driver: rc=%d, %d answers for %d requests' % (rc, len(out_m), len(reqs)), 'stderr': err[-1000:]})
            out_m = None
    for i, ((pat, line, flags, kind), c) in enumerate(zip(singles, out_c)):
        res.evaluations += 1
        res.count(kind)
        d = parse_kv(c)
        path = d.get('path')
        fast = parse_res(d.get('rstr', ''))
        eng = parse_res(d.get('rset', ''))
        cut = d.get('cut', '0') != '0'
        valid = True
        try:
            pat.decode('utf-8'); line.decode('utf-8')
        except UnicodeDecodeError:
            valid = False
        # correspondence
        if out_m is not None:
            dm = parse_kv(out_m[i])
            if dm.get('path') != path and path != 'x':
                res.disagree({'what': 'which path the pattern takes', 'input': [reqs[i]], 'implementation': c, 'model': out_m[i]})
            elif path == 's':
                mf = parse_res(dm.get('find', ''))
                if mf != fast:
                    res.disagree({'what': 'fast-path answer', 'input': [reqs[i]], 'implementation': c, 'model': out_m[i]})
        # oracle
        if has_operator(pat) and path == 's':
            res.violation({'what': 'a pattern containing a regular-expression operator is treated as a literal',
                           'input': [reqs[i]], 'pattern': pat.decode('utf-8', 'replace'), 'expected': 'general engine', 'observed': c})
        if path == 's' and valid and not cut and eng != 'x':
            f0 = None if fast is None else fast[0]
            e0 = None if eng is None else eng[0]
            if fast is not None:
                res.nontriv(reqs[i])
                if any(g != (-1, -1) for g in fast[1:]):
                    res.violation({'what': 'fast path reports a group other than the whole match as set', 'input': [reqs[i]], 'observed': c,
                                   'expected': 'groups 1.. = -1'})
            if f0 != e0:
                report(pat, line, flags, f0, e0, 'fast path and general engine answer differently')
        elif cut:
            res.count('discarded (depth cut)')
    for s in singles[:600:131]:
        res.sample({'pattern': s[0].decode('utf-8', 'replace'), 'line': s[1].decode('utf-8', 'replace'), 'flags': s[2], 'kind': s[3]})

    # ------------------------------------------------------------------ other group counts
    if fn_reqs:
        SENT = -7
        lines = ['fn %s %s %d %d' % (hx(p_), hx(l_), f_, n_) for p_, l_, f_, n_ in fn_reqs]
        out_n = run_probe(probe_asan, lines, 'probe_rstr (ASan/UBSan), group counts')
        for (p_, l_, f_, n_), req, ans in zip(fn_reqs, lines, out_n):
            res.evaluations += 1
            res.count('group count %d' % n_)
            d = parse_kv(ans)
            if d.get('path') != 's' or d.get('cut', '0') != '0' or d.get('rset', 'x') == 'x':
                continue
            try:
                p_.decode('utf-8'); l_.decode('utf-8')
            except UnicodeDecodeError:
                continue
            def cells(v):
                rc, cs = v.split(':')
                return int(rc), [int(x) for x in cs.split(',')]
            frc, fc = cells(d['rstr'])
            erc, ec = cells(d['rset'])
            what = None
            if frc < 0 and any(c != SENT for c in fc):
                what = 'fast path writes to the group array although nothing was found'
            elif any(c != SENT for c in fc[2 * n_:]):
                what = 'fast path writes beyond the %d groups it was asked for' % n_
            elif (frc, fc) != (erc, ec):
                what = 'fast path and general engine fill the group array differently for group count %d' % n_
            if what:
                res.violation({'what': what, 'input': [req], 'pattern': p_.decode('utf-8', 'replace'), 'line': l_.decode('utf-8', 'replace'),
                               'flags': f_, 'groups': n_, 'expected': 'general engine: rc=%d cells=%s' % (erc, ec),
                               'observed': 'fast path: rc=%d cells=%s' % (frc, fc)})
            elif frc == 0:
                res.nontriv(req)

    # ------------------------------------------------------------------ exhaustive small scope
    if not ctx.replay:
        lits = words_of(maxlit, ALPHA)
        pats = [mkpat(k, lit) for lit in lits for k in range(16)]
        cases = sweep_cases(maxline)
        ncase = len(cases)
        chunks = [pats[i::32] for i in range(32)]

        def sweep(exe, chunk):
            lines = ['sw %s %d %s' % (hx(p), maxline, ALPHA_SPEC) for p in chunk]
            rc, out, err = vlib.run_lines(exe, lines, timeout=3000)
            return rc, out, err

        rc_c = vlib.pmap(lambda ch: sweep(probe, ch), chunks)
        rc_m = vlib.pmap(lambda ch: sweep(model, ch), chunks) if model else None
        # ASan build on a slice of the sweep (every pattern with the shorter lines)
        rc_a = vlib.pmap(lambda ch: vlib.run_lines(probe_asan, ['sw %s %d %s' % (hx(p), maxline - 2, ALPHA_SPEC) for p in ch], timeout=3000), chunks)
        for (rc, out, err), ch in zip(rc_a, chunks):
            if rc != 0 or len(out) != len(ch):
                k = min(len(out), len(ch) - 1)
                res.violation({'what': 'probe_rstr (ASan/UBSan) exited with status %d in the sweep' % rc, 'stderr': err[-3000:],
                               'input': ['sw %s %d %s' % (hx(ch[k]), maxline - 2, ALPHA_SPEC)]})
        for ci, ch in enumerate(chunks):
            rc, out, err = rc_c[ci]
            if rc != 0 or len(out) != len(ch):
                k = min(len(out), len(ch) - 1)
                res.violation({'what': 'probe_rstr exited with status %d in the sweep (crash)' % rc, 'stderr': err[-2000:],
                               'input': ['sw %s %d %s' % (hx(ch[k]), maxline, ALPHA_SPEC)]})
                continue
            mout = None
            if rc_m:
                rcm, mout, merr = rc_m[ci]
                if rcm != 0 or len(mout) != len(ch):
                    res.disagree({'what': 'model driver failed in the sweep: rc=%d' % rcm, 'stderr': merr[-1000:]})
                    mout = None
            for pi, pat in enumerate(ch):
                d = parse_kv(out[pi])
                R, E = d.get('R', ''), d.get('E', '')
                res.evaluations += ncase
                res.count('sweep cases', ncase)
                if d.get('path') != 's':
                    res.disagree({'what': 'a pattern of the form [^][\\<]literal[\\>][$] does not take the fast path (the model says it does)',
                                  'input': ['f %s 0a 0' % hx(pat)], 'implementation': out[pi][:40], 'model': 'path=s'})
                    continue
                if len(R) != 2 * ncase or len(E) != 2 * ncase:
                    res.disagree({'what': 'sweep answer has the wrong length', 'input': ['sw %s' % hx(pat)]})
                    continue
                # rows for the non-triviality count
                per = ncase // 8
                for f in range(8):
                    row = R[2 * per * f:2 * per * (f + 1)]
                    if '--' in row and row.count('-') != len(row):
                        res.nontriv('%s/%d' % (hx(pat), f))
                if mout is not None:
                    dm = parse_kv(mout[pi])
                    Rm = dm.get('R', '')
                    k = None
                    if dm.get('path') != 's' or len(Rm) != len(R):
                        k = 0
                    elif Rm != R:
                        k = next(j for j in range(ncase) if Rm[2 * j:2 * j + 2] != R[2 * j:2 * j + 2])
                    if k is not None:
                        fl, line = cases[k]
                        res.disagree({'what': 'fast-path answer (sweep)', 'input': ['f %s %s %d' % (hx(pat), hx(line), fl)],
                                      'implementation': R[2 * k:2 * k + 2], 'model': Rm[2 * k:2 * k + 2] if Rm else dm.get('path')})
                if R != E:
                    for k in range(ncase):
                        r, e = R[2 * k:2 * k + 2], E[2 * k:2 * k + 2]
                        if r == e:
                            continue
                        if e == '**':
                            res.count('discarded (depth cut)')
                            continue
                        fl, line = cases[k]
                        if r == '!!':
                            res.violation({'what': 'fast path reports a group other than the whole match as set',
                                           'input': ['f %s %s %d' % (hx(pat), hx(line), fl)], 'expected': 'groups 1.. = -1'})
                            continue
                        dec = lambda x: None if x == '--' else (B36.index(x[0]), B36.index(x[1]))
                        report(pat, line, fl, dec(r), dec(e), 'fast path and general engine answer differently')
        res.extra['sweep'] = {'patterns': len(pats), 'cases_per_pattern': ncase, 'max_literal_chars': maxlit, 'max_line_chars': maxline}
