"""C03 -- writes never clobber foreign or newer files; failures surface and stay dirty.

Correspondence = fault enumeration on the real binary under harness/faultshim.c (LD_PRELOAD; open /
write / close of the target interposed, schedule from the environment): every position of the call
sequence the editor actually makes x {error ENOSPC / EIO / EINTR, short count 1, short count n-1}
x buffer sizes (0 bytes, one batch, >= 3 batches, a line written directly) x {:w, :w!, :a,bw, :a,bw!,
:wq, :wq!, :x, :xa, :xa!} x target {own absent / unchanged / newer, foreign absent / existing /
existing with time stamp 0}, versus the extracted model (coq/IoDefs.v: lbuf_save, ec_write, ec_quit).
Observables: message class, whether the command quit, whether a following :q is refused, file bytes.
Oracle (the property, in Python, independent of the model): no clobbering without `!`; success =>
file is exactly the lines; a consumed error => failure reported, no quit, dirty buffer stays dirty;
a forced retry succeeds.
"""
import json, os, shutil, subprocess, time
import vlib

GROUP = 'io'
TRUSTED = ['harness/faultshim.c (LD_PRELOAD interposer: counts and fails open/write/close on the target path only; stat, read, ftruncate healthy)',
           'finite fault schedules: after the listed outcomes every call succeeds; a write(2) returning 0 for ever is excluded',
           'file time stamps are set with utime(2) to whole seconds in the past; `!touch` makes the own file newer']

S1, S2, ALIVE = b'C03qS1zMARK', b'C03qS2zMARK', b'C03qALIVEzMARK'
ERRNOS = {'ENOSPC': 28, 'EIO': 5, 'EINTR': 4}
SIZES = ['empty', 'one', 'multi', 'longline']
CMDS = ['w', 'w!', 'rw', 'rw!', 'wq', 'wq!', 'x', 'xa', 'xa!']
_shim = [None]


def build_shim():
    if _shim[0] is None:
        so = os.path.join(vlib.tmpdir(), 'faultshim.so')
        r = vlib.sh(['cc', '-shared', '-fPIC', '-O1', '-o', so, os.path.join(vlib.VERIF, 'harness', 'faultshim.c'), '-ldl'])
        if r.returncode != 0:
            raise vlib.BuildError('faultshim.c: ' + r.stdout[-1500:])
        _shim[0] = so
    return _shim[0]


def norm(f):
    return f if (not f or f.endswith(b'\n')) else f + b'\n'


def lines_of(f):
    return [l + b'\n' for l in norm(f).split(b'\n')[:-1]]


def base_text(size):
    """(initial own file content, edit script lines, buffer text after the edit)"""
    if size == 'empty':
        return b'only\n', [b'1d'], b''
    if size == 'one':
        c = b'alpha\nbeta \xc3\xa9\xff\ngamma\n'
        return c, [b'2d'], b'alpha\ngamma\n'
    if size == 'multi':
        ls = [(b'%04d' % i) + bytes([97 + i % 26]) * 2095 + b'\n' for i in range(4)]
        return b''.join(ls), [b'1d'], b''.join(ls[1:])
    ls = [b'head\n', b'L' * 4200 + b'\n', b'tail\n', b'x\n']
    return b''.join(ls), [b'4d'], b''.join(ls[:3])


def want_of(case):
    text = case_text(case)
    ls = lines_of(text)
    if case['cmd'].startswith('rw'):
        b, e = case['rng']
        return b''.join(ls[b:e])
    return b''.join(ls)


def case_text(case):
    c0, _, t = base_text(case['size'])
    if case['own'] == 'absent':
        return t if case['dirty'] else b''
    return t if case['dirty'] else c0


def g_c0(k, e):
    """content on disk of the k-th additional buffer (e['n'] lines)"""
    return b''.join(b'g%d line %d\n' % (k, i) for i in range(e['n']))


def g_txt(k, e):
    """its text in the editor: the first line deleted if it is modified"""
    ls = lines_of(g_c0(k, e))
    return b''.join(ls[1:] if e['dirty'] else ls)


PRE_LINES = {'w t': b'w t', 'w! t': b'w! t', 'rw! t': b'1,2w! t', 'pipe': b'w !cat >/dev/null'}
PRE_MODEL = {'w t': 'w@other@-', 'w! t': 'w!@other@-', 'rw! t': 'w!@other@0,2', 'pipe': 'pipe@own@-'}


def script_of(case, retry=False):
    c0, edit, t = base_text(case['size'])
    sc = []
    if case['own'] == 'newer':
        sc.append(b'!touch f')          # before the edit: `!` refuses to run while the buffer is modified
    for k, e in enumerate(case.get('bufs', [])):
        # additional buffers g0, g1, ...: load, make newer on disk / modify; finally come back to f, so that
        # bufs[] = f, g(last), ..., g0
        sc.append(b'e! g%d' % k)
        if e['state'] == 'newer':
            sc.append(b'!touch g%d' % k)
        if e['dirty']:
            sc.append(b'1d')
    if case.get('bufs'):
        sc.append(b'e! f')
    if case['own'] == 'absent':
        # the buffer starts empty; give it the text by reading a helper file
        if case['dirty'] and t:
            sc.append(b'r h')
    elif case['dirty']:
        sc += edit
    tgt = b' t' if case['tgt'] == 'other' else b''
    cmd = case['cmd']
    if cmd == 'wqchain':
        # :wq refuses to quit while another buffer is modified and switches to it: repeat until the editor is gone
        line = b'\n'.join([b'wq'] * (2 + len(case.get('bufs', []))))
    elif cmd.startswith('rw'):
        b, e = case['rng']
        line = b'%d,%dw%s%s' % (b + 1, e, b'!' if cmd.endswith('!') else b'', tgt)
    else:
        line = cmd.encode() + tgt
    for pc in case.get('pre', []):
        sc.append(PRE_LINES[pc])        # earlier writes of the same session (other path, range, filter)
    sc += [b'ec ' + S1, line, b'ec ' + S2, b'q', b'ec ' + ALIVE]
    if retry:
        if cmd.startswith('rw'):
            sc.append(b'%d,%dw!%s' % (case['rng'][0] + 1, case['rng'][1], tgt))
        else:
            sc.append(b'w!' + tgt)
    sc.append(b'q!')
    return b'\n'.join(sc) + b'\n'


def run_case(vi, case, sched, retry=False, timeout=20):
    """sched: list of (index, kind, arg).  Returns observation dict."""
    d = vlib.case_dir()
    c0, edit, t = base_text(case['size'])
    old = time.time() - 5000
    if case['own'] != 'absent':
        with open(os.path.join(d, 'f'), 'wb') as f:
            f.write(c0)
        os.utime(os.path.join(d, 'f'), (old, old))
    else:
        with open(os.path.join(d, 'h'), 'wb') as f:
            f.write(t)
    if case['other'] != 'absent':
        with open(os.path.join(d, 't'), 'wb') as f:
            f.write(b'FOREIGN DATA\n' * 3)
        ts = 0 if case['other'] == 'epoch' else old - 5000
        os.utime(os.path.join(d, 't'), (ts, ts))
    for k, e in enumerate(case.get('bufs', [])):
        with open(os.path.join(d, 'g%d' % k), 'wb') as f:
            f.write(g_c0(k, e))
        os.utime(os.path.join(d, 'g%d' % k), (old, old))
    log = os.path.join(d, 'shim.log')
    env = {'PATH': '/usr/bin:/bin', 'HOME': d, 'EXINIT': '', 'TERM': 'xterm', 'LINES': '24', 'COLUMNS': '80',
           'LD_PRELOAD': build_shim(), 'NVSHIM_TARGETS': 'f:t:g0:g1:g2:g3', 'NVSHIM_LOG': log,
           'NVSHIM_SCHED': ','.join('%d:%s:%d' % s for s in sched)}
    p = subprocess.Popen([vi, '-s', '-e', 'f'], stdin=subprocess.PIPE, stdout=subprocess.PIPE, stderr=subprocess.PIPE, cwd=d, env=env,
                         start_new_session=True)
    try:
        out, err = p.communicate(script_of(case, retry), timeout=timeout)
        rc = p.returncode
    except subprocess.TimeoutExpired:
        try:
            os.killpg(p.pid, 9)
        except Exception:
            p.kill()
        out, err = p.communicate()
        rc = None

    def rd(n):
        fp = os.path.join(d, n)
        return open(fp, 'rb').read() if os.path.exists(fp) else None
    calls = []
    if os.path.exists(log):
        for l in open(log).read().split('\n'):
            w = l.split()
            if len(w) >= 4 and w[0] != '-':
                calls.append({'i': int(w[0]), 'op': w[1], 'n': int(w[2]) if w[1] == 'write' else 0, 'err': 'err' in w[2:-1], 'name': w[-1]})
    ob = {'rc': rc, 'own': rd('f'), 'other': rd('t'), 'gs': [rd('g%d' % k) for k in range(len(case.get('bufs', [])))], 'calls': calls, 'hung': rc is None,
          'crash': rc is None or rc < 0 or rc >= 100}
    shutil.rmtree(d, ignore_errors=True)
    seg = out.split(S1, 1)[1] if S1 in out else b''
    ob['quit_by_cmd'] = S2 not in seg
    msg = seg.split(S2, 1)[0]
    ob['alive'] = ALIVE in seg
    # message class: success messages have the form "path"  [=n]  [w]; anything else that is shown is a
    # failure report (refused and failed are not told apart: the wording is not part of the property)
    import re
    rest = re.sub(rb'"[^"]*"  \[=\d+\]  \[w\]', b'', msg)
    if rest.strip():
        ob['cls'] = 'err'
    elif rest != msg:
        ob['cls'] = 'ok'
    else:
        ob['cls'] = 'silent'
    ob['msg'] = msg[:120].decode('latin-1')
    return ob


def model_request(case, sched_words):
    c0, edit, t = base_text(case['size'])
    text = case_text(case)
    kv = {'cmd': case['cmd'].replace('rw', 'w').replace('wqchain', 'wq'), 'rng': '%d,%d' % tuple(case['rng']) if case['cmd'].startswith('rw') else '-',
          'tgt': case['tgt'], 'text': vlib.hx(text), 'dirty': '1' if case['dirty'] else '0',
          'own': 'absent' if case['own'] == 'absent' else vlib.hx(c0), 'ownm': '102' if case['own'] == 'newer' else '100',
          'rec': '-1' if case['own'] == 'absent' else '100',
          'other': 'absent' if case['other'] == 'absent' else vlib.hx(b'FOREIGN DATA\n' * 3), 'otherm': '0' if case['other'] == 'epoch' else '50',
          'sched': ','.join(sched_words) if sched_words else '-'}
    if case.get('pre'):
        kv['pre'] = ';'.join(PRE_MODEL[pc] for pc in case['pre'])
    if case.get('bufs'):
        # bufs[1..] in the editor's order: the buffer loaded last comes first
        order = list(enumerate(case['bufs']))[::-1]
        kv['nb'] = str(len(order))
        for i, (k, e) in enumerate(order):
            kv.update({'b%dtext' % i: vlib.hx(g_txt(k, e)), 'b%ddirty' % i: '1' if e['dirty'] else '0', 'b%dfile' % i: vlib.hx(g_c0(k, e)),
                       'b%dm' % i: '102' if e['state'] == 'newer' else '100', 'b%drec' % i: '100'})
    return 'sv ' + ' '.join('%s=%s' % kv_ for kv_ in kv.items())


def sched_words(sched):
    """the model's outcome list for the faults (index, kind, arg) of one schedule"""
    if not sched:
        return []
    out = ['o'] * (max(s[0] for s in sched) + 1)
    for i, kind, arg in sched:
        out[i] = 'e' if kind == 'err' else 's%d' % arg
    return out


def base_cases():
    out = []
    for size in SIZES:
        nl = len(lines_of(base_text(size)[2]))
        for cmd in CMDS:
            for dirty in (True, False):
                if not dirty and cmd not in ('w', 'x', 'wq', 'xa'):
                    continue
                tgts = [('own', o, 'absent') for o in ('absent', 'unchanged', 'newer')]
                if cmd in ('w', 'w!', 'rw', 'rw!'):
                    tgts += [('other', 'unchanged', o) for o in ('absent', 'exists', 'epoch')]
                for tgt, own, other in tgts:
                    if cmd.startswith('rw') and nl < 2:
                        continue
                    if own == 'absent' and not dirty and size != 'one':
                        continue
                    if own == 'absent' and dirty and size == 'empty':
                        continue
                    c = {'size': size, 'cmd': cmd, 'dirty': dirty, 'tgt': tgt, 'own': own, 'other': other}
                    if cmd.startswith('rw'):
                        c['rng'] = [1, nl] if nl > 2 else [0, 1]
                    out.append(c)
    # multi-command histories: earlier writes of the session (to another path, of a range, through a filter)
    # before the guarded write of the edited file
    for size in ('one', 'multi'):
        for cmd in ('w', 'w!', 'wq', 'x', 'xa'):
            for own in ('newer', 'unchanged', 'absent'):
                for other, pre in (('absent', ['w t']), ('absent', ['pipe']), ('exists', ['rw! t']), ('exists', ['w t']),
                                   ('absent', ['w t', 'pipe', 'w! t']), ('epoch', ['w! t', 'rw! t'])):
                    out.append({'size': size, 'cmd': cmd, 'dirty': True, 'tgt': 'own', 'own': own, 'other': other, 'pre': pre})
    # 2..5 buffers of clearly different line counts (1, 3, 40, 700), modified in the background or not, newer on disk or
    # not, written by xa / xa! / wq / wq! / x from f, and by a chain of :wq (each one switches to the next modified buffer)
    D, C = True, False
    specs = [[(3, D, 'unchanged')], [(3, C, 'newer')], [(3, D, 'newer')], [(1, C, 'unchanged')],
             [(1, D, 'unchanged'), (700, D, 'unchanged')], [(700, C, 'unchanged'), (40, D, 'unchanged')],
             [(40, D, 'unchanged'), (3, C, 'unchanged'), (1, D, 'unchanged')],
             [(700, D, 'unchanged'), (40, D, 'newer'), (3, D, 'unchanged'), (1, C, 'unchanged')]]
    mk = lambda sp: [{'n': n, 'dirty': d, 'state': st} for n, d, st in sp]
    for size in ('one', 'multi'):
        for cmd in ('xa', 'xa!', 'wq', 'wq!', 'x'):
            for own, dirty in (('unchanged', True), ('newer', True), ('unchanged', False)):
                for sp in specs:
                    out.append({'size': size, 'cmd': cmd, 'dirty': dirty, 'tgt': 'own', 'own': own, 'other': 'absent', 'bufs': mk(sp)})
        for dirty in (True, False):
            for sp in specs:
                if all(st == 'unchanged' for _, _, st in sp):
                    out.append({'size': size, 'cmd': 'wqchain', 'dirty': dirty, 'tgt': 'own', 'own': 'unchanged', 'other': 'absent', 'bufs': mk(sp)})
    return out


def faults_for(calls):
    """schedules (lists of faults) for the dry-run call sequence: every position x one fault, and at every write
    two and three consecutive faults inside one write_fully loop (short counts followed by an error on the retry;
    transient = one error, persistent = the error repeats on the following calls)"""
    one, multi = [], []
    for c in calls:
        i = c['i']
        for en in ('ENOSPC', 'EIO', 'EINTR'):
            one.append([(i, 'err', ERRNOS[en])])
        if c['op'] == 'write' and c['n'] > 1:
            n = c['n']
            one.append([(i, 'short', 1)])
            if n > 2:
                one.append([(i, 'short', n - 1)])
            for k in sorted({1, n - 1, n // 2} - {0}):
                for en in ('ENOSPC', 'EIO'):
                    multi.append([(i, 'short', k), (i + 1, 'err', ERRNOS[en])])
                multi.append([(i, 'short', k), (i + 1, 'short', 1)])
            if n > 2:
                multi.append([(i, 'short', 1), (i + 1, 'short', 1), (i + 2, 'err', ERRNOS['EIO'])])
                multi.append([(i, 'short', 1), (i + 1, 'short', n - 2), (i + 2, 'err', ERRNOS['ENOSPC'])])
                multi.append([(i, 'short', n - 1)] + [(i + j, 'err', ERRNOS['ENOSPC']) for j in range(1, 6)])
                multi.append([(i, 'short', 1), (i + 1, 'err', ERRNOS['EINTR']), (i + 3, 'err', ERRNOS['EIO'])])
    return one, multi


def oracle(case, sched, ob, ob_retry):
    """The property on the implementation's observables.  Returns a list of strings."""
    bad = []
    if ob['crash']:
        return ['editor crashed or hung (rc=%s)' % ob['rc']]
    c0, edit, t = base_text(case['size'])
    text = case_text(case)
    want = want_of(case)
    force = case['cmd'].endswith('!')
    tgt_before = (None if case['own'] == 'absent' else c0) if case['tgt'] == 'own' else (None if case['other'] == 'absent' else b'FOREIGN DATA\n' * 3)
    tgt_after = ob['own'] if case['tgt'] == 'own' else ob['other']
    wrote_cmd = not (case['cmd'] in ('x', 'x!', 'xa', 'xa!') and not case['dirty'] and 'a' not in case['cmd'])
    protected = not force and ((case['tgt'] == 'other' and case['other'] != 'absent') or (case['tgt'] == 'own' and case['own'] == 'newer'))
    reported_ok = ob['cls'] == 'ok' or (ob['quit_by_cmd'] and wrote_cmd)
    # the earlier commands of a history only touch t; the command under test touches f (and g)
    final_calls = [c for c in ob['calls'] if not (case.get('pre') and c['name'] == 't')]
    injected_err = any(c['err'] for c in final_calls)
    tname = 'f' if case['tgt'] == 'own' else 't'
    buf2 = case.get('bufs')
    for k, e in enumerate(case.get('bufs', [])):
        gf, c0k, txt = ob['gs'][k], g_c0(k, e), g_txt(k, e)
        if e['state'] == 'newer' and not force:
            if gf != c0k or any(c['name'] == 'g%d' % k for c in ob['calls']):
                bad.append('a save without ! replaced (or opened) the file of background buffer g%d although it is newer than when it was read' % k)
            if 'a' in case['cmd'] and ob['quit_by_cmd']:
                bad.append('xa quit although the save of background buffer g%d had to be refused (file newer on disk)' % k)
        if case['cmd'] in ('xa', 'xa!') and ob['quit_by_cmd'] and gf != txt:
            bad.append('xa quit but the file of background buffer g%d (%d lines) does not hold exactly its text: %s bytes instead of %d' % (
                k, e['n'], None if gf is None else len(gf), len(txt)))
        # (a command with ! is an explicit request to give up other modified buffers)
        if e['dirty'] and not force and (ob['quit_by_cmd'] or not ob['alive']) and gf != txt:
            bad.append('the editor quit (or a following :q was accepted) although the modified background buffer g%d is not in its file' % k)
    if case['cmd'] == 'wqchain':
        if not ob['quit_by_cmd']:
            bad.append('repeated :wq did not end the session')
        if ob['own'] != text:
            bad.append('after the :wq chain the edited file does not hold the buffer text')
        return bad
    if protected and wrote_cmd:
        if tgt_after != tgt_before:
            bad.append('a write without ! replaced a file that %s' % ('exists and is not the edited file' if case['tgt'] == 'other' else 'is newer than when it was read'))
        if reported_ok:
            bad.append('a refused write was reported as success (message class %s, quit=%s)' % (ob['cls'], ob['quit_by_cmd']))
        if any(c['name'] == tname for c in final_calls):
            bad.append('a refused write still opened the target')
    if reported_ok and wrote_cmd and tgt_after != want:
        bad.append('the command reported success but the file does not hold exactly the written lines')
    if injected_err:
        if reported_ok:
            bad.append('an open/write/close error was injected and consumed, yet the command reported success (class %s, quit=%s)' % (ob['cls'], ob['quit_by_cmd']))
        first_round = True
        if case['cmd'] in ('xa', 'xa!') and case['dirty']:
            # xa first writes the current buffer (marks it saved), then saves every buffer again
            ncl = [c['i'] for c in final_calls if c['op'] == 'close']
            erri = [c['i'] for c in final_calls if c['err']][0]
            first_round = not ncl or erri <= ncl[0]
        if case['dirty'] and first_round and not buf2 and not ob['alive'] and not ob['quit_by_cmd']:
            bad.append('after a failed write the buffer is no longer dirty: a following :q quit and the changes are lost')
        if ob['quit_by_cmd']:
            bad.append('the editor quit although the write failed')
    # nothing is lost silently: if the editor is gone without q!, a dirty buffer must be in its own file
    if case['dirty'] and (ob['quit_by_cmd'] or not ob['alive']) and not ob['crash']:
        if ob['own'] != text:
            bad.append('the editor quit (or a following :q was accepted) although the modified buffer is not in its file')
    if ob_retry is not None and ob_retry['alive'] and not ob_retry['crash']:
        fin = ob_retry['own'] if case['tgt'] == 'own' else ob_retry['other']
        if fin != want:
            bad.append('a forced retry after the failure did not leave the written lines in the file')
    return bad


def compare(case, ob, mline):
    """model vs editor on the observables the property names"""
    m = dict(p.split('=', 1) for p in mline.split(' '))
    diffs = []
    if case['cmd'] == 'wqchain':
        return diffs            # a sequence of commands: judged by the oracle only
    if case.get('bufs'):
        mg = m['gs'].split(';')[::-1]       # the driver lists bufs[1..]: last loaded first
        for k, gf in enumerate(ob['gs']):
            mv = None if mg[k] == 'absent' else vlib.unhx(mg[k])
            if mv != gf:
                diffs.append('g%d file: model %s bytes, editor %s bytes' % (k, None if mv is None else len(mv), None if gf is None else len(gf)))
    mq = m['q'] == '1'
    if mq != ob['quit_by_cmd']:
        diffs.append('quit: model %s editor %s' % (mq, ob['quit_by_cmd']))
    if not mq and not ob['quit_by_cmd']:
        cls = ob['cls']
        noop = case['cmd'] in ('x', 'x!') and not case['dirty']
        mst = 'ok' if m['st'] == 'ok' else 'err'
        if not noop and cls != mst:
            diffs.append('message class: model %s editor %s (%r)' % (mst, cls, ob['msg']))
        if (m['dirty'] == '1') != ob['alive']:
            diffs.append('following :q refused: model %s editor %s' % (m['dirty'] == '1', ob['alive']))
    for k in ('own', 'other'):
        mv = None if m[k] == 'absent' else vlib.unhx(m[k])
        if mv != ob[k]:
            diffs.append('%s file: model %s bytes, editor %s bytes' % (k, None if mv is None else len(mv), None if ob[k] is None else len(ob[k])))
    return diffs


def run(ctx):
    res = ctx.res
    rng = ctx.rng
    vi = vlib.build_vi()
    build_shim()
    model = ctx.model('io')
    res.rule = ('one evaluation = one (command, buffer size, dirty?, target state, fault) run of the real editor under the shim; faults = every call index of the '
                'dry-run sequence x {ENOSPC, EIO, EINTR, short 1, short n-1}, plus 2-5 consecutive faults inside one write batch (short counts then errors); '
                'cases = single commands, multi-command histories (writes to another path / range / filter before the guarded write), two buffers; non-trivial = a fault was injected and consumed, or a guard case; distinct = distinct (case, fault)')
    work = []          # (case, sched)
    if ctx.replay:
        rp = json.load(open(ctx.replay))
        inp = rp.get('input') or {}
        if 'case' in inp:
            work.append((inp['case'], [tuple(s) for s in inp.get('sched', [])]))
    else:
        cdir = os.path.join(vlib.VERIF, 'corpus')
        for fn in sorted(os.listdir(cdir)):
            if fn.startswith('C03-') and fn.endswith('.json'):
                c = json.load(open(os.path.join(cdir, fn)))
                c = c.get('input', c)
                work.append((c['case'], [tuple(s) for s in c.get('sched', [])]))
        bases = base_cases()
        dry = vlib.pmap(lambda c: run_case(vi, c, []), bases)
        strata = {}        # (command, history kind, single/multi fault) -> schedules
        n1 = n2 = 0
        for c, ob in zip(bases, dry):
            work.append((c, []))
            one_f, multi_f = faults_for(ob['calls'])
            hk = 'history' if c.get('pre') else 'several buffers' if c.get('bufs') else 'single'
            if c['cmd'] == 'wqchain':
                continue
            for f in one_f:
                strata.setdefault((c['cmd'], hk, 1), []).append((c, f))
            for f in multi_f:
                strata.setdefault((c['cmd'], hk, 2), []).append((c, f))
            n1 += len(one_f)
            n2 += len(multi_f)
        res.extra['base_cases'] = len(bases)
        res.extra['enumerated_single_fault_schedules'] = n1
        res.extra['enumerated_multi_fault_schedules'] = n2
        allf = []
        if ctx.quick:
            # stratified: the same quota from every (command, history kind, single/multi) stratum
            keys = sorted(strata)
            quota = max(1, 640 // max(1, len(keys)))
            for k in keys:
                xs = strata[k]
                rng.fork(repr(k)).shuffle(xs)
                allf += xs[:quota]
        else:
            for k in sorted(strata):
                allf += strata[k]
        work += allf

    def one(w):
        case, sched = w
        ob = run_case(vi, case, sched)
        if ob['crash']:
            ob = run_case(vi, case, sched, timeout=60)
        ob_r = None
        # the forced retry is meaningful after a transient error only (one error in the schedule), single buffer
        if any(c['err'] for c in ob['calls']) and not ob['crash'] and not case.get('bufs') and sum(1 for f in sched if f[1] == 'err') <= 1:
            ob_r = run_case(vi, case, sched, retry=True)
        return ob, ob_r
    obs = vlib.pmap(one, work)
    reqs = []
    for case, sched in work:
        words = sched_words(sched)
        reqs.append(model_request(case, words))
    out_m = None
    if model:
        from props import c01
        rc, out_m, err = c01.run_model(model, reqs)
        if rc != 0 or len(out_m) != len(reqs):
            res.disagree({'what': 'model driver failed: rc=%d, %d answers for %d requests' % (rc, len(out_m), len(reqs)), 'stderr': err[-800:]})
            out_m = None
    for i, ((case, sched), (ob, ob_r)) in enumerate(zip(work, obs)):
        res.evaluations += 1
        res.count('cmd ' + case['cmd'])
        res.count('size ' + case['size'])
        res.count('target %s/%s' % (case['tgt'], case['own'] if case['tgt'] == 'own' else case['other']))
        if case.get('pre'):
            res.count('history: ' + ' / '.join(case['pre']))
        if case.get('bufs'):
            res.count('background buffers with %s lines' % '/'.join(str(e['n']) for e in case['bufs']))
        if len(sched) == 1:
            k = sched[0]
            res.count('fault ' + (('err %d' % k[2]) if k[1] == 'err' else ('short ' + ('1' if k[2] == 1 else 'n-1'))))
            op = [c['op'] for c in ob['calls'] if c['i'] == k[0]]
            res.count('fault at ' + (op[0] if op else 'unreached'))
        elif sched:
            res.count('multi-fault: ' + ','.join(f[1] for f in sched))
        if (sched and any(c['i'] == sched[0][0] for c in ob['calls'])) or case['own'] == 'newer' or case['other'] != 'absent':
            res.nontriv(i)
        bad = oracle(case, sched, ob, ob_r)
        if bad:
            res.violation({'what': bad[0], 'all': bad, 'input': {'case': case, 'sched': [list(s) for s in sched]},
                           'expected': {'file': clip(want_of(case))},
                           'observed': {'class': ob['cls'], 'message': ob['msg'], 'quit_by_command': ob['quit_by_cmd'], 'q_refused': ob['alive'],
                                        'own': clip(ob['own']), 'other': clip(ob['other']), 'calls': ob['calls'][:12]},
                           'script': script_of(case).decode('latin-1')})
            continue
        if out_m is not None:
            diffs = compare(case, ob, out_m[i])
            if diffs:
                res.disagree({'what': 'model and editor differ: ' + '; '.join(diffs), 'input': {'case': case, 'sched': [list(s) for s in sched]},
                              'model': out_m[i][:300], 'implementation': {'class': ob['cls'], 'message': ob['msg'], 'quit': ob['quit_by_cmd'], 'alive': ob['alive'],
                                                                          'calls': ob['calls'][:12]}})
        if i % 97 == 0:
            res.sample({'case': case, 'sched': [list(s) for s in sched], 'class': ob['cls'], 'quit': ob['quit_by_cmd'], 'q_refused': ob['alive'], 'calls': len(ob['calls'])})
    res.extra['editor_runs'] = len(work)


def clip(b, n=120):
    if b is None:
        return None
    return {'len': len(b), 'head': b[:n].hex()} if len(b) > n else b.hex()
