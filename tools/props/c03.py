"""C03 -- writes never clobber foreign or newer files; failures surface and stay dirty.

Correspondence = fault enumeration on the real binary under harness/faultshim.c (LD_PRELOAD; open /
write / close of the target interposed, schedule from the environment): every position of the call
sequence the editor actually makes x {error ENOSPC / EIO / EINTR, short count 1, short count n-1}
x buffer sizes (0 bytes, one batch, >= 3 batches, a line written directly) x {:w, :w!, :a,bw, :a,bw!,
:wq, :wq!, :x, :xa, :xa!} x target {own absent / unchanged / newer, foreign absent / existing /
existing with time stamp 0}, versus the extracted model (coq/IoDefs.v: lbuf_save, ec_write, ec_quit).
Observables: message class, whether the command quit, whether a following :q is refused, file bytes.
Oracle (the property, in Python, independent of the model): no clobbering without `!`; success =>
file is exactly the lines; a consumed error => failure reported, no quit, dirty buffer stays dirty;
a forced retry succeeds.

Guard stream (no faults; see the comment above GN): editor sessions over regular files, symbolic links, chains,
dangling links and a link loop, with a foreign writer run from inside the session between the editor's last
read / :w and the command under test (w, w!, wq, x, xa, wq!, xa!, :w of other names), fixed time stamps set with
`touch -d`; oracle on snapshots taken inside the session (stat -L, contents, directory copy); model = request
`gs` of the driver (coq/IoLinkDefs.v).

Table stream (no faults; see the comment above TN): sessions with 1-5 open buffers; the write target is the current buffer's own
path, the alternate buffer (#), a deeper slot of bufs[], a name open nowhere, a link to an open buffer's file; target as loaded /
newer / absent / created / removed; w, w!, a,bw, wq, x, xa with and without ! and with a path argument; oracle on snapshots that
also record % and # as the editor expands them; model = request `ts` of the driver (coq/IoTableDefs.v).
"""
import json, os, shutil, subprocess, time
import vlib

GROUP = 'io'
TRUSTED = ['harness/faultshim.c (LD_PRELOAD interposer: counts and fails open/write/close on the target path only; stat, read, ftruncate healthy)',
           'finite fault schedules: after the listed outcomes every call succeeds; a write(2) returning 0 for ever is excluded',
           'file time stamps are set with utime(2) to whole seconds in the past; `!touch` makes the own file newer',
           'guard stream: coreutils sh / printf / mv / rm / touch -d / stat -L / cp -P run from inside the session (`:w !sh script`) as foreign writer and snapshot taker; '
           'stamps called newer lie 5000 s in the future, i.e. later than anything the editor writes during the run',
           'table stream: the same tools plus cp -L; the current / alternate path of a snapshot is what the editor itself substitutes for % and # in `:w !sh s.sh TAG % #`']

S1, S2, ALIVE = b'C03qS1zMARK', b'C03qS2zMARK', b'C03qALIVEzMARK'
ERRNOS = {'ENOSPC': 28, 'EIO': 5, 'EINTR': 4}
SIZES = ['empty', 'one', 'multi', 'longline']
CMDS = ['w', 'w!', 'rw', 'rw!', 'wq', 'wq!', 'x', 'xa', 'xa!']
_shim = [None]


def build_shim():
    if _shim[0] is None:
        so = os.path.join(vlib.tmpdir(), 'faultshim.so')
        r = vlib.sh(['cc', '-shared', '-fPIC', '-O1', '-o', so, os.path.join(vlib.VERIF, 'harness', 'faultshim.c'), '-ldl'])
        if r.returncode != 0:
            raise vlib.BuildError('faultshim.c: ' + r.stdout[-1500:])
        _shim[0] = so
    return _shim[0]


def norm(f):
    return f if (not f or f.endswith(b'\n')) else f + b'\n'


def lines_of(f):
    return [l + b'\n' for l in norm(f).split(b'\n')[:-1]]


def base_text(size):
    """(initial own file content, edit script lines, buffer text after the edit)"""
    if size == 'empty':
        return b'only\n', [b'1d'], b''
    if size == 'one':
        c = b'alpha\nbeta \xc3\xa9\xff\ngamma\n'
        return c, [b'2d'], b'alpha\ngamma\n'
    if size == 'multi':
        ls = [(b'%04d' % i) + bytes([97 + i % 26]) * 2095 + b'\n' for i in range(4)]
        return b''.join(ls), [b'1d'], b''.join(ls[1:])
    ls = [b'head\n', b'L' * 4200 + b'\n', b'tail\n', b'x\n']
    return b''.join(ls), [b'4d'], b''.join(ls[:3])


def want_of(case):
    text = case_text(case)
    ls = lines_of(text)
    if case['cmd'].startswith('rw'):
        b, e = case['rng']
        return b''.join(ls[b:e])
    return b''.join(ls)


def case_text(case):
    c0, _, t = base_text(case['size'])
    if case['own'] == 'absent':
        return t if case['dirty'] else b''
    return t if case['dirty'] else c0


def g_c0(k, e):
    """content on disk of the k-th additional buffer (e['n'] lines)"""
    return b''.join(b'g%d line %d\n' % (k, i) for i in range(e['n']))


def g_txt(k, e):
    """its text in the editor: the first line deleted if it is modified"""
    ls = lines_of(g_c0(k, e))
    return b''.join(ls[1:] if e['dirty'] else ls)


PRE_LINES = {'w t': b'w t', 'w! t': b'w! t', 'rw! t': b'1,2w! t', 'pipe': b'w !cat >/dev/null'}
PRE_MODEL = {'w t': 'w@other@-', 'w! t': 'w!@other@-', 'rw! t': 'w!@other@0,2', 'pipe': 'pipe@own@-'}


def script_of(case, retry=False):
    c0, edit, t = base_text(case['size'])
    sc = []
    if case['own'] == 'newer':
        sc.append(b'!touch f')          # before the edit: `!` refuses to run while the buffer is modified
    for k, e in enumerate(case.get('bufs', [])):
        # additional buffers g0, g1, ...: load, make newer on disk / modify; finally come back to f, so that
        # bufs[] = f, g(last), ..., g0
        sc.append(b'e! g%d' % k)
        if e['state'] == 'newer':
            sc.append(b'!touch g%d' % k)
        if e['dirty']:
            sc.append(b'1d')
    if case.get('bufs'):
        sc.append(b'e! f')
    if case['own'] == 'absent':
        # the buffer starts empty; give it the text by reading a helper file
        if case['dirty'] and t:
            sc.append(b'r h')
    elif case['dirty']:
        sc += edit
    tgt = b' t' if case['tgt'] == 'other' else b''
    cmd = case['cmd']
    if cmd == 'wqchain':
        # :wq refuses to quit while another buffer is modified and switches to it: repeat until the editor is gone
        line = b'\n'.join([b'wq'] * (2 + len(case.get('bufs', []))))
    elif cmd.startswith('rw'):
        b, e = case['rng']
        line = b'%d,%dw%s%s' % (b + 1, e, b'!' if cmd.endswith('!') else b'', tgt)
    else:
        line = cmd.encode() + tgt
    for pc in case.get('pre', []):
        sc.append(PRE_LINES[pc])        # earlier writes of the same session (other path, range, filter)
    sc += [b'ec ' + S1, line, b'ec ' + S2, b'q', b'ec ' + ALIVE]
    if retry:
        if cmd.startswith('rw'):
            sc.append(b'%d,%dw!%s' % (case['rng'][0] + 1, case['rng'][1], tgt))
        else:
            sc.append(b'w!' + tgt)
    sc.append(b'q!')
    return b'\n'.join(sc) + b'\n'


def run_case(vi, case, sched, retry=False, timeout=20):
    """sched: list of (index, kind, arg).  Returns observation dict."""
    d = vlib.case_dir()
    c0, edit, t = base_text(case['size'])
    old = time.time() - 5000
    if case['own'] != 'absent':
        with open(os.path.join(d, 'f'), 'wb') as f:
            f.write(c0)
        os.utime(os.path.join(d, 'f'), (old, old))
    else:
        with open(os.path.join(d, 'h'), 'wb') as f:
            f.write(t)
    if case['other'] != 'absent':
        with open(os.path.join(d, 't'), 'wb') as f:
            f.write(b'FOREIGN DATA\n' * 3)
        ts = 0 if case['other'] == 'epoch' else old - 5000
        os.utime(os.path.join(d, 't'), (ts, ts))
    for k, e in enumerate(case.get('bufs', [])):
        with open(os.path.join(d, 'g%d' % k), 'wb') as f:
            f.write(g_c0(k, e))
        os.utime(os.path.join(d, 'g%d' % k), (old, old))
    log = os.path.join(d, 'shim.log')
    env = {'PATH': '/usr/bin:/bin', 'HOME': d, 'EXINIT': '', 'TERM': 'xterm', 'LINES': '24', 'COLUMNS': '80',
           'LD_PRELOAD': build_shim(), 'NVSHIM_TARGETS': 'f:t:g0:g1:g2:g3', 'NVSHIM_LOG': log,
           'NVSHIM_SCHED': ','.join('%d:%s:%d' % s for s in sched)}
    p = subprocess.Popen([vi, '-s', '-e', 'f'], stdin=subprocess.PIPE, stdout=subprocess.PIPE, stderr=subprocess.PIPE, cwd=d, env=env,
                         start_new_session=True)
    try:
        out, err = p.communicate(script_of(case, retry), timeout=timeout)
        rc = p.returncode
    except subprocess.TimeoutExpired:
        try:
            os.killpg(p.pid, 9)
        except Exception:
            p.kill()
        out, err = p.communicate()
        rc = None

    def rd(n):
        fp = os.path.join(d, n)
        return open(fp, 'rb').read() if os.path.exists(fp) else None
    calls = []
    if os.path.exists(log):
        for l in open(log).read().split('\n'):
            w = l.split()
            if len(w) >= 4 and w[0] != '-':
                calls.append({'i': int(w[0]), 'op': w[1], 'n': int(w[2]) if w[1] == 'write' else 0, 'err': 'err' in w[2:-1], 'name': w[-1]})
    ob = {'rc': rc, 'own': rd('f'), 'other': rd('t'), 'gs': [rd('g%d' % k) for k in range(len(case.get('bufs', [])))], 'calls': calls, 'hung': rc is None,
          'crash': rc is None or rc < 0 or rc >= 100}
    shutil.rmtree(d, ignore_errors=True)
    seg = out.split(S1, 1)[1] if S1 in out else b''
    ob['quit_by_cmd'] = S2 not in seg
    msg = seg.split(S2, 1)[0]
    ob['alive'] = ALIVE in seg
    # message class: success messages have the form "path"  [=n]  [w]; anything else that is shown is a
    # failure report (refused and failed are not told apart: the wording is not part of the property)
    import re
    rest = re.sub(rb'"[^"]*"  \[=\d+\]  \[w\]', b'', msg)
    if rest.strip():
        ob['cls'] = 'err'
    elif rest != msg:
        ob['cls'] = 'ok'
    else:
        ob['cls'] = 'silent'
    ob['msg'] = msg[:120].decode('latin-1')
    return ob


def model_request(case, sched_words):
    c0, edit, t = base_text(case['size'])
    text = case_text(case)
    kv = {'cmd': case['cmd'].replace('rw', 'w').replace('wqchain', 'wq'), 'rng': '%d,%d' % tuple(case['rng']) if case['cmd'].startswith('rw') else '-',
          'tgt': case['tgt'], 'text': vlib.hx(text), 'dirty': '1' if case['dirty'] else '0',
          'own': 'absent' if case['own'] == 'absent' else vlib.hx(c0), 'ownm': '102' if case['own'] == 'newer' else '100',
          'rec': '-1' if case['own'] == 'absent' else '100',
          'other': 'absent' if case['other'] == 'absent' else vlib.hx(b'FOREIGN DATA\n' * 3), 'otherm': '0' if case['other'] == 'epoch' else '50',
          'sched': ','.join(sched_words) if sched_words else '-'}
    if case.get('pre'):
        kv['pre'] = ';'.join(PRE_MODEL[pc] for pc in case['pre'])
    if case.get('bufs'):
        # bufs[1..] in the editor's order: the buffer loaded last comes first
        order = list(enumerate(case['bufs']))[::-1]
        kv['nb'] = str(len(order))
        for i, (k, e) in enumerate(order):
            kv.update({'b%dtext' % i: vlib.hx(g_txt(k, e)), 'b%ddirty' % i: '1' if e['dirty'] else '0', 'b%dfile' % i: vlib.hx(g_c0(k, e)),
                       'b%dm' % i: '102' if e['state'] == 'newer' else '100', 'b%drec' % i: '100'})
    return 'sv ' + ' '.join('%s=%s' % kv_ for kv_ in kv.items())


def sched_words(sched):
    """the model's outcome list for the faults (index, kind, arg) of one schedule"""
    if not sched:
        return []
    out = ['o'] * (max(s[0] for s in sched) + 1)
    for i, kind, arg in sched:
        out[i] = 'e' if kind == 'err' else 's%d' % arg
    return out


def base_cases():
    out = []
    for size in SIZES:
        nl = len(lines_of(base_text(size)[2]))
        for cmd in CMDS:
            for dirty in (True, False):
                if not dirty and cmd not in ('w', 'x', 'wq', 'xa'):
                    continue
                tgts = [('own', o, 'absent') for o in ('absent', 'unchanged', 'newer')]
                if cmd in ('w', 'w!', 'rw', 'rw!'):
                    tgts += [('other', 'unchanged', o) for o in ('absent', 'exists', 'epoch')]
                for tgt, own, other in tgts:
                    if cmd.startswith('rw') and nl < 2:
                        continue
                    if own == 'absent' and not dirty and size != 'one':
                        continue
                    if own == 'absent' and dirty and size == 'empty':
                        continue
                    c = {'size': size, 'cmd': cmd, 'dirty': dirty, 'tgt': tgt, 'own': own, 'other': other}
                    if cmd.startswith('rw'):
                        c['rng'] = [1, nl] if nl > 2 else [0, 1]
                    out.append(c)
    # multi-command histories: earlier writes of the session (to another path, of a range, through a filter)
    # before the guarded write of the edited file
    for size in ('one', 'multi'):
        for cmd in ('w', 'w!', 'wq', 'x', 'xa'):
            for own in ('newer', 'unchanged', 'absent'):
                for other, pre in (('absent', ['w t']), ('absent', ['pipe']), ('exists', ['rw! t']), ('exists', ['w t']),
                                   ('absent', ['w t', 'pipe', 'w! t']), ('epoch', ['w! t', 'rw! t'])):
                    out.append({'size': size, 'cmd': cmd, 'dirty': True, 'tgt': 'own', 'own': own, 'other': other, 'pre': pre})
    # 2..5 buffers of clearly different line counts (1, 3, 40, 700), modified in the background or not, newer on disk or
    # not, written by xa / xa! / wq / wq! / x from f, and by a chain of :wq (each one switches to the next modified buffer)
    D, C = True, False
    specs = [[(3, D, 'unchanged')], [(3, C, 'newer')], [(3, D, 'newer')], [(1, C, 'unchanged')],
             [(1, D, 'unchanged'), (700, D, 'unchanged')], [(700, C, 'unchanged'), (40, D, 'unchanged')],
             [(40, D, 'unchanged'), (3, C, 'unchanged'), (1, D, 'unchanged')],
             [(700, D, 'unchanged'), (40, D, 'newer'), (3, D, 'unchanged'), (1, C, 'unchanged')]]
    mk = lambda sp: [{'n': n, 'dirty': d, 'state': st} for n, d, st in sp]
    for size in ('one', 'multi'):
        for cmd in ('xa', 'xa!', 'wq', 'wq!', 'x'):
            for own, dirty in (('unchanged', True), ('newer', True), ('unchanged', False)):
                for sp in specs:
                    out.append({'size': size, 'cmd': cmd, 'dirty': dirty, 'tgt': 'own', 'own': own, 'other': 'absent', 'bufs': mk(sp)})
        for dirty in (True, False):
            for sp in specs:
                if all(st == 'unchanged' for _, _, st in sp):
                    out.append({'size': size, 'cmd': 'wqchain', 'dirty': dirty, 'tgt': 'own', 'own': 'unchanged', 'other': 'absent', 'bufs': mk(sp)})
    return out


def faults_for(calls):
    """schedules (lists of faults) for the dry-run call sequence: every position x one fault, and at every write
    two and three consecutive faults inside one write_fully loop (short counts followed by an error on the retry;
    transient = one error, persistent = the error repeats on the following calls)"""
    one, multi = [], []
    for c in calls:
        i = c['i']
        for en in ('ENOSPC', 'EIO', 'EINTR'):
            one.append([(i, 'err', ERRNOS[en])])
        if c['op'] == 'write' and c['n'] > 1:
            n = c['n']
            one.append([(i, 'short', 1)])
            if n > 2:
                one.append([(i, 'short', n - 1)])
            for k in sorted({1, n - 1, n // 2} - {0}):
                for en in ('ENOSPC', 'EIO'):
                    multi.append([(i, 'short', k), (i + 1, 'err', ERRNOS[en])])
                multi.append([(i, 'short', k), (i + 1, 'short', 1)])
            if n > 2:
                multi.append([(i, 'short', 1), (i + 1, 'short', 1), (i + 2, 'err', ERRNOS['EIO'])])
                multi.append([(i, 'short', 1), (i + 1, 'short', n - 2), (i + 2, 'err', ERRNOS['ENOSPC'])])
                multi.append([(i, 'short', n - 1)] + [(i + j, 'err', ERRNOS['ENOSPC']) for j in range(1, 6)])
                multi.append([(i, 'short', 1), (i + 1, 'err', ERRNOS['EINTR']), (i + 3, 'err', ERRNOS['EIO'])])
    return one, multi


def oracle(case, sched, ob, ob_retry):
    """The property on the implementation's observables.  Returns a list of strings."""
    bad = []
    if ob['crash']:
        return ['editor crashed or hung (rc=%s)' % ob['rc']]
    c0, edit, t = base_text(case['size'])
    text = case_text(case)
    want = want_of(case)
    force = case['cmd'].endswith('!')
    tgt_before = (None if case['own'] == 'absent' else c0) if case['tgt'] == 'own' else (None if case['other'] == 'absent' else b'FOREIGN DATA\n' * 3)
    tgt_after = ob['own'] if case['tgt'] == 'own' else ob['other']
    wrote_cmd = not (case['cmd'] in ('x', 'x!', 'xa', 'xa!') and not case['dirty'] and 'a' not in case['cmd'])
    protected = not force and ((case['tgt'] == 'other' and case['other'] != 'absent') or (case['tgt'] == 'own' and case['own'] == 'newer'))
    reported_ok = ob['cls'] == 'ok' or (ob['quit_by_cmd'] and wrote_cmd)
    # the earlier commands of a history only touch t; the command under test touches f (and g)
    final_calls = [c for c in ob['calls'] if not (case.get('pre') and c['name'] == 't')]
    injected_err = any(c['err'] for c in final_calls)
    tname = 'f' if case['tgt'] == 'own' else 't'
    buf2 = case.get('bufs')
    for k, e in enumerate(case.get('bufs', [])):
        gf, c0k, txt = ob['gs'][k], g_c0(k, e), g_txt(k, e)
        if e['state'] == 'newer' and not force:
            if gf != c0k or any(c['name'] == 'g%d' % k for c in ob['calls']):
                bad.append('a save without ! replaced (or opened) the file of background buffer g%d although it is newer than when it was read' % k)
            if 'a' in case['cmd'] and ob['quit_by_cmd']:
                bad.append('xa quit although the save of background buffer g%d had to be refused (file newer on disk)' % k)
        if case['cmd'] in ('xa', 'xa!') and ob['quit_by_cmd'] and gf != txt:
            bad.append('xa quit but the file of background buffer g%d (%d lines) does not hold exactly its text: %s bytes instead of %d' % (
                k, e['n'], None if gf is None else len(gf), len(txt)))
        # (a command with ! is an explicit request to give up other modified buffers)
        if e['dirty'] and not force and (ob['quit_by_cmd'] or not ob['alive']) and gf != txt:
            bad.append('the editor quit (or a following :q was accepted) although the modified background buffer g%d is not in its file' % k)
    if case['cmd'] == 'wqchain':
        if not ob['quit_by_cmd']:
            bad.append('repeated :wq did not end the session')
        if ob['own'] != text:
            bad.append('after the :wq chain the edited file does not hold the buffer text')
        return bad
    if protected and wrote_cmd:
        if tgt_after != tgt_before:
            bad.append('a write without ! replaced a file that %s' % ('exists and is not the edited file' if case['tgt'] == 'other' else 'is newer than when it was read'))
        if reported_ok:
            bad.append('a refused write was reported as success (message class %s, quit=%s)' % (ob['cls'], ob['quit_by_cmd']))
        if any(c['name'] == tname for c in final_calls):
            bad.append('a refused write still opened the target')
    if reported_ok and wrote_cmd and tgt_after != want:
        bad.append('the command reported success but the file does not hold exactly the written lines')
    if injected_err:
        if reported_ok:
            bad.append('an open/write/close error was injected and consumed, yet the command reported success (class %s, quit=%s)' % (ob['cls'], ob['quit_by_cmd']))
        first_round = True
        if case['cmd'] in ('xa', 'xa!') and case['dirty']:
            # xa first writes the current buffer (marks it saved), then saves every buffer again
            ncl = [c['i'] for c in final_calls if c['op'] == 'close']
            erri = [c['i'] for c in final_calls if c['err']][0]
            first_round = not ncl or erri <= ncl[0]
        if case['dirty'] and first_round and not buf2 and not ob['alive'] and not ob['quit_by_cmd']:
            bad.append('after a failed write the buffer is no longer dirty: a following :q quit and the changes are lost')
        if ob['quit_by_cmd']:
            bad.append('the editor quit although the write failed')
    # nothing is lost silently: if the editor is gone without q!, a dirty buffer must be in its own file
    if case['dirty'] and (ob['quit_by_cmd'] or not ob['alive']) and not ob['crash']:
        if ob['own'] != text:
            bad.append('the editor quit (or a following :q was accepted) although the modified buffer is not in its file')
    if ob_retry is not None and ob_retry['alive'] and not ob_retry['crash']:
        fin = ob_retry['own'] if case['tgt'] == 'own' else ob_retry['other']
        if fin != want:
            bad.append('a forced retry after the failure did not leave the written lines in the file')
    return bad


def compare(case, ob, mline):
    """model vs editor on the observables the property names"""
    m = dict(p.split('=', 1) for p in mline.split(' '))
    diffs = []
    if case['cmd'] == 'wqchain':
        return diffs            # a sequence of commands: judged by the oracle only
    if case.get('bufs'):
        mg = m['gs'].split(';')[::-1]       # the driver lists bufs[1..]: last loaded first
        for k, gf in enumerate(ob['gs']):
            mv = None if mg[k] == 'absent' else vlib.unhx(mg[k])
            if mv != gf:
                diffs.append('g%d file: model %s bytes, editor %s bytes' % (k, None if mv is None else len(mv), None if gf is None else len(gf)))
    mq = m['q'] == '1'
    if mq != ob['quit_by_cmd']:
        diffs.append('quit: model %s editor %s' % (mq, ob['quit_by_cmd']))
    if not mq and not ob['quit_by_cmd']:
        cls = ob['cls']
        noop = case['cmd'] in ('x', 'x!') and not case['dirty']
        mst = 'ok' if m['st'] == 'ok' else 'err'
        if not noop and cls != mst:
            diffs.append('message class: model %s editor %s (%r)' % (mst, cls, ob['msg']))
        if (m['dirty'] == '1') != ob['alive']:
            diffs.append('following :q refused: model %s editor %s' % (m['dirty'] == '1', ob['alive']))
    for k in ('own', 'other'):
        mv = None if m[k] == 'absent' else vlib.unhx(m[k])
        if mv != ob[k]:
            diffs.append('%s file: model %s bytes, editor %s bytes' % (k, None if mv is None else len(mv), None if ob[k] is None else len(ob[k])))
    return diffs


# ---------------------------------------------------------------------------------------------
# guard stream: the overwrite guards of lbuf_save for every combination of
#   {own name absent / present at load} x {regular file, symbolic link, chain of links, dangling link, link loop}
#   x {last in step with the directory by reading / by a successful :w}
#   x {foreign writer between that moment and the command: nothing, write through the name, rename over the name,
#      rename over / write to / unlink of the real file behind a link, touch, unlink, unlink + create; stamps older /
#      epoch / newer}  x {w, w!, wq, x, xa (wq!, xa!)},  plus :w / :w! of another name (absent, existing, epoch, link,
#      dangling link, created meanwhile, the real file behind the edited link).
# No fault injection.  The foreign writer runs from inside the session (`:w !sh aK.sh`), so it lands exactly between
# two commands; every time stamp is set with `touch -d @N` (whole seconds; `newer` lies in the future, so it is later
# than anything the editor writes during the run).  Right after loading, after every :w of the session and right
# before the command under test a snapshot (`:w !sh s.sh TAG`: stat -L of the names, their contents, a copy of the
# directory with links kept) is taken: the oracle is the property on those observables.  The model side is the `gs`
# request of the driver (coq/IoLinkDefs.v: ec_edit_l, ec_write_l, ec_quit_l, foreign).

GN = ['f', 't', 'r', 'l1', 'tr']                  # names of a guard case; the model calls them 0..4
GC0 = b'one\ntwo\n'
GFOREIGN = b'FOREIGN DATA\n' * 3
G_MODEL_STAMP = {'older2': 40, 'older': 50, 'old': 100, 'newer': 300, 'newer2': 400, 'epoch': 0}     # the editor writes at 200


def g_real_stamp(sym, base):
    return {'older2': base - 10000, 'older': base - 8000, 'old': base - 5000, 'newer': base + 5000, 'newer2': base + 6000, 'epoch': 0}[sym]


def g_act_content(k):
    return b'foreign %d\n' % k * 3


def g_layout(case):
    """(links: name -> name, files: name -> (content, stamp symbol)) at the start of the session"""
    links, files = {}, {}
    lay = case['layout']
    if lay == 'reg':
        real = 'f'
    elif lay == 'link':
        links['f'] = 'r'
        real = 'r'
    elif lay == 'chain':
        links['f'] = 'l1'
        links['l1'] = 'r'
        real = 'r'
    else:                                          # loop
        links['f'] = 'f'
        real = None
    if case['own'] == 'present' and real:
        files[real] = (GC0, 'old')
    tl = case.get('tlayout', 'absent')
    if tl == 'reg':
        files['t'] = (GFOREIGN, 'older2')
    elif tl == 'epoch':
        files['t'] = (GFOREIGN, 'epoch')
    elif tl == 'link':
        links['t'] = 'tr'
        files['tr'] = (GFOREIGN, 'older2')
    elif tl == 'dangling':
        links['t'] = 'tr'
    return links, files


def g_text_at(case):
    """buffer text before each step and at the command (the edits prepend one line each)"""
    text = GC0 if (case['own'] == 'present' and case['layout'] != 'loop') else b''
    for st in case['steps']:
        if st[0] == 'edit':
            text = st[1].encode() + b'\n' + text
    return text


def g_script(case):
    sc = [b'w !sh s.sh 0']
    for k, st in enumerate(case['steps']):
        if st[0] == 'edit':
            sc += [b'0a', st[1].encode(), b'.']
        elif st[0] == 'w':
            sc += [b'ec C03qM%daz' % k, b'w' + st[1].encode(), b'ec C03qM%dbz' % k, b'w !sh s.sh %d' % (k + 1)]
        else:
            sc.append(b'w !sh a%d.sh' % k)
    tgt = b'' if case['tgt'] == 'f' else b' ' + case['tgt'].encode()
    sc += [b'w !sh s.sh c', b'ec ' + S1, case['cmd'].encode() + tgt, b'ec ' + S2, b'q', b'ec ' + ALIVE, b'q!']
    return b'\n'.join(sc) + b'\n'


def g_act_sh(acts, base):
    ls = ['cat > /dev/null']
    for k, (kind, name, stamp) in enumerate(acts):
        t = g_real_stamp(stamp, base) if stamp else 0
        if kind == 'write':
            ls.append("printf 'foreign %d\\nforeign %d\\nforeign %d\\n' > %s 2>/dev/null; touch -c -d @%d %s 2>/dev/null" % (k, k, k, name, t, name))
        elif kind == 'replace':
            ls.append("printf 'foreign %d\\nforeign %d\\nforeign %d\\n' > tmp.%d; touch -d @%d tmp.%d; mv -f tmp.%d %s" % (k, k, k, k, t, k, k, name))
        elif kind == 'touch':
            ls.append('touch -c -d @%d %s 2>/dev/null' % (t, name))
        elif kind == 'remove':
            ls.append('rm -f %s' % name)
    ls.append('true')
    return '\n'.join(ls) + '\n'


G_SNAP_SH = """cat > /dev/null
snap() { if [ -e "$1" ]; then stat -L -c %Y "$1" > "snap.$2.$1.m"; cat "$1" > "snap.$2.$1.c"; else echo absent > "snap.$2.$1.m"; fi; }
snap f $1
snap t $1
snap r $1
mkdir "dir.$1" && cp -P f t r l1 tr "dir.$1"/ 2>/dev/null
(wc -l < shim.log) > "snap.$1.nlog" 2>/dev/null
true
"""


def g_dirstate(d):
    """per name: ['L', target] | bytes | None"""
    out = []
    for n in GN:
        fp = os.path.join(d, n)
        if os.path.islink(fp):
            out.append(['L', os.readlink(fp)])
        elif os.path.exists(fp):
            out.append(open(fp, 'rb').read())
        else:
            out.append(None)
    return out


def g_run(vi, case, timeout=30):
    d = vlib.case_dir()
    base = int(time.time())
    links, files = g_layout(case)
    for n, (c, st) in files.items():
        with open(os.path.join(d, n), 'wb') as f:
            f.write(c)
        t = g_real_stamp(st, base)
        os.utime(os.path.join(d, n), (t, t))
    for n, tg in links.items():
        os.symlink(tg, os.path.join(d, n))
        os.utime(os.path.join(d, n), (base - 5000, base - 5000), follow_symlinks=False)
    with open(os.path.join(d, 's.sh'), 'w') as f:
        f.write(G_SNAP_SH)
    for k, st in enumerate(case['steps']):
        if st[0] == 'acts':
            with open(os.path.join(d, 'a%d.sh' % k), 'w') as f:
                f.write(g_act_sh(st[1], base))
    log = os.path.join(d, 'shim.log')
    env = {'PATH': '/usr/bin:/bin', 'HOME': d, 'EXINIT': '', 'TERM': 'xterm', 'LINES': '24', 'COLUMNS': '80',
           'LD_PRELOAD': build_shim(), 'NVSHIM_TARGETS': 'f:t:r:l1:tr', 'NVSHIM_LOG': log, 'NVSHIM_SCHED': ''}
    p = subprocess.Popen([vi, '-s', '-e', 'f'], stdin=subprocess.PIPE, stdout=subprocess.PIPE, stderr=subprocess.PIPE, cwd=d, env=env,
                         start_new_session=True)
    try:
        out, err = p.communicate(g_script(case), timeout=timeout)
        rc = p.returncode
    except subprocess.TimeoutExpired:
        try:
            os.killpg(p.pid, 9)
        except Exception:
            p.kill()
        out, err = p.communicate()
        rc = None

    def rd(n):
        fp = os.path.join(d, n)
        try:
            return open(fp, 'rb').read() if os.path.exists(fp) else None      # follows links, like the property's "file"
        except OSError:
            return None

    def snap(tag):
        sn = {}
        for n in ('f', 't', 'r'):
            m = rd('snap.%s.%s.m' % (tag, n))
            if m is None:
                return None
            m = m.strip()
            sn[n] = None if m == b'absent' else (int(m), rd('snap.%s.%s.c' % (tag, n)))
        nl = rd('snap.%s.nlog' % tag)
        sn['nlog'] = int(nl.split()[0]) if nl and nl.split() else 0
        return sn
    calls = []
    if os.path.exists(log):
        for l in open(log).read().split('\n'):
            w = l.split()
            if len(w) >= 4 and w[0] != '-':
                calls.append({'i': int(w[0]), 'op': w[1], 'name': w[-1]})
    import re
    okre = rb'"[^"]*"  \[=\d+\]  \[w\]'
    ob = {'rc': rc, 'hung': rc is None, 'crash': rc is None or rc < 0 or rc >= 100, 'after': g_dirstate(d), 'before': g_dirstate(os.path.join(d, 'dir.c')),
          'wafter': rd(case['tgt']), 'own': rd('f'), 'snap0': snap('0'), 'snapc': snap('c'), 'syncs': [], 'calls': calls}
    for k, st in enumerate(case['steps']):
        if st[0] == 'w':
            a, b = b'C03qM%daz' % k, b'C03qM%dbz' % k
            seg = out.split(a, 1)[1].split(b, 1)[0] if a in out and b in out else b'?'
            ok = bool(re.search(okre, seg)) and not re.sub(okre, b'', seg).strip()
            ob['syncs'].append((ok, snap('%d' % (k + 1))))
    shutil.rmtree(d, ignore_errors=True)
    seg = out.split(S1, 1)[1] if S1 in out else b''
    ob['ran'] = S1 in out
    ob['quit_by_cmd'] = S2 not in seg
    msg = seg.split(S2, 1)[0]
    ob['alive'] = ALIVE in seg
    rest = re.sub(okre, b'', msg)
    ob['cls'] = 'err' if rest.strip() else 'ok' if rest != msg else 'silent'
    ob['msg'] = msg[:120].decode('latin-1')
    return ob


def g_oracle(case, ob):
    """the first sentence of the property (and `success => exactly the lines`, `nothing lost`) on the observables"""
    if ob['crash']:
        return ['editor crashed or hung (rc=%s)' % ob['rc']]
    if not ob['ran'] or ob['snap0'] is None or ob['snapc'] is None:
        return []                                   # the session did not reach the command (reported by the comparison)
    bad = []
    cmd, W = case['cmd'], case['tgt']
    force = cmd.endswith('!')
    dirty, si = False, 0
    for st in case['steps']:
        if st[0] == 'edit':
            dirty = True
        elif st[0] == 'w':
            if ob['syncs'][si][0]:
                dirty = False                       # a successful :w of the whole buffer to its own name
            si += 1
    text = g_text_at(case)
    wrote_cmd = not (cmd in ('x', 'x!') and not dirty)
    # what the editor read or wrote last: the snapshot after the last successful :w of the session, else the one at load
    sync = ob['snap0']['f']
    for ok, sn in ob['syncs']:
        if ok and sn is not None:
            sync = sn['f']
    now = ob['snapc'][W]
    final_calls = ob['calls'][ob['snapc']['nlog']:]
    reported_ok = ob['cls'] == 'ok' or (ob['quit_by_cmd'] and wrote_cmd)
    why = None
    if now is not None and not force and wrote_cmd:
        if W == 't':
            why = 'exists and is not the file being edited'
        elif W == 'f' and sync is None:
            why = 'exists although the edited name denoted no file when the editor last read or wrote it'
        elif W == 'f' and now[0] > sync[0]:
            why = 'is newer (mtime %+d s) than when the editor last read or wrote it' % (now[0] - sync[0])
    if why:
        if ob['wafter'] != now[1]:
            bad.append('a write without ! replaced a file that ' + why)
        if ob['after'] != ob['before']:
            bad.append('a write without ! that had to be refused changed the directory (target %s)' % why)
        if reported_ok:
            bad.append('a write that had to be refused (target %s) was reported as success (message class %s, quit=%s)' % (why, ob['cls'], ob['quit_by_cmd']))
        if final_calls:
            bad.append('a write that had to be refused (target %s) still opened %s' % (why, final_calls[0]['name']))
    if reported_ok and wrote_cmd and ob['wafter'] != text:
        bad.append('the command reported success but the file does not hold exactly the written lines')
    if dirty and (ob['quit_by_cmd'] or not ob['alive']) and ob['own'] != text:
        bad.append('the editor quit (or a following :q was accepted) although the modified buffer is not in its file')
    return bad


def g_model_request(case):
    links, files = g_layout(case)
    ix = {n: i for i, n in enumerate(GN)}
    steps = ['E@0']
    text = GC0 if (case['own'] == 'present' and case['layout'] != 'loop') else b''
    for st in case['steps']:
        if st[0] == 'edit':
            text = st[1].encode() + b'\n' + text
            steps.append('T@' + vlib.hx(text))
        elif st[0] == 'w':
            steps.append('W@%s@0@-' % (st[1] or '-'))
        else:
            for k, (kind, name, stamp) in enumerate(st[1]):
                if kind in ('write', 'replace'):
                    steps.append('F@%s@%d@%s@%d' % (kind[0], ix[name], vlib.hx(g_act_content(k)), G_MODEL_STAMP[stamp]))
                elif kind == 'touch':
                    steps.append('F@t@%d@%d' % (ix[name], G_MODEL_STAMP[stamp]))
                else:
                    steps.append('F@d@%d' % ix[name])
    cmd = case['cmd']
    if cmd in ('w', 'w!'):
        steps.append('W@%s@%d@-' % ('!' if cmd.endswith('!') else '-', ix[case['tgt']]))
    else:
        steps.append('Q@' + cmd)
    return 'gs names=%d links=%s files=%s steps=%s' % (
        len(GN), ','.join('%d>%d' % (ix[a], ix[b]) for a, b in links.items()) or '-',
        ','.join('%d:%s:%d' % (ix[n], vlib.hx(c), G_MODEL_STAMP[st]) for n, (c, st) in files.items()) or '-', ';'.join(steps))


def g_compare(case, ob, mline):
    m = dict(p.split('=', 1) for p in mline.split(' '))
    diffs = []
    if not ob['ran']:
        return ['the session did not reach the command under test']
    mq = m['q'] == '1'
    if mq != ob['quit_by_cmd']:
        diffs.append('quit: model %s editor %s' % (mq, ob['quit_by_cmd']))
    if not mq and not ob['quit_by_cmd']:
        mst = 'ok' if m['st'] == 'ok' else 'err'
        if ob['cls'] != mst and not (ob['cls'] == 'silent' and case['cmd'] in ('x', 'x!')):
            diffs.append('message class: model %s (%s) editor %s (%r)' % (mst, m['st'], ob['cls'], ob['msg']))
        if (m['dirty'] == '1') != ob['alive']:
            diffs.append('following :q refused: model %s editor %s' % (m['dirty'] == '1', ob['alive']))
    for n, mv, rv in zip(GN, m['dir'].split(','), ob['after']):
        if mv.startswith('L'):
            mval = ['L', GN[int(mv[1:])]]
        else:
            mval = None if mv == 'absent' else vlib.unhx(mv)
        if mval != rv:
            diffs.append('name %s: model %s, editor %s' % (n, g_show(mval), g_show(rv)))
    return diffs


def g_show(v):
    if v is None:
        return 'absent'
    if isinstance(v, list):
        return 'link to ' + v[1]
    return '%d bytes %r' % (len(v), v[:24])


def g_case(layout, own, sync, acts, dirty, cmd, tgt='f', tlayout='absent'):
    steps = []
    if sync.startswith('wrote'):
        steps += [['edit', 'm1'], ['w', sync[5:]]]
    if dirty:
        steps.append(['edit', 'm2'])
    if acts:
        steps.append(['acts', [list(a) for a in acts]])
    return {'stream': 'guard', 'layout': layout, 'own': own, 'tlayout': tlayout, 'steps': steps, 'cmd': cmd, 'tgt': tgt}


def guard_cases():
    out = []
    for layout, own in (('reg', 'present'), ('reg', 'absent'), ('link', 'present'), ('link', 'absent'), ('chain', 'present'), ('chain', 'absent')):
        linked = layout != 'reg'
        actsets = [[], [('write', 'f', 'newer')], [('write', 'f', 'older')], [('replace', 'f', 'newer')], [('touch', 'f', 'newer')],
                   [('remove', 'f', None)], [('remove', 'f', None), ('write', 'f', 'newer2')]]
        if own == 'absent':
            actsets += [[('write', 'f', 'epoch')], [('replace', 'f', 'older')]]
        else:
            actsets += [[('touch', 'f', 'older')], [('write', 'f', 'newer'), ('touch', 'f', 'old')]]
        if linked:
            actsets += [[('replace', 'r', 'newer')], [('write', 'r', 'newer')], [('remove', 'r', None)]]
        if layout == 'chain':
            actsets += [[('replace', 'l1', 'newer')], [('remove', 'l1', None)]]
        for acts in actsets:
            for sync in ('read', 'wrote'):
                for cmd in ('w', 'w!', 'wq', 'x', 'xa'):
                    out.append(g_case(layout, own, sync, acts, True, cmd))
                if acts in ([], [('write', 'f', 'newer')], [('replace', 'f', 'newer')]):
                    for cmd in ('w', 'wq', 'x', 'xa'):
                        out.append(g_case(layout, own, sync, acts, False, cmd))
                    for cmd in ('wq!', 'xa!'):
                        out.append(g_case(layout, own, sync, acts, True, cmd))
    for sync in ('read', 'wrote', 'wrote!'):
        for cmd in ('w', 'w!', 'wq', 'x', 'xa'):
            out.append(g_case('loop', 'absent', sync, [], True, cmd))
    # another name
    for layout in ('reg', 'link'):
        for tl in ('absent', 'reg', 'epoch', 'link', 'dangling'):
            for acts in ([], [('write', 't', 'newer')], [('replace', 't', 'older')], [('remove', 't', None)], [('touch', 't', 'newer2')]):
                for cmd in ('w', 'w!'):
                    out.append(g_case(layout, 'present', 'read', acts, True, cmd, tgt='t', tlayout=tl))
    for sync in ('read', 'wrote'):
        for acts in ([], [('write', 'r', 'newer')]):
            for cmd in ('w', 'w!'):
                out.append(g_case('link', 'present', sync, acts, True, cmd, tgt='r'))
    return out


def guard_random(rng, n):
    """random sessions: layout, 1..3 rounds of (foreign operations | :w | :w! | edit), then the command"""
    out = []
    for _ in range(n):
        layout = rng.choice(['reg', 'link', 'link', 'chain'])
        own = rng.choice(['present', 'absent'])
        names = ['f'] if layout == 'reg' else ['f', 'f', 'r'] if layout == 'link' else ['f', 'f', 'r', 'l1']
        steps = []
        ne = 0
        for _r in range(rng.range(1, 4)):
            k = rng.below(10)
            if k < 5:
                acts = []
                for _a in range(rng.range(1, 3)):
                    kind = rng.choice(['write', 'write', 'replace', 'touch', 'remove'])
                    acts.append([kind, rng.choice(names), None if kind == 'remove' else rng.choice(['older', 'epoch', 'newer', 'newer', 'newer2'])])
                steps.append(['acts', acts])
            elif k < 7:
                steps.append(['w', rng.choice(['', '', '!'])])
            else:
                ne += 1
                steps.append(['edit', 'e%d' % ne])
        if rng.chance(3, 4):
            ne += 1
            steps.insert(rng.below(len(steps) + 1), ['edit', 'e%d' % ne])
        out.append({'stream': 'guard', 'layout': layout, 'own': own, 'tlayout': 'absent', 'steps': steps,
                    'cmd': rng.choice(['w', 'w', 'w!', 'wq', 'x', 'xa', 'wq!', 'xa!']), 'tgt': 'f'})
    return out


# ---------------------------------------------------------------------------------------------
# table stream: the overwrite guards over the buffer table bufs[] (coq/IoTableDefs.v).
#   2..5 open buffers (files a, b, c, d: loaded with :e / :e! in different orders, so that the write target is the
#   current buffer's own path, the alternate buffer `#`, a deeper slot, a name that is open nowhere (z), or a symbolic
#   link lb to an open buffer's file) x target state {as loaded, changed on disk since (newer), absent at load and still
#   absent, absent at load and created since, present at load and removed since; z: existing / epoch-dated / absent}
#   x {w, w!, a,bw, a,bw!, wq, wq!, x, x!, xa, xa!} [path] x current buffer modified or not, target buffer modified in
#   memory or not, current buffer in step by reading / by an earlier :w / by :e! (re-read).
# No fault injection.  Same machinery as the guard stream (foreign operations from inside the session, stamps by touch -d,
# snapshots by `:w !sh s.sh TAG %` -- the editor expands % and # itself, so the snapshot also records which path is the
# current and which the alternate one AS THE EDITOR SEES IT).  Oracle = the first sentence of the property on those
# observables: a write without ! to a path that exists and is not the current buffer's own file as last read / written
# (another buffer's path, a path open nowhere, the own path changed on disk or loaded as absent) must be refused with the
# file bytes and the whole directory unchanged, no success message, no quit, no open of any tracked name; also for the
# save loop of xa; success => exactly the lines; nothing lost when the editor is gone.  Model side = request `ts`.

TN = ['a', 'b', 'c', 'd', 'z', 'lb']
T_NLINES = {'a': 2, 'b': 3, 'c': 1, 'd': 4, 'z': 3}


def t_c0(name):
    return b''.join(b'%s%d\n' % (name.encode(), i) for i in range(T_NLINES[name]))


T_SNAP_SH = """cat > /dev/null
stat -L -c '%n %Y' a b c d z lb > "snap.$1.m" 2>/dev/null
mkdir "cont.$1" && cp -L a b c d z lb "cont.$1"/ 2>/dev/null
echo "$2" > "snap.$1.cur"
echo "$3" > "snap.$1.alt"
if [ "$1" = c ]; then mkdir dir.c && cp -P a b c d z lb dir.c/ 2>/dev/null; fi
(wc -l < shim.log) > "snap.$1.nlog" 2>/dev/null
true
"""


def t_cmdline(case):
    cmd, arg = case['cmd'], case.get('arg', '')
    tail = (b' ' + arg.encode()) if arg else b''
    if cmd.startswith('rw'):
        b, e = case['rng']
        return b'%d,%dw%s%s' % (b + 1, e, b'!' if cmd.endswith('!') else b'', tail)
    return cmd.encode() + tail


def t_script(case):
    two = [False]         # a second buffer has been opened for certain: `#` is set (else the expansion fails the command)

    def snap(tag):
        return [b'w !sh s.sh %s %% #' % tag if two[0] else b'w !sh s.sh %s %%' % tag]
    sc = snap(b'0')
    for k, st in enumerate(case['steps']):
        tag = b'%d' % (k + 1)
        if st[0] == 'e':
            sc.append((b'e! ' if st[2] else b'e ') + st[1].encode())
            if st[2] and st[1] not in ('a', '#', '%'):
                two[0] = True
            sc += snap(tag)
        elif st[0] == 'reload':
            sc.append(b'e!')
            sc += snap(tag)
        elif st[0] == 'edit':
            sc += [b'0a', st[1].encode(), b'.']
        elif st[0] == 'w':
            sc += [b'ec C03qM%daz' % k, (b'w' + st[1].encode() + b' ' + st[2].encode()).strip(), b'ec C03qM%dbz' % k]
            sc += snap(tag)
        else:
            sc.append(b'w !sh a%d.sh' % k)
    sc += snap(b'c')
    sc += [b'ec ' + S1, t_cmdline(case), b'ec ' + S2, b'q', b'ec ' + ALIVE, b'q!']
    return b'\n'.join(sc) + b'\n'


def t_dirstate(d):
    out = []
    for n in TN:
        fp = os.path.join(d, n)
        if os.path.islink(fp):
            out.append(['L', os.readlink(fp)])
        elif os.path.exists(fp):
            out.append(open(fp, 'rb').read())
        else:
            out.append(None)
    return out


def t_run(vi, case, timeout=30):
    import re
    d = vlib.case_dir()
    base = int(time.time())
    for n, st in case['files'].items():
        with open(os.path.join(d, n), 'wb') as f:
            f.write(t_c0(n))
        t = g_real_stamp(st, base)
        os.utime(os.path.join(d, n), (t, t))
    for n, tg in case.get('links', {}).items():
        os.symlink(tg, os.path.join(d, n))
        os.utime(os.path.join(d, n), (base - 5000, base - 5000), follow_symlinks=False)
    with open(os.path.join(d, 's.sh'), 'w') as f:
        f.write(T_SNAP_SH)
    for k, st in enumerate(case['steps']):
        if st[0] == 'acts':
            with open(os.path.join(d, 'a%d.sh' % k), 'w') as f:
                f.write(g_act_sh(st[1], base))
    log = os.path.join(d, 'shim.log')
    env = {'PATH': '/usr/bin:/bin', 'HOME': d, 'EXINIT': '', 'TERM': 'xterm', 'LINES': '24', 'COLUMNS': '80',
           'LD_PRELOAD': build_shim(), 'NVSHIM_TARGETS': ':'.join(TN), 'NVSHIM_LOG': log, 'NVSHIM_SCHED': ''}
    p = subprocess.Popen([vi, '-s', '-e', 'a'], stdin=subprocess.PIPE, stdout=subprocess.PIPE, stderr=subprocess.PIPE, cwd=d, env=env,
                         start_new_session=True)
    try:
        out, err = p.communicate(t_script(case), timeout=timeout)
        rc = p.returncode
    except subprocess.TimeoutExpired:
        try:
            os.killpg(p.pid, 9)
        except Exception:
            p.kill()
        out, err = p.communicate()
        rc = None

    def rd(n):
        fp = os.path.join(d, n)
        try:
            return open(fp, 'rb').read() if os.path.exists(fp) else None
        except OSError:
            return None

    def snap(tag):
        ms = rd('snap.%s.m' % tag)
        if ms is None or rd('snap.%s.cur' % tag) is None:
            return None
        sn = {n: None for n in TN}
        for l in ms.decode('latin-1').split('\n'):
            w = l.split()
            if len(w) == 2 and w[0] in sn:
                sn[w[0]] = (int(w[1]), rd(os.path.join('cont.%s' % tag, w[0])))
        nl = rd('snap.%s.nlog' % tag)
        sn['nlog'] = int(nl.split()[0]) if nl and nl.split() else 0
        cur, alt = rd('snap.%s.cur' % tag), rd('snap.%s.alt' % tag)
        sn['cur'] = cur.strip().decode('latin-1') if cur else None
        sn['alt'] = alt.strip().decode('latin-1') if alt and alt.strip() else None
        return sn
    calls = []
    if os.path.exists(log):
        for l in open(log).read().split('\n'):
            w = l.split()
            if len(w) >= 4 and w[0] != '-':
                calls.append({'i': int(w[0]), 'op': w[1], 'name': w[-1]})
    okre = rb'"[^"]*"  \[=\d+\]  \[w\]'
    ob = {'rc': rc, 'hung': rc is None, 'crash': rc is None or rc < 0 or rc >= 100, 'base': base, 'after': t_dirstate(d),
          'before': t_dirstate(os.path.join(d, 'dir.c')) if os.path.isdir(os.path.join(d, 'dir.c')) else None,
          'files_after': {n: rd(n) for n in TN}, 'snaps': {'0': snap('0'), 'c': snap('c')}, 'wok': {}, 'calls': calls}
    for k, st in enumerate(case['steps']):
        if st[0] in ('e', 'reload', 'w'):
            ob['snaps']['%d' % (k + 1)] = snap('%d' % (k + 1))
        if st[0] == 'w':
            a, b = b'C03qM%daz' % k, b'C03qM%dbz' % k
            seg = out.split(a, 1)[1].split(b, 1)[0] if a in out and b in out else b'?'
            ob['wok'][k] = bool(re.search(okre, seg)) and not re.sub(okre, b'', seg).strip()
    shutil.rmtree(d, ignore_errors=True)
    seg = out.split(S1, 1)[1] if S1 in out else b''
    ob['ran'] = S1 in out
    ob['quit_by_cmd'] = S2 not in seg
    msg = seg.split(S2, 1)[0]
    ob['alive'] = ALIVE in seg
    rest = re.sub(okre, b'', msg)
    ob['cls'] = 'err' if rest.strip() else 'ok' if rest != msg else 'silent'
    ob['msg'] = msg[:120].decode('latin-1')
    return ob


def t_track(case, ob):
    """what the session's snapshots say about every buffer that was opened: name -> {'text', 'dirty', 'sync'}
    (sync = snapshot entry (mtime, bytes) | None of the buffer's own file when the editor last read it or wrote the
    buffer to it); also the current / alternate path right before the command.  None if a snapshot is missing."""
    s0 = ob['snaps'].get('0')
    if s0 is None or ob['snaps'].get('c') is None or not s0['cur']:
        return None
    bufs = {}

    def load(n, sn):
        bufs[n] = {'text': sn[n][1] if sn.get(n) else b'', 'dirty': False, 'sync': sn.get(n)}
    cur, alt = s0['cur'], s0['alt']
    if cur not in TN:
        return None
    load(cur, s0)
    for k, st in enumerate(case['steps']):
        sn = ob['snaps'].get('%d' % (k + 1))
        if st[0] in ('e', 'reload', 'w') and (sn is None or sn['cur'] not in TN):
            return None
        if st[0] == 'e':
            if sn['cur'] not in bufs:
                load(sn['cur'], sn)
            cur, alt = sn['cur'], sn['alt']
        elif st[0] == 'reload':
            if sn.get(cur):
                bufs[cur]['text'] = sn[cur][1]
            bufs[cur]['dirty'] = False
            bufs[cur]['sync'] = sn.get(cur)
        elif st[0] == 'edit':
            bufs[cur]['text'] = st[1].encode() + b'\n' + bufs[cur]['text']
            bufs[cur]['dirty'] = True
        elif st[0] == 'w':
            W = cur if st[2] in ('', '%') else alt if st[2] == '#' else st[2]
            if ob['wok'].get(k) and W == cur:
                bufs[cur]['dirty'] = False
                bufs[cur]['sync'] = sn.get(cur)
    sc = ob['snaps']['c']
    if sc['cur'] != cur:
        return None
    return {'bufs': bufs, 'cur': cur, 'alt': sc['alt']}


def t_oracle(case, ob):
    if ob['crash']:
        return ['editor crashed or hung (rc=%s)' % ob['rc']]
    if not ob['ran']:
        return []
    tr = t_track(case, ob)
    if tr is None or ob['before'] is None:
        return []                                   # the session did not get that far (reported by the comparison)
    bad = []
    cmd, arg = case['cmd'], case.get('arg', '')
    force = cmd.endswith('!')
    bufs, cur = tr['bufs'], tr['cur']
    W = cur if arg in ('', '%') else tr['alt'] if arg == '#' else arg
    sc = ob['snaps']['c']
    dirty = bufs[cur]['dirty']
    text = bufs[cur]['text']
    wrote_cmd = W is not None and not (cmd[0] == 'x' and not dirty)
    final_calls = ob['calls'][sc['nlog']:]
    reported_ok = ob['cls'] == 'ok' or (ob['quit_by_cmd'] and wrote_cmd)
    want = text
    if cmd.startswith('rw'):
        b, e = case['rng']
        want = b''.join(lines_of(text)[b:e])

    def why_protected(n, own):
        """the file named n exists right before the command and is not what buffer `own` read or wrote last"""
        now = sc.get(n)
        if now is None:
            return None
        if own is None:
            return 'exists and is not the current buffer\'s own path%s' % (
                ' (it is the path of another open buffer)' if n in bufs else ' (it is open in no buffer)')
        sync = bufs[own]['sync']
        if sync is None:
            return 'exists although the name denoted no file when the buffer was loaded'
        if now[0] > sync[0]:
            return 'is newer (mtime %+d s) than when the editor last read or wrote it' % (now[0] - sync[0])
        return None
    why = None
    if wrote_cmd and not force and W in TN:
        why = why_protected(W, cur if W == cur else None)
    if why:
        if ob['files_after'][W] != sc[W][1]:
            bad.append('a write without ! replaced a file that ' + why)
        if ob['after'] != ob['before']:
            bad.append('a write without ! that had to be refused changed the directory (target %s)' % why)
        if reported_ok:
            bad.append('a write that had to be refused (target %s) was reported as success (message class %s, quit=%s)' % (why, ob['cls'], ob['quit_by_cmd']))
        if final_calls:
            bad.append('a write that had to be refused (target %s) still opened %s' % (why, final_calls[0]['name']))
    if 'a' in cmd and not force:
        # the save loop of xa: every buffer with its own record
        for n in sorted(bufs):
            w2 = why_protected(n, n)
            if w2:
                if ob['files_after'][n] != sc[n][1]:
                    bad.append('xa without ! replaced the file of buffer %s that %s' % (n, w2))
                if ob['quit_by_cmd']:
                    bad.append('xa without ! quit although the file of buffer %s %s' % (n, w2))
    if reported_ok and wrote_cmd and W in TN and not ('a' in cmd and W != cur) and ob['files_after'][W] != want:
        bad.append('the command reported success but the file does not hold exactly the written lines')
    if not force and (ob['quit_by_cmd'] or not ob['alive']):
        for n in sorted(bufs):
            if bufs[n]['dirty'] and ob['files_after'][n] != bufs[n]['text']:
                bad.append('the editor quit (or a following :q was accepted) although the modified buffer %s is not in its file' % n)
    return bad


def t_ambiguous(case, ob):
    """a buffer whose recorded stamp and whose file's present stamp both come from the editor's own writes during this
    session but in different seconds: the model writes everything at one instant, the comparison would depend on the clock"""
    tr = t_track(case, ob)
    if tr is None:
        return True
    lo, hi = ob['base'] - 2, ob['base'] + 600
    sc = ob['snaps']['c']
    for n, b in tr['bufs'].items():
        if b['sync'] and sc.get(n) and lo <= b['sync'][0] <= hi and lo <= sc[n][0] <= hi and b['sync'][0] != sc[n][0]:
            return True
    return False


def t_model_request(case):
    ix = {n: i for i, n in enumerate(TN)}

    def a_of(a):
        return '-' if a == '' else a if a in ('%', '#') else str(ix[a])
    steps = ['E@0@0']
    for st in case['steps']:
        if st[0] == 'e':
            steps.append('E@%s@%d' % (a_of(st[1]), 1 if st[2] else 0))
        elif st[0] == 'reload':
            steps.append('E@-@1')
        elif st[0] == 'edit':
            steps.append('P@' + vlib.hx(st[1].encode() + b'\n'))
        elif st[0] == 'w':
            steps.append('W@%s@%s@-' % (st[1] or '-', a_of(st[2])))
        else:
            for k, (kind, name, stamp) in enumerate(st[1]):
                if kind in ('write', 'replace'):
                    steps.append('F@%s@%d@%s@%d' % (kind[0], ix[name], vlib.hx(g_act_content(k)), G_MODEL_STAMP[stamp]))
                elif kind == 'touch':
                    steps.append('F@t@%d@%d' % (ix[name], G_MODEL_STAMP[stamp]))
                else:
                    steps.append('F@d@%d' % ix[name])
    cmd, arg = case['cmd'], case.get('arg', '')
    if cmd in ('w', 'w!', 'rw', 'rw!'):
        steps.append('W@%s@%s@%s' % ('!' if cmd.endswith('!') else '-', a_of(arg), '%d,%d' % tuple(case['rng']) if cmd.startswith('rw') else '-'))
    else:
        steps.append('Q@%s@%s' % (cmd, a_of(arg)))
    return 'ts names=%d links=%s files=%s steps=%s' % (
        len(TN), ','.join('%d>%d' % (ix[a], ix[b]) for a, b in case.get('links', {}).items()) or '-',
        ','.join('%d:%s:%d' % (ix[n], vlib.hx(t_c0(n)), G_MODEL_STAMP[st]) for n, st in case['files'].items()) or '-', ';'.join(steps))


def t_compare(case, ob, mline):
    m = dict(p.split('=', 1) for p in mline.split(' '))
    diffs = []
    if not ob['ran'] or ob['snaps'].get('c') is None:
        return ['the session did not reach the command under test']
    sc = ob['snaps']['c']
    mcur = TN[int(m['pcur'])] if m['pcur'] != '-' else None
    malt = TN[int(m['palt'])] if m['palt'] != '-' else None
    if mcur != sc['cur'] or malt != sc['alt']:
        diffs.append('current / alternate path before the command: model %s / %s, editor %s / %s' % (mcur, malt, sc['cur'], sc['alt']))
    mq = m['q'] == '1'
    if mq != ob['quit_by_cmd']:
        diffs.append('quit: model %s editor %s' % (mq, ob['quit_by_cmd']))
    if not mq and not ob['quit_by_cmd']:
        mst = 'ok' if m['st'] == 'ok' else 'err'
        if ob['cls'] != mst and not (ob['cls'] == 'silent' and case['cmd'][0] == 'x'):
            diffs.append('message class: model %s (%s) editor %s (%r)' % (mst, m['st'], ob['cls'], ob['msg']))
        if (m['dirty'] == '1') != ob['alive']:
            diffs.append('following :q refused: model %s editor %s' % (m['dirty'] == '1', ob['alive']))
    for n, mv, rv in zip(TN, m['dir'].split(','), ob['after']):
        if mv.startswith('L'):
            mval = ['L', TN[int(mv[1:])]]
        else:
            mval = None if mv == 'absent' else vlib.unhx(mv)
        if mval != rv:
            diffs.append('name %s: model %s, editor %s' % (n, g_show(mval), g_show(rv)))
    return diffs


T_SHAPES = {
    # how the buffers are opened (the editor starts on a): the table afterwards, current buffer first
    'a|b': [['e', 'b', True], ['e', 'a', True]],
    'a|c|b': [['e', 'b', True], ['e', 'c', True], ['e', 'a', True]],
    'a|d|c|b': [['e', 'b', True], ['e', 'c', True], ['e', 'd', True], ['e', 'a', True]],
    'c|b|a': [['e', 'b', True], ['e', 'c', True]],
    'b|a (by e #)': [['e', 'b', True], ['e', 'a', True], ['e', '#', True]],
}
T_TABLE = {'a|b': ['a', 'b'], 'a|c|b': ['a', 'c', 'b'], 'a|d|c|b': ['a', 'd', 'c', 'b'], 'c|b|a': ['c', 'b', 'a'], 'b|a (by e #)': ['b', 'a']}


def t_case(shape, tk, spell, state, cmd, dirty, tdirty=False, sync='read', early=False, noarg=False):
    """tk = which slot the target is: cur | alt | deep | notopen | link ; spell = how the command names it"""
    table = T_TABLE[shape]
    cur = table[0]
    tname = {'cur': cur, 'alt': table[1], 'deep': table[-1], 'notopen': 'z', 'link': 'lb'}[tk]
    files = {n: 'old' for n in table}
    links = {}
    acts = []
    if tk == 'notopen':
        if state in ('exists', 'epoch'):
            files['z'] = 'older2' if state == 'exists' else 'epoch'
    elif tk == 'link':
        links['lb'] = table[-1]
    else:
        if state in ('absent', 'created'):
            del files[tname]
        if state == 'created':
            acts = [['write', tname, 'newer']]
        elif state == 'newer':
            acts = [['write', tname, 'newer']]
        elif state == 'touched':
            acts = [['touch', tname, 'newer']]
        elif state == 'newer, yet older than the other buffers\' files':
            files[tname] = 'older2'
            acts = [['write', tname, 'older']]
        elif state == 'removed':
            acts = [['remove', tname, None]]
    steps = [list(s) for s in T_SHAPES[shape]]
    if tdirty and tk in ('alt', 'deep'):
        # the target buffer is modified in memory: edit it right after it was loaded
        i = [k for k, s in enumerate(steps) if s[0] == 'e' and s[1] == tname]
        steps.insert(i[0] + 1 if i else 0, ['edit', 'tm'])          # (a is loaded by the command line)
    if sync == 'wrote':
        steps += [['edit', 'm1'], ['w', '!', '']]
    elif sync == 'reload':
        steps += [['edit', 'm1'], ['reload']]
    if early and acts and steps and steps[-1][0] == 'e':
        # the foreign operation happens while ANOTHER buffer is the current one, before the last switch
        steps.insert(len(steps) - 1, ['acts', acts])
        acts = []
    if dirty:
        steps.append(['edit', 'm2'])
    if acts:
        steps.append(['acts', acts])
    arg = '' if noarg else {'none': '', '%': '%', '#': '#', 'name': tname}[spell]      # (noarg: the slot's file is only met by the save loop of xa)
    c = {'stream': 'table', 'shape': shape, 'slot': tk, 'state': state, 'files': files, 'links': links, 'steps': steps, 'cmd': cmd, 'arg': arg}
    if cmd.startswith('rw'):
        c['rng'] = [0, 1]
    return c


def table_cases():
    out = []
    CM = ['w', 'w!', 'rw', 'rw!', 'wq', 'wq!', 'x', 'x!']
    for shape in T_SHAPES:
        n = len(T_TABLE[shape])
        targets = [('cur', 'none'), ('alt', '#'), ('alt', 'name'), ('notopen', 'name')]
        if shape in ('a|b', 'c|b|a'):
            targets += [('cur', '%'), ('cur', 'name')]
        if n > 2:
            targets.append(('deep', 'name'))
        if shape in ('a|b', 'a|c|b'):
            targets.append(('link', 'name'))
        for tk, spell in targets:
            if tk == 'notopen':
                states = ['exists', 'epoch', 'absent']
            elif tk == 'link':
                states = ['as loaded']
            else:
                states = ['as loaded', 'newer', 'absent', 'created', 'removed']
                if tk == 'cur' and spell == 'none':
                    states.append('touched')
            for state in states:
                for cmd in CM + (['xa', 'xa!'] if shape in ('a|c|b', 'c|b|a') and spell != '%' else []):
                    if cmd.startswith('rw') and shape == 'a|d|c|b':
                        continue
                    out.append(t_case(shape, tk, spell, state, cmd, True))
                if state in ('as loaded', 'newer', 'exists', 'created'):
                    for cmd in ('w', 'x', 'wq'):
                        out.append(t_case(shape, tk, spell, state, cmd, False))
                if tk in ('alt', 'deep') and state in ('as loaded', 'newer') and spell in ('#', 'name'):
                    for cmd in ('w', 'w!', 'wq', 'x', 'xa'):
                        out.append(t_case(shape, tk, spell, state, cmd, True, tdirty=True))
        # the current buffer in step by an earlier :w! / by :e! (re-read), its own file or another slot's file as target
        for sync in ('wrote', 'reload'):
            for tk, spell, state in (('cur', 'none', 'as loaded'), ('cur', 'none', 'newer'), ('cur', 'none', 'removed'), ('alt', '#', 'as loaded'),
                                     ('alt', 'name', 'newer')):
                for cmd in ('w', 'w!', 'wq', 'x', 'xa'):
                    out.append(t_case(shape, tk, spell, state, cmd, True, sync=sync))
        # a file that is newer than ITS buffer remembers but older than what the other slots remember
        low = 'newer, yet older than the other buffers\' files'
        for tk, spell in (('cur', 'none'), ('alt', '#'), ('alt', 'name')) + ((('deep', 'name'),) if n > 2 else ()):
            for cmd in ('w', 'wq', 'x', 'xa', 'xa!'):
                out.append(t_case(shape, tk, spell, low, cmd, True))
                if tk != 'cur' and cmd != 'w':
                    out.append(t_case(shape, tk, spell, low, cmd, True, tdirty=True))
                if tk != 'cur' and spell == 'name' and 'a' in cmd:
                    for st in (low, 'newer', 'created', 'as loaded'):
                        for td in (False, True):
                            out.append(t_case(shape, tk, spell, st, cmd, True, tdirty=td, noarg=True))
                            out.append(t_case(shape, tk, spell, st, cmd, False, tdirty=td, noarg=True))
        # the file of a buffer changes on disk while the buffer is in the background; then the editor switches to it
        if shape != 'c|b|a':
            for state in ('newer', 'created', 'touched'):
                for cmd in ('w', 'w!', 'wq', 'x', 'xa'):
                    out.append(t_case(shape, 'cur', 'none', state, cmd, True, early=True))
    # one buffer only: `#` is not set
    for cmd in ('w', 'w!', 'wq', 'x'):
        out.append({'stream': 'table', 'shape': 'a', 'slot': 'alt', 'state': 'not set', 'files': {'a': 'old', 'b': 'old'}, 'links': {},
                    'steps': [['edit', 'm2']], 'cmd': cmd, 'arg': '#'})
    # an earlier forced write from ANOTHER buffer made a buffer's file newer than that buffer remembers: its own :w / :wq / :xa
    for cmd in ('w', 'w!', 'wq', 'x', 'xa'):
        out.append({'stream': 'table', 'shape': 'b|a', 'slot': 'cur', 'state': 'overwritten from another buffer', 'files': {'a': 'old', 'b': 'old'}, 'links': {},
                    'steps': [['e', 'b', True], ['e', 'a', True], ['edit', 'm1'], ['w', '!', 'b'], ['e', 'b', True], ['edit', 'm2']], 'cmd': cmd, 'arg': ''})
        out.append({'stream': 'table', 'shape': 'a|b', 'slot': 'alt', 'state': 'overwritten from another buffer', 'files': {'a': 'old', 'b': 'old'}, 'links': {},
                    'steps': [['e', 'b', True], ['e', 'a', True], ['edit', 'm1'], ['w', '!', '#'], ['w', '!', '']], 'cmd': cmd, 'arg': ''})
    return out


def table_random(rng, n):
    """random sessions over the table: 1..4 more buffers opened in random order, edits, earlier writes, foreign operations,
    re-reads, then a random write command with a random path argument"""
    out = []
    for _ in range(n):
        pool = ['a'] + [x for x in ('b', 'c', 'd') if rng.chance(2, 3)]
        if len(pool) == 1:
            pool.append('b')
        files = {x: 'old' for x in pool if x == 'a' or rng.chance(4, 5)}
        links = {}
        if rng.chance(1, 2):
            files['z'] = rng.choice(['older2', 'epoch', 'old'])
        if rng.chance(1, 4):
            links['lb'] = rng.choice(pool)
        steps = []
        ne = 0
        for x in pool[1:]:
            steps.append(['e', x, True])
            if rng.chance(1, 3):
                ne += 1
                steps.append(['edit', 'e%d' % ne])
        for _r in range(rng.range(1, 5)):
            k = rng.below(12)
            if k < 4:
                steps.append(['e', rng.choice(pool + ['#']), rng.chance(3, 4)])
            elif k < 7:
                ne += 1
                steps.append(['edit', 'e%d' % ne])
            elif k < 9:
                acts = []
                for _a in range(rng.range(1, 3)):
                    kind = rng.choice(['write', 'write', 'replace', 'touch', 'remove'])
                    acts.append([kind, rng.choice(pool + ['z']), None if kind == 'remove' else rng.choice(['older', 'epoch', 'newer', 'newer', 'newer2'])])
                steps.append(['acts', acts])
            elif k < 11:
                # an earlier :w of the session; a forced write to another open buffer's path would make the clock visible
                # (two writes of the editor in different seconds), so `!` only goes with the own path or z
                a = rng.choice(['', '', '%', '#', 'z'] + pool)
                steps.append(['w', '!' if (a in ('', '%', 'z') and rng.chance(1, 2)) else '', a])
            else:
                steps.append(['reload'])
        cmd = rng.choice(['w', 'w', 'w!', 'rw', 'rw!', 'wq', 'wq!', 'x', 'x!', 'xa', 'xa!'])
        c = {'stream': 'table', 'shape': 'random', 'slot': 'random', 'state': 'random', 'files': files, 'links': links, 'steps': steps, 'cmd': cmd,
             'arg': rng.choice(['', '', '%', '#', '#', 'z', 'lb' if links else 'z'] + pool)}
        if cmd.startswith('rw'):
            c['steps'].append(['edit', 'er'])
            c['rng'] = [0, 1]
        out.append(c)
    return out


def run(ctx):
    res = ctx.res
    rng = ctx.rng
    vi = vlib.build_vi()
    build_shim()
    model = ctx.model('io')
    res.rule = ('one evaluation = one (command, buffer size, dirty?, target state, fault) run of the real editor under the shim; faults = every call index of the '
                'dry-run sequence x {ENOSPC, EIO, EINTR, short 1, short n-1}, plus 2-5 consecutive faults inside one write batch (short counts then errors); '
                'cases = single commands, multi-command histories (writes to another path / range / filter before the guarded write), two buffers; non-trivial = a fault was injected and consumed, or a guard case; distinct = distinct (case, fault).  '
                'Guard stream: one evaluation = one editor session (name layout x foreign operations between the last read / :w and the command x command), all non-trivial.  '
                'Table stream: one evaluation = one editor session with 1-5 open buffers (order of loading x which slot the write target is x state of the target file x command [path]), all non-trivial')
    work = []          # (case, sched)
    gwork = []         # cases of the guard stream (no faults)
    twork = []         # cases of the table stream (several buffers, no faults)
    awork = []         # sessions of the autowrite stream (tools/props/c03_aw.py: whole histories with :se aw / noaw)
    if ctx.replay:
        rp = json.load(open(ctx.replay))
        inp = rp.get('input') or {}
        if 'case' in inp and inp['case'].get('stream') == 'guard':
            gwork.append(inp['case'])
        elif 'case' in inp and inp['case'].get('stream') == 'table':
            twork.append(inp['case'])
        elif 'case' in inp and inp['case'].get('stream') == 'aw':
            awork.append(inp['case'])
        elif 'case' in inp:
            work.append((inp['case'], [tuple(s) for s in inp.get('sched', [])]))
    else:
        cdir = os.path.join(vlib.VERIF, 'corpus')
        for fn in sorted(os.listdir(cdir)):
            if fn.startswith('C03-') and fn.endswith('.json'):
                c = json.load(open(os.path.join(cdir, fn)))
                c = c.get('input', c)
                if c['case'].get('stream') == 'guard':
                    gwork.append(c['case'])
                elif c['case'].get('stream') == 'table':
                    twork.append(c['case'])
                elif c['case'].get('stream') == 'aw':
                    awork.append(c['case'])
                else:
                    work.append((c['case'], [tuple(s) for s in c.get('sched', [])]))
        gwork += guard_cases()
        gwork += guard_random(rng.fork('guard sessions'), 160 if ctx.quick else 3000)
        tcs = table_cases()
        ctx.res.extra['table_stream_structured_sessions_enumerated'] = len(tcs)
        if ctx.quick:
            # stratified: at most 45 sessions from every (slot of the target, state of the target) stratum, all of them in the thorough tier
            tstrata = {}
            for c in tcs:
                tstrata.setdefault((c['slot'], c['state']), []).append(c)
            tcs = []
            for k in sorted(tstrata):
                xs = tstrata[k]
                rng.fork('table ' + repr(k)).shuffle(xs)
                tcs += xs[:45]
        twork += tcs
        twork += table_random(rng.fork('table sessions'), 200 if ctx.quick else 4000)
        from props import c03_aw
        acs = c03_aw.a_cases()
        ctx.res.extra['autowrite_stream_structured_sessions_enumerated'] = len(acs)
        awork += c03_aw.a_quick_sample(acs, rng, 2) if ctx.quick else acs
        awork += c03_aw.a_random(rng.fork('autowrite sessions'), 120 if ctx.quick else 3000)
        bases = base_cases()
        dry = vlib.pmap(lambda c: run_case(vi, c, []), bases)
        strata = {}        # (command, history kind, single/multi fault) -> schedules
        n1 = n2 = 0
        for c, ob in zip(bases, dry):
            work.append((c, []))
            one_f, multi_f = faults_for(ob['calls'])
            hk = 'history' if c.get('pre') else 'several buffers' if c.get('bufs') else 'single'
            if c['cmd'] == 'wqchain':
                continue
            for f in one_f:
                strata.setdefault((c['cmd'], hk, 1), []).append((c, f))
            for f in multi_f:
                strata.setdefault((c['cmd'], hk, 2), []).append((c, f))
            n1 += len(one_f)
            n2 += len(multi_f)
        res.extra['base_cases'] = len(bases)
        res.extra['enumerated_single_fault_schedules'] = n1
        res.extra['enumerated_multi_fault_schedules'] = n2
        allf = []
        if ctx.quick:
            # stratified: the same quota from every (command, history kind, single/multi) stratum
            keys = sorted(strata)
            quota = max(1, 640 // max(1, len(keys)))
            for k in keys:
                xs = strata[k]
                rng.fork(repr(k)).shuffle(xs)
                allf += xs[:quota]
        else:
            for k in sorted(strata):
                allf += strata[k]
        work += allf

    def one(w):
        case, sched = w
        ob = run_case(vi, case, sched)
        if ob['crash']:
            ob = run_case(vi, case, sched, timeout=60)
        ob_r = None
        # the forced retry is meaningful after a transient error only (one error in the schedule), single buffer
        if any(c['err'] for c in ob['calls']) and not ob['crash'] and not case.get('bufs') and sum(1 for f in sched if f[1] == 'err') <= 1:
            ob_r = run_case(vi, case, sched, retry=True)
        return ob, ob_r
    obs = vlib.pmap(one, work)
    reqs = []
    for case, sched in work:
        words = sched_words(sched)
        reqs.append(model_request(case, words))
    out_m = None
    if model:
        from props import c01
        rc, out_m, err = c01.run_model(model, reqs)
        if rc != 0 or len(out_m) != len(reqs):
            res.disagree({'what': 'model driver failed: rc=%d, %d answers for %d requests' % (rc, len(out_m), len(reqs)), 'stderr': err[-800:]})
            out_m = None
    for i, ((case, sched), (ob, ob_r)) in enumerate(zip(work, obs)):
        res.evaluations += 1
        res.count('cmd ' + case['cmd'])
        res.count('size ' + case['size'])
        res.count('target %s/%s' % (case['tgt'], case['own'] if case['tgt'] == 'own' else case['other']))
        if case.get('pre'):
            res.count('history: ' + ' / '.join(case['pre']))
        if case.get('bufs'):
            res.count('background buffers with %s lines' % '/'.join(str(e['n']) for e in case['bufs']))
        if len(sched) == 1:
            k = sched[0]
            res.count('fault ' + (('err %d' % k[2]) if k[1] == 'err' else ('short ' + ('1' if k[2] == 1 else 'n-1'))))
            op = [c['op'] for c in ob['calls'] if c['i'] == k[0]]
            res.count('fault at ' + (op[0] if op else 'unreached'))
        elif sched:
            res.count('multi-fault: ' + ','.join(f[1] for f in sched))
        if (sched and any(c['i'] == sched[0][0] for c in ob['calls'])) or case['own'] == 'newer' or case['other'] != 'absent':
            res.nontriv(i)
        bad = oracle(case, sched, ob, ob_r)
        if bad:
            res.violation({'what': bad[0], 'all': bad, 'input': {'case': case, 'sched': [list(s) for s in sched]},
                           'expected': {'file': clip(want_of(case))},
                           'observed': {'class': ob['cls'], 'message': ob['msg'], 'quit_by_command': ob['quit_by_cmd'], 'q_refused': ob['alive'],
                                        'own': clip(ob['own']), 'other': clip(ob['other']), 'calls': ob['calls'][:12]},
                           'script': script_of(case).decode('latin-1')})
            continue
        if out_m is not None:
            diffs = compare(case, ob, out_m[i])
            if diffs:
                res.disagree({'what': 'model and editor differ: ' + '; '.join(diffs), 'input': {'case': case, 'sched': [list(s) for s in sched]},
                              'model': out_m[i][:300], 'implementation': {'class': ob['cls'], 'message': ob['msg'], 'quit': ob['quit_by_cmd'], 'alive': ob['alive'],
                                                                          'calls': ob['calls'][:12]}})
        if i % 97 == 0:
            res.sample({'case': case, 'sched': [list(s) for s in sched], 'class': ob['cls'], 'quit': ob['quit_by_cmd'], 'q_refused': ob['alive'], 'calls': len(ob['calls'])})
    res.extra['editor_runs'] = len(work)
    run_guard(ctx, vi, model, gwork)
    run_table(ctx, vi, model, twork)
    from props import c03_aw
    c03_aw.run_aw(ctx, vi, model, awork)


def run_guard(ctx, vi, model, gwork):
    """the guard stream: editor sessions with foreign writers; oracle on the snapshots, comparison with the model"""
    res = ctx.res
    if not gwork:
        return

    def one(case):
        ob = g_run(vi, case)
        if ob['crash']:
            ob = g_run(vi, case, timeout=90)
        return ob
    obs = vlib.pmap(one, gwork)
    out_m = None
    if model:
        from props import c01
        reqs = [g_model_request(c) for c in gwork]
        rc, out_m, err = c01.run_model(model, reqs)
        if rc != 0 or len(out_m) != len(reqs):
            res.disagree({'what': 'model driver failed on the guard stream: rc=%d, %d answers for %d requests' % (rc, len(out_m), len(reqs)), 'stderr': err[-800:]})
            out_m = None
    nref = 0
    for i, (case, ob) in enumerate(zip(gwork, obs)):
        res.evaluations += 1
        acts = [a for st in case['steps'] if st[0] == 'acts' for a in st[1]]
        res.count('guard cmd ' + case['cmd'])
        res.count('guard name: %s, %s at load' % ({'reg': 'regular', 'link': 'symbolic link', 'chain': 'chain of two links', 'loop': 'link loop'}[case['layout']], case['own']))
        res.count('guard target: ' + ('own name' if case['tgt'] == 'f' else 'the real file behind the edited link' if case['tgt'] == 'r' else 'other name (%s)' % case['tlayout']))
        res.count('guard foreign: ' + (' + '.join('%s %s%s' % (k, n, ' ' + s if s else '') for k, n, s in acts) if len(acts) <= 2 else '%d operations' % len(acts) if acts else 'nothing'))
        if any(st[0] == 'w' for st in case['steps']):
            res.count('guard: session with an earlier :w of the buffer')
        if ob['cls'] == 'err' and not ob['quit_by_cmd']:
            nref += 1
        res.nontriv('g%d' % i)
        bad = g_oracle(case, ob)
        if bad:
            res.violation({'what': bad[0], 'all': bad, 'input': {'case': case},
                           'expected': {'refused': True, 'directory': [g_show(v) for v in ob['before']]} if 'refused' in bad[0] or 'without !' in bad[0] else {'file': clip(g_text_at(case))},
                           'observed': {'class': ob['cls'], 'message': ob['msg'], 'quit_by_command': ob['quit_by_cmd'], 'q_refused': ob['alive'],
                                        'directory': [g_show(v) for v in ob['after']], 'snapshot_at_load': g_snapshow(ob['snap0']), 'snapshot_before_command': g_snapshow(ob['snapc'])},
                           'script': g_script(case).decode('latin-1'),
                           'layout': {'links': g_layout(case)[0], 'files': {n: st for n, (c, st) in g_layout(case)[1].items()}}})
            continue
        if out_m is not None:
            diffs = g_compare(case, ob, out_m[i])
            if diffs:
                res.disagree({'what': 'model and editor differ (guard stream): ' + '; '.join(diffs), 'input': {'case': case}, 'model': out_m[i][:300],
                              'implementation': {'class': ob['cls'], 'message': ob['msg'], 'quit': ob['quit_by_cmd'], 'alive': ob['alive'],
                                                 'directory': [g_show(v) for v in ob['after']]}})
        if i % 211 == 0:
            res.sample({'case': case, 'class': ob['cls'], 'quit': ob['quit_by_cmd'], 'q_refused': ob['alive'], 'directory': [g_show(v) for v in ob['after']]})
    res.extra['guard_stream_sessions'] = len(gwork)
    res.extra['guard_stream_refused'] = nref


def g_snapshow(sn, names=('f', 't', 'r')):
    if sn is None:
        return None
    out = {n: ('absent' if sn[n] is None else {'mtime': sn[n][0], 'bytes': None if sn[n][1] is None else len(sn[n][1])}) for n in names}
    for k in ('cur', 'alt'):
        if k in sn:
            out[k] = sn[k]
    return out


def run_table(ctx, vi, model, twork):
    """the table stream: sessions with several open buffers; oracle on the snapshots, comparison with the model (request ts)"""
    res = ctx.res
    if not twork:
        return

    def one(case):
        ob = t_run(vi, case)
        if ob['crash']:
            ob = t_run(vi, case, timeout=90)
        return ob
    obs = vlib.pmap(one, twork)
    out_m = None
    if model:
        from props import c01
        reqs = [t_model_request(c) for c in twork]
        rc, out_m, err = c01.run_model(model, reqs)
        if rc != 0 or len(out_m) != len(reqs):
            res.disagree({'what': 'model driver failed on the table stream: rc=%d, %d answers for %d requests' % (rc, len(out_m), len(reqs)), 'stderr': err[-800:]})
            out_m = None
    nref = namb = 0
    for i, (case, ob) in enumerate(zip(twork, obs)):
        res.evaluations += 1
        res.count('table cmd ' + case['cmd'] + (' <path>' if case.get('arg') else ''))
        res.count('table: ' + case['shape'])
        res.count('table target: %s slot, %s' % (case['slot'], case['state']))
        res.count('table target spelled: ' + ('nothing' if not case.get('arg') else case['arg'] if case['arg'] in ('%', '#') else 'a name'))
        if ob['cls'] == 'err' and not ob['quit_by_cmd']:
            nref += 1
        res.nontriv('t%d' % i)
        bad = t_oracle(case, ob)
        if bad:
            sc = ob['snaps'].get('c')
            res.violation({'what': bad[0], 'all': bad, 'input': {'case': case},
                           'expected': {'refused': True, 'directory': [g_show(v) for v in ob['before'] or []]} if 'refused' in bad[0] or 'without !' in bad[0] else {'see': 'what'},
                           'observed': {'class': ob['cls'], 'message': ob['msg'], 'quit_by_command': ob['quit_by_cmd'], 'q_refused': ob['alive'],
                                        'directory': [g_show(v) for v in ob['after']], 'snapshot_at_load': g_snapshow(ob['snaps'].get('0'), TN),
                                        'snapshot_before_command': g_snapshow(sc, TN)},
                           'script': t_script(case).decode('latin-1')})
            continue
        if out_m is not None:
            if t_ambiguous(case, ob) and ob['ran'] and ob['snaps'].get('c') is not None:
                namb += 1
                continue
            diffs = t_compare(case, ob, out_m[i])
            if diffs:
                res.disagree({'what': 'model and editor differ (table stream): ' + '; '.join(diffs), 'input': {'case': case}, 'model': out_m[i][:300],
                              'implementation': {'class': ob['cls'], 'message': ob['msg'], 'quit': ob['quit_by_cmd'], 'alive': ob['alive'],
                                                 'directory': [g_show(v) for v in ob['after']]}, 'script': t_script(case).decode('latin-1')})
        if i % 257 == 0:
            res.sample({'case': case, 'class': ob['cls'], 'quit': ob['quit_by_cmd'], 'q_refused': ob['alive'], 'directory': [g_show(v) for v in ob['after']]})
    res.extra['table_stream_sessions'] = len(twork)
    res.extra['table_stream_refused'] = nref
    res.extra['table_stream_clock_dependent_skipped_in_comparison'] = namb


def clip(b, n=120):
    if b is None:
        return None
    return {'len': len(b), 'head': b[:n].hex()} if len(b) > n else b.hex()
