"""C05 -- no memory errors, crashes or hangs for any command stream over UTF-8 text.

PROVED (coq/Properties_C05.v): capacity arithmetic of loc/cmd/arg[EXLEN] (ex_loc, ex_cmd, ex_arg, the
guard and loop of ex_exec), ibuf/icmd (term_push, term_read, term_cmd), ex_region / ex_lineno,
tok/opt/pls[EXLEN] (cutword, ec_set, ex_plus), the small tables (CapDefs2.v) and the stack buffers of the
insert-mode helpers -- char tag[] of vi_help (^A), char ai[] of led_input (CapDefs3.v) --, the loads of ex.c replace() from
offs[32] and from the line (CapDefs4.v) on models with checked reads and writes.
TIE: harness/probe_exparse.c (also REG(), ex_pathexpand, bufs[]) and harness/probe_cap2.c (reg_put / reg_get, markidx /
lbuf_mark / lbuf_jump) versus the model on every register name and mark character, path expansions around the size
of the buffer, sessions that open more buffers than there are slots;
harness/probe_exparse.c (#includes ex.c and term.c; heap blocks of exactly EXLEN / strlen+1
bytes; plain and ASan/UBSan builds) versus the extracted model on exhaustive short command lines
over the alphabet of address characters, command letters and delimiters, random lines up to and
beyond EXLEN with multi-byte text, address strings, and queue operation sequences.
probe request `subst` (probe_exparse.c): rstr_make / rstr_find on generated patterns with groups inside alternatives, under ? * {m,n}
and nested, on lines drawn from the pattern and then damaged; oracle = the precondition of replace()'s memcpy on the offsets the real
matcher hands to ec_substitute (every group unset or inside the line: the hypothesis of C05_replace_reads_safe, CapDefs4.v);
the bytes the real replace() appends versus the extracted model.
harness/probe_help.c (#includes vi.c; tag_find renamed so that the word copied into tag[] is observed; led_input
driven through the input queue) versus the model on words of every length around the buffer size made of one- to
four-byte characters, and on ^T / ^D / indentation sequences.
EXPLORED (not proof): grammar-based command streams (tools/gen_c05.py) for `vi -s -e` and `vi -v`
on the ASan/UBSan build -- general streams, insert-mode helper keys after long words, :g / :v commands that
replace one line by several (bounded time: a hang detector), substitutions whose replacement refers to capture groups of
abandoned pattern parts (a group in an alternative that is given up, under ? * {m,n}, nested); oracle: no sanitizer report, exit status 0,
quit reached in time.
"""
import itertools, json, os, re, glob
import vlib
import gen_c05 as G

GROUP = 'cap'
TRUSTED = ['clang 14 AddressSanitizer/UBSan report the memory errors they are documented to report (classes nonnull-attribute, '
           'signed-integer-overflow, pointer-overflow excluded)',
           'the exploration part (command streams against the sanitized editor) is testing, not proof']

ALPHA = [b'1', b'.', b'$', b"'", b'/', b'?', b'+', b',', b';', b'%', b's', b'g', b'r', b'w', b'k', b'e', b'x',
         b'!', b'=', b'@', b'&', b'|', b'\\', b'"', b' ', b'\n', b'\xc3\xa9']
EXEC_SAFE = b"0123456789.$,;+-%' :~#^&*()\"|"
TIMEOUT = 20
PROBE_ENV = dict(os.environ, ASAN_OPTIONS='detect_leaks=0:exitcode=101', UBSAN_OPTIONS='halt_on_error=1:exitcode=102:print_stacktrace=1')


def consts():
    src = open(os.path.join(vlib.COQ, 'GenConsts.v')).read()
    d = {}
    for k in ('EXLEN', 'IBUFSZ', 'ICMDSZ', 'NBUFS', 'NMARKS'):
        d[k] = int(re.search(r'Definition %s : Z := (\d+)%%Z' % k, src).group(1))
    src = open(os.path.join(vlib.COQ, 'GenCap.v')).read()
    for k in ('TAGSZ', 'AISZ', 'PATHCAP', 'REGSZ'):
        d[k] = int(re.search(r'Definition %s : Z := (\d+)%%Z' % k, src).group(1))
    return d


# ---------------------------------------------------------------------------------------------
# requests for the probe / model

def rand_line(r, exlen):
    """A command line (bytes, no NUL) built from address, command and argument parts."""
    def addr():
        return r.choice([b'', b'1', b'1,2', b'.,$', b'%', b"'a,'b", b'/a\\/b/', b'?x?', b'/a', b'.+3;-1', b'$', b"'", b'1;/x/;?y?', b'  :1', b'\t 2 ,3'])

    def cmd():
        return r.choice([b's', b'g', b'v', b'g!', b'r', b'w', b'r !', b'w !', b'!', b'k', b'ka', b'a', b'd', b'p', b'se', b'e', b'ec', b'rs', b'rs a\n', b'&', b'~',
                         b'substitute', b'abcdefghijklmnopqrstuvwx', b'@', b'=', b'', b'q!', b'wq!', b'so', b'kx', b'K', b'unknownunknownunkn'])

    def arg():
        t = r.below(10)
        if t == 0:
            return b''
        if t == 1:
            return r.choice([b'/a/b/', b'/a/b/g', b'/a\\/b/c\\/d/', b',a,b,', b'/a', b'/', b'\\', b'|', b'"', b'/a/b/|p', b'/a|b/c|d/|p', b'/a"b/c"d/"e', b'/a\nb/'])
        if t == 2:
            return r.choice([b' x y', b' "comment', b' a|b', b' a\\|b', b' a\\', b'\\\\', b' \\"x', b'!cmd|x"y', b' a\nb', b'\n.\n', b' x\ny\n.\nz'])
        if t == 3:
            return G.text_line(r, 5).encode('utf-8')[:400]
        if t == 4:
            return bytes(r.choice([97, 32, 124, 92, 34, 47, 10, 0xc3, 0xa9, 33, 49]) for _ in range(r.range(1, 40))).replace(b'\xc3', b'\xc3\xa9').replace(b'\xa9\xa9', b'\xa9')
        return r.choice([b' ', b'']) + G.word(r).encode('utf-8') * r.range(1, 3)

    parts = []
    for _ in range(r.choice([1, 1, 1, 2, 3])):
        parts.append(addr() + cmd() + arg())
    ln = r.choice([b'|', b'|', b'\n', b' | ']).join(parts)
    t = r.below(10)
    if t < 4:                                   # aim at the limit
        target = r.choice([exlen - 3, exlen - 2, exlen - 1, exlen - 1, exlen, exlen + 1, exlen + 8, 2 * exlen])
        if len(ln) < target:
            pad = target - len(ln)
            k = r.below(5)
            if k == 0:
                ln = ln + b'x' * pad
            elif k == 1:
                ln = (b'1,' * pad)[:pad] + ln
            elif k == 2:
                ln = ln + (b'\\x' * pad)[:pad]
            elif k == 3:
                ln = ln + ('é'.encode() * pad)[:pad]
            else:
                ln = (b' ' * pad) + ln
    return ln.replace(b'\x00', b'')


def exec_line(r, exlen):
    """A line that is harmless to execute and, when it is parsed at all, moves the current line of a 5-line buffer to line 3."""
    n = r.choice([1, 5, exlen - 2, exlen - 1, exlen, exlen, exlen + 1, exlen + 2, exlen + 100, 3 * exlen])
    k = r.below(6)
    pad = max(0, n - 1)
    if k == 0:
        return (b'1,' * pad)[:pad - (pad % 2)] + b'3'          # loc takes the whole line
    if k == 1:
        return b'3' + b'~' * pad                               # arg takes the rest
    if k == 2:
        return b' ' * pad + b'3'
    if k == 3:
        return b'3"' + ('é'.encode() * pad)[:max(0, pad - 1) // 2 * 2]
    if k == 4:
        return b':' * pad + b'3'
    filler = b"~#^&*() "                    # no address (would move the current line again), no comment quote, no bar
    return b'3|' + bytes(filler[r.below(len(filler))] for _ in range(max(0, pad - 1))) + b'|3'


REGION_TOK = [b'.', b'$', b'1', b'2', b'3', b'5', b'9', b'12', b'0', b"'a", b"'x", b"'", b'/12/', b'//', b'?3?', b'??', b'+', b'-', b'+3', b'-2', b'+1', b'-1',
              b',', b';', b',', b';', b'%', b' ', b'x', b'007', b'+-', b'--2']
# (no unterminated search token: "/1" followed by "?3?" would spell the pattern 1?3?, which matches every line, and the
# model's search oracle is 'never found')


def region_req(r):
    n = r.choice([0, 1, 2, 5, 9])
    row = r.range(-2, n + 2)
    loc = b''.join(r.choice(REGION_TOK) for _ in range(r.choice([0, 1, 1, 2, 3, 3, 4, 6])))
    if r.chance(1, 12):
        loc = b'%'
    return 'region %d %d %s' % (n, row, vlib.hx(loc))


def term_req(r, ibufsz):
    ops = []
    for _ in range(r.range(1, 40)):
        t = r.below(10)
        if t < 4:
            ops.append('p%d' % r.choice([0, 1, 2, 7, 100, 1000, ibufsz - 1, ibufsz, ibufsz + 1, 3 * ibufsz, r.range(0, ibufsz)]))
        elif t < 7:
            ops += ['r'] * r.choice([1, 1, 3, 50, 1000, ibufsz + 10])
        elif t < 8:
            ops.append('R')
        else:
            ops.append('c')
    return 'term ' + ' '.join(ops[:4000])


def build_requests(ctx, K):
    r = ctx.rng.fork('probe')
    exlen = K['EXLEN']
    reqs = []
    L = 3 if ctx.quick else 4
    for n in range(0, L + 1):
        for t in itertools.product(ALPHA if n < 4 else ALPHA[::2] + [b'|', b'"', b'\\'], repeat=n):
            reqs.append('parse ' + vlib.hx(b''.join(t)))
    for _ in range(1500 if ctx.quick else 20000):
        ln = rand_line(r, exlen)
        reqs.append('parse ' + vlib.hx(ln))
    for _ in range(200 if ctx.quick else 2000):
        reqs.append('exec ' + vlib.hx(exec_line(r, exlen)))
    for _ in range(1500 if ctx.quick else 20000):
        reqs.append(region_req(r))
    for _ in range(300 if ctx.quick else 3000):
        s = r.choice([b'', b' ', b'  ']) + r.choice([b'+', b'+', b'', b'x']) + rand_line(r, exlen)[:exlen - 1].replace(b'\n', b' ')
        reqs.append(r.choice(['plus ', 'cut ']) + vlib.hx(s[:exlen + 3]))
    for _ in range(60 if ctx.quick else 600):
        reqs.append(term_req(r, K['IBUFSZ']))
    return reqs


def oracle_probe(req, ans, K):
    """The capacity property itself on the implementation's answer; None or a description."""
    w = req.split(' ')
    exlen = K['EXLEN']
    if w[0] == 'parse':
        ln = vlib.unhx(w[1])
        if len(ln) >= exlen:
            return None if ans == 'toolong' else 'line of %d bytes was parsed' % len(ln)
        prev = 0
        if ans.strip() == '-':
            return None
        for ent in ans.split():
            f = ent.split(',')
            if len(f) != 5:
                return 'malformed answer ' + ent
            for name, h in (('loc', f[0]), ('cmd', f[1]), ('arg', f[3])):
                if len(vlib.unhx(h)) + 1 > exlen:
                    return '%s holds %d bytes + terminator > %d' % (name, len(vlib.unhx(h)), exlen)
            nxt = int(f[4])
            if nxt <= prev or nxt > len(ln):
                return 'scan position %d after %d in a line of %d bytes (no progress or past the terminator)' % (nxt, prev, len(ln))
            prev = nxt
        return None
    if w[0] == 'exec':
        ln = vlib.unhx(w[1])
        if len(ln) >= exlen and 'xrow=0' not in ans:
            return 'ex_exec parsed a line of %d bytes (limit %d): the current line moved' % (len(ln), exlen)
        return None
    if w[0] == 'region':
        n = int(w[1])
        f = ans.split()
        if f and f[0] == 'ok':
            b, e = int(f[1]), int(f[2])
            if not (0 <= b <= e <= n):
                return 'ex_region accepted beg=%d end=%d on a buffer of %d lines' % (b, e, n)
        return None
    if w[0] in ('plus', 'cut'):
        f = ans.split()
        if len(f) == 2 and len(vlib.unhx(f[0])) + 1 > exlen:
            return 'destination holds %d bytes + terminator > %d' % (len(vlib.unhx(f[0])), exlen)
        return None
    if w[0] == 'term':
        for st in ans.split():
            m = re.match(r'(?:-?\d+:)?(-?\d+),(-?\d+),(-?\d+)$', st)
            if not m:
                continue
            p, c, k = map(int, m.groups())
            if not (0 <= p <= c <= K['IBUFSZ'] and 0 <= k <= K['ICMDSZ']):
                return 'input queue counters pos=%d cnt=%d icmd=%d outside 0<=pos<=cnt<=%d, icmd<=%d' % (p, c, k, K['IBUFSZ'], K['ICMDSZ'])
        return None
    return None


def canon(req, ans):
    if req.startswith('exec '):
        return 'toolong' if 'xrow=0' in ans else 'parsed'
    return ans.strip()


def run_probe(res, exe, what, todo, env, decode=None):
    """Runs a probe over the requests; a crash loses the rest, so restart after the crashing one (which is re-run
    alone before it is reported)."""
    out = []
    i = 0
    crashes = 0
    while i < len(todo):
        rc, o, err = vlib.run_lines(exe, todo[i:], timeout=1500, env=env)
        o = o[:len(todo) - i]
        out += o
        i += len(o)
        if rc != 0 and i < len(todo):
            bad = todo[i]
            # confirm alone
            rc2, o2, err2 = vlib.run_lines(exe, [bad], timeout=300, env=env)
            if rc2 != 0:
                res.violation({'what': '%s: %s' % (what, signature(err2.encode()) or ('killed by signal %d' % -rc2 if rc2 < 0 else 'exit status %d' % rc2)), 'input': [bad],
                               'decoded': (decode(bad) if decode else repr(vlib.unhx(bad.split(' ')[-1]))[:300] if bad.split(' ')[0] != 'term' else bad[:300]),
                               'expected': 'no sanitizer report, exit status 0', 'observed': err2[-2500:]})
            out.append('CRASH')
            i += 1
            crashes += 1
            if crashes > 8:
                out += ['SKIPPED'] * (len(todo) - i)
                break
        elif rc != 0:
            break
    return out


def run_probe_part(ctx, K):
    res = ctx.res
    probe = vlib.build_probe('exparse', includes=['ex', 'term'])
    probe_asan = vlib.build_probe('exparse', includes=['ex', 'term'], asan=True)
    model = ctx.model('cap')
    if ctx.replay:
        rp = json.load(open(ctx.replay))
        reqs = [x for x in rp.get('input', []) if isinstance(x, str) and x.split(' ')[0] in ('parse', 'exec', 'region', 'plus', 'cut', 'term')]
        if not reqs:
            return
    else:
        reqs = build_requests(ctx, K)
    env = dict(os.environ, ASAN_OPTIONS='detect_leaks=0:exitcode=101', UBSAN_OPTIONS='halt_on_error=1:exitcode=102:print_stacktrace=1')

    def runit(exe, what, todo):
        return run_probe(res, exe, what, todo, env)

    out_c = runit(probe, 'probe_exparse', reqs)
    out_a = runit(probe_asan, 'probe_exparse (ASan/UBSan)', reqs)
    for q, a, b in zip(reqs, out_c, out_a):
        if canon(q, a) != canon(q, b) and 'CRASH' not in (a, b) and 'SKIPPED' not in (a, b):
            res.violation({'what': 'plain and sanitized builds answer differently (undefined behaviour)', 'input': [q], 'expected': a, 'observed': b})
            break
    # the property on the implementation's answers
    for q, a in zip(reqs, out_c):
        res.evaluations += 1
        kind = q.split(' ')[0]
        res.count('probe ' + kind)
        if a in ('CRASH', 'SKIPPED'):
            continue
        bad = oracle_probe(q, a, K)
        if bad:
            res.violation({'what': bad, 'input': [q], 'expected': 'capacity respected', 'observed': a[:500]})
        if kind == 'parse' and len(q) > 30 or kind in ('region', 'term'):
            res.nontriv(q[:200])
    # correspondence with the extracted model
    if model:
        rc, out_m, err = vlib.run_lines(model, reqs, timeout=1500)
        if rc != 0 or len(out_m) != len(reqs):
            res.disagree({'what': 'model driver: rc=%d, %d answers for %d requests' % (rc, len(out_m), len(reqs)), 'stderr': err[-1000:]})
        else:
            nd = 0
            for q, a, m in zip(reqs, out_c, out_m):
                if a in ('CRASH', 'SKIPPED'):
                    continue
                if canon(q, a) != (m.strip() if not q.startswith('exec ') else ('toolong' if m.strip() == 'toolong' else 'parsed')):
                    nd += 1
                    res.disagree({'what': 'model and implementation differ', 'input': [q], 'decoded': repr(vlib.unhx(q.split(' ')[-1]))[:300] if not q.startswith('term') else '',
                                  'implementation': a[:600], 'model': m[:600]})
            res.extra['probe_disagreements'] = nd
            # what the model says the unguarded scanners would do to lines the implementation did not refuse
            ung = [q for q, a in zip(reqs, out_c) if q.startswith('exec ') and len(vlib.unhx(q.split(' ')[1])) >= K['EXLEN'] and 'xrow=0' not in a]
            if ung:
                rc, o, _ = vlib.run_lines(model, ['unguarded ' + q.split(' ')[1] for q in ung], timeout=300)
                res.extra['model_on_unrefused_long_lines'] = o[:5]
    for q, a in list(zip(reqs, out_c))[::max(1, len(reqs) // 4)][:4]:
        res.sample({'request': q[:200], 'answer': a[:200]})


# ---------------------------------------------------------------------------------------------
# the small tables (CapDefs2.v): REG(), reg_put / reg_get, markidx / lbuf_mark / lbuf_jump, ex_pathexpand, bufs[]

def table_requests(r, K, quick):
    """Returns (requests for probe_exparse, requests for probe_cap2); the model driver answers both kinds."""
    e, c2 = [], []
    # REG(): every one-byte name, every escaped name, the empty string, a lone backslash
    e.append('regx -')
    for b in range(1, 256):
        e.append('regx %02x' % b)
        e.append('regx 5c%02x' % b)
        if b % 16 == 0:
            e.append('regx %02x41' % b)
    def pre():
        t = r.below(4)
        if t == 0:
            return '-'
        if t == 1:
            return ','.join(str(x) for x in sorted({r.choice([0, 34, 48, 49, 50, 56, 57, 65, 97, 122, 90, 255, 128 + 126]) for _ in range(r.range(1, 6))}))
        return ','.join(str(x) for x in sorted({r.below(256) for _ in range(r.range(1, 12))}))
    for c in range(256):
        for lnnl in (0, 1, 2):
            c2.append('reg %d %d %s' % (c, lnnl, pre()))
        c2.append('get %d %s' % (c, pre()))
        c2.append('mark %d' % c)
    # ex_pathexpand: % # = \ blanks, paths unset / empty / short / around and beyond the size of its buffer
    P = K['PATHCAP']
    def path():
        t = r.below(8)
        if t == 0:
            return '-'
        if t == 1:
            return 'e'
        if t < 5:
            return vlib.hx(r.choice([b'f.txt', b'a/b/c.txt', b'/x', b'dir/', '中/é.txt'.encode('utf-8'), b'a b']))
        n = r.choice([100, 500, P - 3, P - 2, P - 1, P, P + 1, 2 * P])
        return vlib.hx((r.choice([b'a', b'ab/', 'é'.encode('utf-8')]) * n)[:n])
    for _ in range(400 if quick else 4000):
        toks = [b'%', b'#', b'=', b'\\', b'\\%', b' ', b'\t', b'x', b'/', b'.c', 'é'.encode('utf-8'), b'\n', b'a' * r.choice([1, 10, 300, P - 2, P, P + 5])]
        src = b''.join(r.choice(toks) for _ in range(r.choice([0, 1, 2, 3, 5, 8])))
        e.append('pexp %d %s %s %s' % (r.below(2), path(), path(), vlib.hx(src)))
    # bufs[]: open more buffers than there are slots, switch among the used ones, drop the first
    for _ in range(60 if quick else 600):
        ops, used = [], 0
        for _ in range(r.range(1, 40)):
            t = r.below(10)
            if t < 6 or used == 0:
                ops.append('o')
                used = min(used + 1, K['NBUFS'])
            elif t < 9:
                ops.append('s%d' % r.below(used))
            else:
                ops.append('h')
                used = max(0, used - 1)
        e.append('bufs ' + ' '.join(ops))
    return e, c2


def oracle_table(q, a, K):
    """Range facts on the implementation's answers (independent of the model)."""
    w = q.split(' ')
    if w[0] == 'regx':
        return None if a.strip().isdigit() and 0 <= int(a) < K['REGSZ'] else 'REG() = %s is not a valid index of bufs[%d]' % (a, K['REGSZ'])
    if w[0] == 'mark':
        f = a.split()
        if f and not (-1 <= int(f[0]) < K['NMARKS']):
            return 'markidx = %s outside mark[]' % f[0]
    if w[0] == 'pexp' and a not in ('null', '-') and len(a) // 2 >= K['PATHCAP']:
        return 'ex_pathexpand returned %d bytes, its buffer holds %d and the terminator' % (len(a) // 2, K['PATHCAP'] - 1)
    if w[0] == 'bufs':
        for st in a.split():
            if ':' in st and not (0 <= int(st.split(':')[0]) < K['NBUFS']):
                return 'bufs_findroom answered %s' % st.split(':')[0]
    return None


def run_tables_part(ctx, K):
    res = ctx.res
    if ctx.replay:
        rp = json.load(open(ctx.replay))
        reqs = [x for x in rp.get('input', []) if isinstance(x, str)]
        re_ = [x for x in reqs if x.split(' ')[0] in ('regx', 'pexp', 'bufs')]
        r2 = [x for x in reqs if x.split(' ')[0] in ('reg', 'get', 'mark')]
        if not re_ and not r2:
            return
    else:
        re_, r2 = table_requests(ctx.rng.fork('tables'), K, ctx.quick)
    model = ctx.model('cap')
    nd = 0
    for name, incl, reqs in (('exparse', ['ex', 'term'], re_), ('cap2', ['reg', 'lbuf', 'led'], r2)):
        if not reqs:
            continue
        dec = lambda q: q[:300]
        out_a = run_probe(res, vlib.build_probe(name, includes=incl, asan=True), 'probe_%s (ASan/UBSan)' % name, reqs, PROBE_ENV, dec)
        out_c = run_probe(res, vlib.build_probe(name, includes=incl), 'probe_%s' % name, reqs, PROBE_ENV, dec)
        out_m = None
        if model:
            rc, out_m, err = vlib.run_lines(model, reqs, timeout=600)
            if rc != 0 or len(out_m) != len(reqs):
                res.disagree({'what': 'model driver: rc=%d, %d answers for %d requests' % (rc, len(out_m), len(reqs)), 'stderr': err[-1000:]})
                out_m = None
        for i, q in enumerate(reqs):
            a = out_c[i] if i < len(out_c) else 'SKIPPED'
            b = out_a[i] if i < len(out_a) else 'SKIPPED'
            res.evaluations += 1
            res.count('probe ' + q.split(' ')[0])
            if a in ('CRASH', 'SKIPPED'):
                continue
            if b not in ('CRASH', 'SKIPPED') and a.strip() != b.strip():
                res.violation({'what': 'plain and sanitized builds answer differently (undefined behaviour)', 'input': [q], 'expected': a[:600], 'observed': b[:600]})
            bad = oracle_table(q, a, K)
            if bad:
                res.violation({'what': bad, 'input': [q], 'expected': 'index inside the table', 'observed': a[:500]})
            if q.split(' ')[0] in ('pexp', 'bufs'):
                res.nontriv(q[:160])
            if out_m is not None and a.strip() != out_m[i].strip():
                nd += 1
                res.disagree({'what': 'model and implementation differ (%s)' % q.split(' ')[0], 'input': [q], 'implementation': a[:600], 'model': out_m[i][:600]})
    res.extra['table_probe_disagreements'] = nd


# ---------------------------------------------------------------------------------------------
# the stack buffers of the insert-mode helpers: probe_help.c versus the model (CapDefs3.v)



def help_requests(ctx, K):
    """`help <hex of the text before the cursor>`: a sweep of word lengths around the size of tag[] for one- to
    four-byte characters (by bytes and by characters, with and without text in front of / behind the word), then
    generated lines, then arbitrary strings of non-NUL bytes (the theorem does not assume valid UTF-8)."""
    r = ctx.rng.fork('help')
    T = K['TAGSZ']
    reqs = []
    for c in ('a', 'é', '中', '\U0001d11e', 'ا'):
        cb = c.encode('utf-8')
        words = []
        for nb in list(range(T - 4, T + 5)) + [2 * T - 1, 2 * T, 3 * T, 4 * T - 3, 4 * T + 1]:
            words.append(cb * (nb // len(cb)) + b'a' * (nb % len(cb)))
            words.append(b'a' * (nb % len(cb)) + cb * (nb // len(cb)))
        for nc in (T - 2, T - 1, T, T + 1):
            words.append(cb * nc)
        for w in words:
            for pre in (b'', b'ab (', '日本 '.encode('utf-8')):
                for post in (b'', b' ', b'.'):
                    reqs.append('help ' + vlib.hx(pre + w + post))
    for _ in range(600 if ctx.quick else 6000):
        reqs.append('help ' + vlib.hx(G.helper_text(r)))
    for _ in range(150 if ctx.quick else 1500):
        n = r.choice([0, 1, 2, 5, 40, T - 2, T - 1, T, T + 1, 2 * T, 300])
        pool = r.choice([[0x61, 0x20, 0xc3, 0xa9, 0x80, 0xf0, 0x9f, 0x5f, 0x2e], list(range(1, 256)), [0xe4, 0xb8, 0xad, 0x41], [0xf0, 0x9d, 0x84, 0x9e, 0xbf]])
        reqs.append('help ' + vlib.hx(bytes(r.choice(pool) for _ in range(n))))
    return list(dict.fromkeys(reqs))


def trim_requests(ctx, K):
    """uc_trim (a04410e): `cutstore <size> <hex>` = snprintf into size bytes then uc_trim, for the sizes of cmp[] and vi_msg[]
    and small ones, on generated valid text long enough to be cut at every offset inside a character; `trim <hex>` on
    every prefix length of a short mixed string and on arbitrary non-NUL bytes."""
    r = ctx.rng.fork('trim')
    reqs = []
    mixed = 'ab\u00e9\u4e2d\U0001f600x\u0627\U0001d11e_\u200c9'.encode('utf-8')
    for n in range(len(mixed) + 1):
        reqs.append('trim ' + vlib.hx(mixed[:n]))
        for size in (1, 2, 3, 4, 5, 8):
            reqs.append('cutstore %d %s' % (size, vlib.hx(mixed[n:])))
    for _ in range(400 if ctx.quick else 4000):
        t = (r.choice([b'', b'a', b'ab', b'abc']) + G.helper_text(r))
        reqs.append('cutstore %d %s' % (r.choice([64, 64, K['EXLEN'], K['EXLEN'], K['TAGSZ'], 16, 7]), vlib.hx(t)))
    for _ in range(100 if ctx.quick else 1000):
        n = r.choice([0, 1, 2, 3, 5, 40, 63, 64, 300])
        pool = r.choice([[0x61, 0x20, 0xc3, 0xa9, 0x80, 0xf0, 0x9f, 0x5f, 0x2e], list(range(1, 256)), [0xe4, 0xb8, 0xad, 0x41], [0xf0, 0x9d, 0x84, 0x9e, 0xbf]])
        reqs.append('trim ' + vlib.hx(bytes(r.choice(pool) for _ in range(n))))
    return list(dict.fromkeys(reqs))


def trim_oracle(q, a):
    """The property on the implementation's answer alone: a prefix of what was stored, and when the text was valid UTF-8
    the answer is valid UTF-8 too and less than one character shorter than what was stored."""
    w = q.split(' ')
    src = vlib.unhx(w[-1])
    stored = src[:int(w[1]) - 1] if w[0] == 'cutstore' else src
    got = vlib.unhx(a)
    if not stored.startswith(got):
        return 'uc_trim left bytes that are not a prefix of the string'
    try:
        src.decode('utf-8')
    except UnicodeDecodeError:
        return None
    if w[0] == 'trim':
        return None
    try:
        got.decode('utf-8')
    except UnicodeDecodeError:
        return 'a cut of valid UTF-8 text ends inside a character after uc_trim'
    if len(stored) - len(got) > 3:
        return 'uc_trim dropped %d bytes of valid text (more than an incomplete character)' % (len(stored) - len(got))
    return None


def ai_case(r, K):
    """One session of led_input: k leading blanks in the prefix (+ 'x'), then lines of ^T / ^D, typed blanks and
    an optional letter.  Returns (probe request, model request, meta)."""
    A = K['AISZ']
    near = [0, 1, 2, 5, A - 2, A - 1, A, A + 2, 200]
    k = r.choice(near)
    rest = r.below(3) == 0
    xai = r.below(4) != 0
    n0 = min(k, A - 1)
    lines = []
    keys = b''
    for i in range(r.choice([1, 2, 3, 5])):
        td = ''
        for _ in range(r.choice([0, 1, 1, 2])):
            td += r.choice(['t', 'd']) * r.choice([1, 2, 5, A - 2, A - 1, A, A + 2])
        sp = r.choice(near) if r.chance(1, 2) else r.choice([0, 1, 2, 4])
        has = r.below(5) != 0
        lines.append((td, sp, has))
    # the input queue holds 4096 bytes: shorten until the keys fit
    def keys_of(ls):
        b = b''
        for i, (td, sp, has) in enumerate(ls):
            b += td.replace('t', '\x14').replace('d', '\x04').encode() + b' ' * sp + (b'a' if has else b'') + (b'\n' if i + 1 < len(ls) else b'\x1b')
        return b
    while len(keys_of(lines)) > 3900:
        lines.pop()
    keys = keys_of(lines)
    ops = []
    for i, (td, sp, has) in enumerate(lines):
        ops += list(td)
        pe = (k - n0 == 0 and not rest) if i == 0 else True
        ops.append('l%d:%d:%d' % (sp, 1 if pe else 0, 1 if xai else 0))
    return ('ai %d %d %d %s' % (1 if xai else 0, k, 1 if rest else 0, vlib.hx(keys)), 'ai %d %s' % (k, ' '.join(ops)),
            {'k': k, 'rest': rest, 'xai': xai, 'n0': n0, 'lines': lines})


def ai_expected(meta, lens):
    """The text led_input returns (tabs written as blanks), from strlen(ai) after the fill and after every operation."""
    if not lens or lens[0] != meta['n0']:
        return None
    pos = 1
    cur = lens[0]
    out = []
    for i, (td, sp, has) in enumerate(meta['lines']):
        for _ in td:
            cur = lens[pos]
            pos += 1
        prefrest = (' ' * (meta['k'] - meta['n0']) + ('x' if meta['rest'] else '')) if i == 0 else ''
        appended = has or prefrest != ''
        out.append((' ' * cur if appended else '') + prefrest + ' ' * sp + ('a' if has else ''))
        cur = lens[pos]
        pos += 1
    return '\n'.join(out)


def decode_help(q):
    w = q.split(' ')
    return repr(vlib.unhx(w[-1]))[:400] if w[0] in ('help', 'trim', 'cutstore') else q[:300]


def run_help_part(ctx, K):
    res = ctx.res
    probe = vlib.build_probe('help', includes=['vi', 'term'])
    probe_asan = vlib.build_probe('help', includes=['vi', 'term'], asan=True)
    model = ctx.model('cap')
    T, A = K['TAGSZ'], K['AISZ']
    if ctx.replay:
        rp = json.load(open(ctx.replay))
        reqs = [x for x in rp.get('input', []) if isinstance(x, str) and x.split(' ')[0] == 'help']
        ais = []
        if not [x for x in rp.get('input', []) if isinstance(x, str) and x.split(' ')[0] in ('help', 'trim', 'cutstore')]:
            return
    else:
        reqs = help_requests(ctx, K)
        r = ctx.rng.fork('ai')
        ais = [ai_case(r.fork(str(i)), K) for i in range(300 if ctx.quick else 3000)]
    trims = [x for x in rp.get('input', []) if isinstance(x, str) and x.split(' ')[0] in ('trim', 'cutstore')] if ctx.replay else trim_requests(ctx, K)
    todo = reqs + [a[0] for a in ais] + trims
    out_a = run_probe(res, probe_asan, 'probe_help (ASan/UBSan)', todo, PROBE_ENV, decode_help)      # first: its report names the buffer
    out_c = run_probe(res, probe, 'probe_help', todo, PROBE_ENV, decode_help)
    for q, a, b in zip(todo, out_c, out_a):
        if a != b and 'CRASH' not in (a, b) and 'SKIPPED' not in (a, b):
            res.violation({'what': 'plain and sanitized builds answer differently (undefined behaviour)', 'input': [q], 'decoded': decode_help(q), 'expected': a[:600], 'observed': b[:600]})
            break
    out_m = None
    if model:
        rc, out_m, err = vlib.run_lines(model, reqs + [a[1] for a in ais] + trims, timeout=1500)
        if rc != 0 or len(out_m) != len(todo):
            res.disagree({'what': 'model driver: rc=%d, %d answers for %d requests' % (rc, len(out_m), len(todo)), 'stderr': err[-1000:]})
            out_m = None
    nd = 0
    # (a) the tag word
    for i, q in enumerate(reqs):
        a = out_c[i] if i < len(out_c) else 'SKIPPED'
        res.evaluations += 1
        res.count('probe help')
        if a in ('CRASH', 'SKIPPED'):
            continue
        ln = vlib.unhx(q.split(' ')[1])
        if a.startswith('tag '):
            tag = vlib.unhx(a.split(' ')[1])
            # the property itself: the word and its terminator fit the buffer, and it was read from the line
            if len(tag) + 1 > T:
                res.violation({'what': 'vi_help copied a word of %d bytes + terminator into char tag[%d]' % (len(tag), T), 'input': [q], 'decoded': decode_help(q),
                               'expected': 'at most %d bytes' % (T - 1), 'observed': a[:700]})
            elif tag not in ln:
                res.violation({'what': 'vi_help handed tag_find bytes that are not on the line (read outside it)', 'input': [q], 'decoded': decode_help(q),
                               'expected': 'a segment of the line', 'observed': a[:700]})
            if len(ln) >= T - 8:
                res.nontriv(q[:120])
        elif a != 'none':
            res.disagree({'what': 'probe_help: unexpected answer', 'input': [q], 'implementation': a[:300]})
        if out_m is not None and a != out_m[i].strip():
            nd += 1
            res.disagree({'what': 'model and implementation differ (vi_help tag word)', 'input': [q], 'decoded': decode_help(q), 'implementation': a[:700], 'model': out_m[i][:700]})
    # (b) ai[]
    for j, (pq, mq, meta) in enumerate(ais):
        i = len(reqs) + j
        a = out_c[i] if i < len(out_c) else 'SKIPPED'
        res.evaluations += 1
        res.count('probe ai')
        if a in ('CRASH', 'SKIPPED'):
            continue
        if a in ('null', '?'):
            res.disagree({'what': 'probe_help: led_input returned no text', 'input': [pq], 'implementation': a})
            continue
        got = vlib.unhx(a).decode('utf-8', 'replace').replace('\t', ' ')
        gl = got.split('\n')
        # the property itself: the indentation in front of what was typed never exceeds what ai[] can hold
        for li, ((td, sp, has), g) in enumerate(zip(meta['lines'], gl)):
            typed = (meta['k'] - meta['n0'] if li == 0 else 0) + sp
            lead = len(g) - len(g.lstrip(' '))
            if lead - typed > A - 1:
                res.violation({'what': 'led_input: %d blanks of auto-indent in front of line %d, char ai[%d] holds at most %d' % (lead - typed, li + 1, A, A - 1),
                               'input': [pq], 'expected': 'at most %d' % (A - 1), 'observed': a[:700]})
                break
        if any(len(td) >= A - 2 or sp >= A - 2 for td, sp, has in meta['lines']) or meta['k'] >= A - 2:
            res.nontriv(pq[:120])
        if out_m is not None:
            try:
                lens = [int(x) for x in out_m[i].split()]
            except ValueError:
                lens = None
            exp = ai_expected(meta, lens) if lens else None
            if exp is None or exp != got:
                nd += 1
                res.disagree({'what': 'model and implementation differ (led_input auto-indent)', 'input': [pq], 'model_request': mq, 'implementation': got[:700],
                              'model': (exp if exp is not None else out_m[i])[:700]})
    # (c) uc_trim
    for j, q in enumerate(trims):
        i = len(reqs) + len(ais) + j
        a = out_c[i] if i < len(out_c) else 'SKIPPED'
        res.evaluations += 1
        res.count('probe ' + q.split(' ')[0])
        if a in ('CRASH', 'SKIPPED'):
            continue
        if a == 'nofn':
            res.disagree({'what': 'uc.c has no uc_trim(): the strings cut by snprintf into cmp[] / vi_msg[] are not brought back to a character boundary (a04410e reverted?)', 'input': [q]})
            break
        bad = trim_oracle(q, a)
        if bad:
            res.violation({'what': bad, 'input': [q], 'decoded': decode_help(q), 'expected': 'the longest prefix of whole characters', 'observed': a[:700]})
        if len(q) > 40:
            res.nontriv(q[:120])
        if out_m is not None and a != out_m[i].strip():
            nd += 1
            res.disagree({'what': 'model and implementation differ (uc_trim)', 'input': [q], 'decoded': decode_help(q), 'implementation': a[:700], 'model': out_m[i][:700]})
    res.extra['help_probe_disagreements'] = nd
    for q, a in list(zip(todo, out_c))[::max(1, len(todo) // 3)][:3]:
        res.sample({'request': q[:200], 'answer': a[:200]})


# ---------------------------------------------------------------------------------------------
# ex.c replace(): the group offsets the matcher hands to ec_substitute (probe request `subst`) versus CapDefs4.v

NOFFS = 32


def subst_requests(ctx):
    """`subst <ic> <pattern> <line> <replacement>` (hex): the patterns of the `groups` stream (1..4 groups inside alternatives,
    under ? * {m,n}, nested) on lines drawn from the pattern and then damaged, and the smallest pattern of every shape on
    every line of up to four letters; the replacement refers to every group."""
    r = ctx.rng.fork('subst')
    reqs = []
    for shape in G.GROUP_SHAPES:
        pat = shape.replace('A', 'a').replace('B', 'b').replace('C', 'c').replace('X', 'x').replace('Y', 'y')
        ng = pat.count('(')
        letters = sorted(set(ch for ch in pat if ch.isalpha())) + ['z']
        rp = '<' + '|'.join('\\%d' % k for k in range(1, min(ng + 1, 9) + 1)) + '>'
        for n in range(1, 5 if ctx.quick else 6):
            for t in itertools.product(letters, repeat=n):
                reqs.append('subst 0 %s %s %s' % (vlib.hx(pat.encode()), vlib.hx(''.join(t).encode()), vlib.hx(rp.encode())))
    for i in range(1200 if ctx.quick else 20000):
        q = r.fork(str(i))
        tree = G.g_pattern(q)
        pat, ng = G.g_text(tree), G.g_groups(tree)
        for ln in G.group_lines(q, tree, q.choice([2, 3, 4])):
            ln = ln.replace('\n', '')[:40]
            reqs.append('subst %d %s %s %s' % (1 if q.chance(1, 8) else 0, vlib.hx(pat.encode('utf-8')), vlib.hx(ln.encode('utf-8')), vlib.hx(G.g_repl(q, ng).encode('utf-8'))))
    return list(dict.fromkeys(reqs))


def decode_subst(q):
    w = q.split(' ')
    return 'pattern %r line %r replacement %r%s' % (vlib.unhx(w[2]).decode('utf-8', 'replace'), vlib.unhx(w[3]).decode('utf-8', 'replace'),
                                                    vlib.unhx(w[4]).decode('utf-8', 'replace'), ' (ic)' if w[1] != '0' else '')


def subst_oracle(q, a):
    """The precondition of replace()'s memcpy on the implementation's own answer: every group the matcher reports is unset or
    inside the line, the whole match is set."""
    if a in ('nopat', 'nomatch'):
        return None
    f = a.split()
    n = len(vlib.unhx(q.split(' ')[3]))
    try:
        offs = [int(x) for x in f[:NOFFS]]
    except ValueError:
        return 'malformed answer'
    if len(offs) != NOFFS:
        return 'malformed answer'
    for g in range(NOFFS // 2):
        so, eo = offs[2 * g], offs[2 * g + 1]
        if not ((so == -1 and eo == -1) or (0 <= so <= eo <= n)):
            return ('the matcher hands ec_substitute group %d with offsets (%d, %d) on a line of %d bytes: a reference \\%d in the replacement makes '
                    'replace() call memcpy(.., ln + %d, %d)' % (g, so, eo, n, g, so, eo - so))
    if offs[0] < 0:
        return 'a match without the offsets of the whole match'
    return None


def run_subst_part(ctx, K):
    res = ctx.res
    if ctx.replay:
        rp = json.load(open(ctx.replay))
        reqs = [x for x in rp.get('input', []) if isinstance(x, str) and x.split(' ')[0] == 'subst']
        if not reqs:
            return
    else:
        reqs = subst_requests(ctx)
    out_a = run_probe(res, vlib.build_probe('exparse', includes=['ex', 'term'], asan=True), 'probe_exparse subst (ASan/UBSan)', reqs, PROBE_ENV, decode_subst)
    out_c = run_probe(res, vlib.build_probe('exparse', includes=['ex', 'term']), 'probe_exparse subst', reqs, PROBE_ENV, decode_subst)
    mreqs, midx = [], []
    nbad = 0
    for i, q in enumerate(reqs):
        a = out_c[i] if i < len(out_c) else 'SKIPPED'
        b = out_a[i] if i < len(out_a) else 'SKIPPED'
        res.evaluations += 1
        res.count('probe subst')
        if a in ('CRASH', 'SKIPPED'):
            continue
        if b not in ('CRASH', 'SKIPPED') and a.strip() != b.strip():
            res.violation({'what': 'plain and sanitized builds answer differently (undefined behaviour)', 'input': [q], 'decoded': decode_subst(q), 'expected': a[:600], 'observed': b[:600]})
        bad = subst_oracle(q, a)
        if bad:
            nbad += 1
            if nbad <= 3:
                res.violation({'what': bad, 'input': [q], 'decoded': decode_subst(q), 'expected': 'every group unset (-1, -1) or 0 <= start <= end <= length of the line', 'observed': a[:600]})
            continue
        if a not in ('nopat', 'nomatch'):
            f = a.split()
            if any(int(x) >= 0 for x in f[2:NOFFS]):
                res.nontriv(q[:200])
            w = q.split(' ')
            mreqs.append('repl %s %s %s' % (w[4], w[3], ' '.join(f[:NOFFS])))
            midx.append((i, f[NOFFS] if len(f) > NOFFS else '-'))
    res.extra['subst_requests_with_malformed_offsets'] = nbad
    model = ctx.model('cap')
    nd = 0
    if model and mreqs:
        rc, out_m, err = vlib.run_lines(model, mreqs, timeout=600)
        if rc != 0 or len(out_m) != len(mreqs):
            res.disagree({'what': 'model driver: rc=%d, %d answers for %d requests' % (rc, len(out_m), len(mreqs)), 'stderr': err[-1000:]})
        else:
            for (i, got), mq, m in zip(midx, mreqs, out_m):
                if got != m.strip():
                    nd += 1
                    if nd <= 5:
                        res.disagree({'what': 'model and implementation differ (replace)', 'input': [reqs[i]], 'decoded': decode_subst(reqs[i]), 'model_request': mq[:400],
                                      'implementation': got[:600], 'model': m[:600]})
    res.extra['subst_probe_disagreements'] = nd
    for q, a in list(zip(reqs, out_c))[::max(1, len(reqs) // 3)][:3]:
        res.sample({'request': decode_subst(q)[:200], 'answer': a[:200]})


# ---------------------------------------------------------------------------------------------
# the editor under sanitizers

def signature(err):
    """Short root-cause label of a sanitizer report: kind + first frame inside the editor's sources."""
    t = err.decode('utf-8', 'replace') if isinstance(err, bytes) else err
    m = re.search(r'ERROR: AddressSanitizer: (\S+)', t)
    kind = m.group(1) if m else None
    if not kind:
        m = re.search(r'([a-z_]+\.c:\d+:\d+): runtime error: ([^\n]*)', t)
        if m:
            return 'UBSan %s %s' % (m.group(1).split(':')[0], re.sub(r'-?\d+', 'N', m.group(2))[:80])
        return None
    fn = None
    for m in re.finditer(r'#\d+ 0x[0-9a-f]+ in (\S+) ([^\n]*)', t):
        f, where = m.group(1), m.group(2)
        if re.search(r'/(?:[a-z_]+)\.c:\d+', where) and 'sanitizer' not in where and 'compiler-rt' not in where and not f.startswith('__'):
            fn = '%s %s' % (f, re.search(r'([a-z_]+\.c):\d+', where).group(1))
            break
    return 'ASan %s in %s' % (kind, fn or '?')


def failed(r):
    if r.timed_out:
        return 'hang (quit not reached in time)'
    if r.crashed():
        return signature(r.err) or ('killed by signal %d' % -r.rc if (r.rc or 0) < 0 else 'exit status %s' % r.rc)
    if r.rc != 0:
        return 'exit status %s' % r.rc
    return None


def classify(exe, case, f, err):
    """Root-cause classifiers of the findings listed for C05 in KNOWN_FINDINGS.txt.  The only one left is
    KF-EMPTY-LOOP: the run is a time-out (no sanitizer report) and a pattern of the stream has a loop over a body that
    can match the empty string.  The generator never emits such patterns; the canonical input is in the corpus."""
    if case.get('stream') == 'groups':
        return None             # that stream builds its patterns from a tree and never puts a loop on a part that can match the empty string
    if f and f.startswith('hang') and any(G.nullable_loop(l.decode('utf-8', 'replace')) for l in case['lines']):
        return 'KF-EMPTY-LOOP'
    return None


def run_case(exe, case, timeout=None):
    """timeout: None = the limit of the case (TIMEOUT unless its stream sets another), a number = that limit."""
    if timeout is None:
        timeout = case.get('timeout', TIMEOUT)
    if case['kind'] == 'ex':
        return vlib.run_ex(exe, G.ex_bytes(case['lines']), files=case['files'], args=case.get('args', ['f.txt']), timeout=timeout)
    return vlib.run_vi(exe, G.vi_bytes(case['lines']), files=case['files'], args=case.get('args', ['f.txt']), rows=case['rows'], cols=case['cols'], timeout=timeout)


def case_json(case, sig=None):
    d = {'kind': case['kind'], 'lines_hex': [l.hex() for l in case['lines']], 'lines': [l.decode('utf-8', 'replace')[:200] for l in case['lines']],
         'files_hex': {k: v.hex() for k, v in case['files'].items()}, 'args': case.get('args', ['f.txt'])}
    if case['kind'] == 'vi':
        d['rows'], d['cols'] = case['rows'], case['cols']
    if 'timeout' in case:
        d['timeout'] = case['timeout']
    if 'stream' in case:
        d['stream'] = case['stream']
    if sig:
        d['signature'] = sig
    return d


def case_from_json(d):
    c = {'kind': d['kind'], 'lines': [bytes.fromhex(x) for x in d['lines_hex']] if 'lines_hex' in d else [x.encode('utf-8') for x in d['lines']],
         'files': {k: bytes.fromhex(v) for k, v in d.get('files_hex', {}).items()}, 'args': d.get('args', ['f.txt'])}
    for k, v in d.get('files_text', {}).items():
        c['files'][k] = v.encode('utf-8')
    if c['kind'] == 'vi':
        c['rows'], c['cols'] = d.get('rows', 24), d.get('cols', 80)
    if 'timeout' in d:
        c['timeout'] = d['timeout']
    if 'stream' in d:
        c['stream'] = d['stream']
    return c


def confirm(exe, case):
    """Re-run alone (serially); a timeout with a 3x limit.  Returns the failure label or None."""
    r = run_case(exe, case, timeout=3 * case.get('timeout', TIMEOUT))
    return failed(r)


def report(ctx, exe, case, sig):
    res = ctx.res
    lim = case.get('timeout', TIMEOUT)

    def same(lines):
        c = dict(case, lines=lines)
        f = failed(run_case(exe, c, timeout=lim if not sig.startswith('hang') else 2 * lim))
        return f is not None and (f == sig or (f.split(' in ')[0] == sig.split(' in ')[0]))

    small = vlib.shrink(case['lines'], same, max_steps=(12 if sig.startswith('hang') else 120)) if len(case['lines']) > 1 else case['lines']
    c2 = dict(case, lines=small)
    r = run_case(exe, c2, timeout=3 * lim)
    f2 = failed(r)
    if f2 is None:
        c2, r = case, run_case(exe, case, timeout=3 * lim)
        f2 = failed(r)
    label = {'ex': 'vi -s -e', 'vi': 'vi -v'}[case['kind']] + (' (%s stream)' % case['stream'] if case.get('stream') else '')
    res.violation({'what': '%s: %s' % (label, f2 or sig), 'input': case_json(c2, f2 or sig),
                   'expected': 'no sanitizer report, exit status 0, quit reached within %d s' % (3 * lim), 'observed': (r.err or b'')[-3000:].decode('utf-8', 'replace'),
                   'replay_cmd': 'python3 tools/check.py C05 --replay <this file>'}, kf=classify(exe, c2, f2 or sig, r.err))


def arglist(r):
    t = r.below(16)
    if t == 0:
        return []
    if t == 1:
        return ['f.txt', 'g.txt']
    if t == 2:                                   # more files than bufs[] has slots
        return ['f.txt'] + G.MANY_ARGS[:r.range(15, 24)]
    return ['f.txt']


GLOB_TIMEOUT = 10          # a :g over at most a dozen lines ends in milliseconds; a reproduced time-out (alone, 30 s) is a hang

STREAMS = {
    # name: (editor mode, generator, per-case limit)
    'ex': ('ex', None, TIMEOUT),
    'vi': ('vi', None, TIMEOUT),
    'helper': ('vi', 'helper_stream', 30),             # insert-mode helper keys after long words (every key redraws a long line)
    'glob': ('ex', 'glob_script', GLOB_TIMEOUT),       # :g / :v whose command replaces a line by several
    'groups': ('ex', 'group_script', GLOB_TIMEOUT),    # :s whose replacement refers to capture groups of abandoned pattern parts (alternatives, ? * {m,n}, nesting)
}


def make_case(r, name):
    kind, gen, lim = STREAMS[name]
    if name == 'ex':
        lines, files = G.ex_script(r)
        return {'kind': 'ex', 'lines': lines, 'files': files, 'args': arglist(r)}
    if name == 'vi':
        atoms, files, rows, cols = G.vi_stream(r)
        return {'kind': 'vi', 'lines': atoms, 'files': files, 'rows': rows, 'cols': cols, 'args': arglist(r)}
    if name == 'helper':
        atoms, files, rows, cols = G.helper_stream(r)
        return {'kind': 'vi', 'lines': atoms, 'files': files, 'rows': rows, 'cols': cols, 'args': ['f.txt'], 'timeout': lim, 'stream': name}
    lines, files = G.group_script(r) if name == 'groups' else G.glob_script(r)
    return {'kind': 'ex', 'lines': lines, 'files': files, 'args': ['f.txt'], 'timeout': lim, 'stream': name}


def sweep_cases(K):
    """Deterministic boundary cases of the two new streams (run on every seed, before the generated ones).
    helper: a word of T-2 .. T+2 bytes and of T-1 .. T+1 characters (T = the size of vi_help's tag[]) of one- to
    four-byte characters, typed and then ^A, or already on the line and then A ^A; an indentation of A-2 .. A+1 blanks
    (A = the size of led_input's ai[]) under the ai option, then o, ^T, text.
    glob: one line replaced by k = 1..3 lines (a filter, or c with a text block) with p = 0..2 lines still waiting
    behind it, the last new line matching the pattern again or not."""
    T, A = K['TAGSZ'], K['AISZ']
    out = []
    for c in ('a', 'é', '中', '\U0001d11e'):
        cb = c.encode('utf-8')
        ws = [cb * (nb // len(cb)) + b'a' * (nb % len(cb)) for nb in range(T - 2, T + 3)] + [cb * nc for nc in (T - 1, T, T + 1)] + [cb * (4 * T)]
        for w in dict.fromkeys(ws):
            out.append({'kind': 'vi', 'lines': [b'i' + w + b'\x01' + b'\x1b'], 'files': {}, 'rows': 24, 'cols': 80, 'args': ['f.txt'], 'stream': 'helper'})
            out.append({'kind': 'vi', 'lines': [b'A\x01\x01 x\x1b'], 'files': {'f.txt': b'(' + w + b'\n'}, 'rows': 5, 'cols': 20, 'args': ['f.txt'], 'stream': 'helper'})
    for n in (A - 2, A - 1, A, A + 1):
        for unit in (b' ', b'\t'):
            out.append({'kind': 'vi', 'lines': [b':se ai\n', b'o' + b'\x14' * 3 + b'x\n' + b'\x04\x14\x14y' + b'\x1b', b'O  z\x1b'], 'files': {'f.txt': unit * n + b'w\n'},
                        'rows': 24, 'cols': 80, 'args': ['f.txt'], 'stream': 'helper'})
    for k in (1, 2, 3):
        for pend in (0, 1, 2):
            for again in (True, False):
                new = ['y'] * (k - 1) + ['x' if again else 'y']
                f = ('x\n' + 'z\n' * pend).encode()
                out.append({'kind': 'ex', 'lines': [b'se wa', ('g/x/.!' + '; '.join('echo ' + w for w in new)).encode()], 'files': {'f.txt': f}, 'args': ['f.txt'],
                            'timeout': GLOB_TIMEOUT, 'stream': 'glob'})
                out.append({'kind': 'ex', 'lines': [b'g/x/c'] + [w.encode() for w in new] + [b'.'], 'files': {'f.txt': f}, 'args': ['f.txt'],
                            'timeout': GLOB_TIMEOUT, 'stream': 'glob'})
    return out


def explore(ctx, exe, name, n, extra=()):
    res = ctx.res
    kind = STREAMS[name][0]
    r0 = ctx.rng.fork('explore-' + name)
    cases = list(extra)
    for i in range(n):
        cases.append(make_case(r0.fork(str(i)), name))
    outs = vlib.pmap(lambda c: failed(run_case(exe, c)), cases)
    seen = {}
    for c, f in zip(cases, outs):
        res.evaluations += 1
        res.count('%s streams' % name)
        n_long = sum(1 for l in c['lines'] if len(l) >= 505)
        if n_long:
            res.count('%s streams with a command of 505 bytes or more' % name)
        if any(b > 0x7f for l in c['lines'] for b in l) or any(b > 0x7f for v in c['files'].values() for b in v):
            res.nontriv((name, len(res.nontrivial)))
        if kind == 'vi':
            res.count('window %dx%d' % (c['rows'], c['cols']) if c['rows'] <= 3 or c['cols'] <= 3 else 'window larger than 3x3')
        if name == 'helper' and any(b'\x01' in l for l in c['lines']):
            res.count('helper streams with ^A')
        if f:
            key = f if not f.startswith('hang') else 'hang'
            seen.setdefault(key, []).append(c)
    for key, cs in seen.items():
        res.count('failing %s streams before confirmation' % name, len(cs))
        done = 0
        for c in sorted(cs, key=lambda c: sum(len(l) for l in c['lines']))[:4]:
            f = confirm(exe, c)
            if f:
                r1 = run_case(exe, c, timeout=3 * c.get('timeout', TIMEOUT))
                kf = classify(exe, c, failed(r1), r1.err)
                if kf and not res.violation({'what': '%s stream: %s' % (name, f), 'input': case_json(c, f)}, kf=kf):
                    done += 1
                    continue
                report(ctx, exe, c, f)
                done += 1
                break
        if not done:
            res.count('unconfirmed failures (not reproduced alone with a 3x limit)', len(cs))
    for c in cases[len(extra):len(extra) + 2]:
        res.sample({'kind': name, 'lines': [l.decode('utf-8', 'replace')[:80] for l in c['lines'][:6]]})


def run_corpus(ctx, exe):
    res = ctx.res
    for p in sorted(glob.glob(os.path.join(vlib.VERIF, 'corpus', 'C05-*.json'))):
        d = json.load(open(p))
        for ent in (d if isinstance(d, list) else [d]):
            case = case_from_json(ent)
            lim = ent.get('timeout', TIMEOUT)
            r = run_case(exe, case, timeout=lim)
            f = failed(r)
            res.evaluations += 1
            res.count('corpus')
            if f and f.startswith('hang') and not ent.get('kf'):
                f = confirm(exe, case)
            if f:
                kf = classify(exe, case, f, r.err) if ent.get('kf') else None
                res.violation({'what': '%s: %s (%s)' % (os.path.basename(p), f, ent.get('what', '')), 'input': case_json(case, f),
                               'expected': 'no sanitizer report, exit status 0, quit reached within %ss' % lim,
                               'observed': (r.err or b'')[-2000:].decode('utf-8', 'replace')}, kf=kf)


def run(ctx):
    res = ctx.res
    K = consts()
    res.rule = ('probe: one request = one command line / address string / queue operation sequence through the real scanners (plain + ASan) and the model; '
                'exhaustive lines up to length %d over a %d-symbol alphabet, random lines around %d bytes. streams: one generated ex script or vi key stream on the '
                'ASan/UBSan editor (general ex / vi streams, insert-mode helper keys after long words, :g commands that add lines, :s with back-references to groups of abandoned pattern parts). non-trivial = probe request longer than a few bytes, or a stream with multi-byte text; distinct = distinct request / stream'
                % (3 if ctx.quick else 4, len(ALPHA), K['EXLEN']))
    res.extra['exploration_note'] = 'the command-stream part is exploration (testing under sanitizers), not proof'
    exe = vlib.build_vi(asan=True)
    if ctx.replay:
        rp = json.load(open(ctx.replay))
        inp = rp.get('input')
        if isinstance(inp, dict) and inp.get('kind') in ('ex', 'vi'):
            case = case_from_json(inp)
            f = confirm(exe, case)
            res.evaluations += 1
            if f:
                r = run_case(exe, case, timeout=3 * case.get('timeout', TIMEOUT))
                res.violation({'what': f, 'input': case_json(case, f), 'expected': 'no sanitizer report, exit status 0, quit reached',
                               'observed': (r.err or b'')[-3000:].decode('utf-8', 'replace')})
            return
        run_probe_part(ctx, K)
        run_tables_part(ctx, K)
        run_help_part(ctx, K)
        run_subst_part(ctx, K)
        return
    run_corpus(ctx, exe)
    run_probe_part(ctx, K)
    run_tables_part(ctx, K)
    run_help_part(ctx, K)
    run_subst_part(ctx, K)
    n = int(os.environ.get('C05_STREAMS', '0') or 0) or (2500 if ctx.quick else 30000)
    sweep = sweep_cases(K)
    explore(ctx, exe, 'helper', max(1, n // 5), extra=[c for c in sweep if c['stream'] == 'helper'])
    explore(ctx, exe, 'glob', max(1, n // 5), extra=[c for c in sweep if c['stream'] == 'glob'])
    gsweep = [{'kind': 'ex', 'lines': ls, 'files': fs, 'args': ['f.txt'], 'timeout': GLOB_TIMEOUT, 'stream': 'groups'} for ls, fs in G.group_sweep()]
    explore(ctx, exe, 'groups', max(1, n // 5), extra=gsweep)
    explore(ctx, exe, 'ex', n)
    explore(ctx, exe, 'vi', n)
