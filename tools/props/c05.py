"""C05 -- no memory errors, crashes or hangs for any command stream over UTF-8 text.

PROVED (coq/Properties_C05.v): capacity arithmetic of loc/cmd/arg[EXLEN] (ex_loc, ex_cmd, ex_arg, the
guard and loop of ex_exec), ibuf/icmd (term_push, term_read, term_cmd), ex_region / ex_lineno,
tok/opt/pls[EXLEN] (cutword, ec_set, ex_plus) on models with checked reads and writes.
TIE: harness/probe_exparse.c (#includes ex.c and term.c; heap blocks of exactly EXLEN / strlen+1
bytes; plain and ASan/UBSan builds) versus the extracted model on exhaustive short command lines
over the alphabet of address characters, command letters and delimiters, random lines up to and
beyond EXLEN with multi-byte text, address strings, and queue operation sequences.
EXPLORED (not proof): grammar-based command streams (tools/gen_c05.py) for `vi -s -e` and `vi -v`
on the ASan/UBSan build; oracle: no sanitizer report, exit status 0, quit reached in time.
"""
import itertools, json, os, re, glob
import vlib
import gen_c05 as G

GROUP = 'cap'
TRUSTED = ['clang 14 AddressSanitizer/UBSan report the memory errors they are documented to report (classes nonnull-attribute, '
           'signed-integer-overflow, pointer-overflow excluded)',
           'the exploration part (command streams against the sanitized editor) is testing, not proof']

ALPHA = [b'1', b'.', b'$', b"'", b'/', b'?', b'+', b',', b';', b'%', b's', b'g', b'r', b'w', b'k', b'e', b'x',
         b'!', b'=', b'@', b'&', b'|', b'\\', b'"', b' ', b'\n', b'\xc3\xa9']
EXEC_SAFE = b"0123456789.$,;+-%' :~#^&*()\"|"
TIMEOUT = 20


def consts():
    src = open(os.path.join(vlib.COQ, 'GenConsts.v')).read()
    d = {}
    for k in ('EXLEN', 'IBUFSZ', 'ICMDSZ'):
        d[k] = int(re.search(r'Definition %s : Z := (\d+)%%Z' % k, src).group(1))
    return d


# ---------------------------------------------------------------------------------------------
# requests for the probe / model

def rand_line(r, exlen):
    """A command line (bytes, no NUL) built from address, command and argument parts."""
    def addr():
        return r.choice([b'', b'1', b'1,2', b'.,$', b'%', b"'a,'b", b'/a\\/b/', b'?x?', b'/a', b'.+3;-1', b'$', b"'", b'1;/x/;?y?', b'  :1', b'\t 2 ,3'])

    def cmd():
        return r.choice([b's', b'g', b'v', b'g!', b'r', b'w', b'r !', b'w !', b'!', b'k', b'ka', b'a', b'd', b'p', b'se', b'e', b'ec', b'rs', b'rs a\n', b'&', b'~',
                         b'substitute', b'abcdefghijklmnopqrstuvwx', b'@', b'=', b'', b'q!', b'wq!', b'so', b'kx', b'K', b'unknownunknownunkn'])

    def arg():
        t = r.below(10)
        if t == 0:
            return b''
        if t == 1:
            return r.choice([b'/a/b/', b'/a/b/g', b'/a\\/b/c\\/d/', b',a,b,', b'/a', b'/', b'\\', b'|', b'"', b'/a/b/|p', b'/a|b/c|d/|p', b'/a"b/c"d/"e', b'/a\nb/'])
        if t == 2:
            return r.choice([b' x y', b' "comment', b' a|b', b' a\\|b', b' a\\', b'\\\\', b' \\"x', b'!cmd|x"y', b' a\nb', b'\n.\n', b' x\ny\n.\nz'])
        if t == 3:
            return G.text_line(r, 5).encode('utf-8')[:400]
        if t == 4:
            return bytes(r.choice([97, 32, 124, 92, 34, 47, 10, 0xc3, 0xa9, 33, 49]) for _ in range(r.range(1, 40))).replace(b'\xc3', b'\xc3\xa9').replace(b'\xa9\xa9', b'\xa9')
        return r.choice([b' ', b'']) + G.word(r).encode('utf-8') * r.range(1, 3)

    parts = []
    for _ in range(r.choice([1, 1, 1, 2, 3])):
        parts.append(addr() + cmd() + arg())
    ln = r.choice([b'|', b'|', b'\n', b' | ']).join(parts)
    t = r.below(10)
    if t < 4:                                   # aim at the limit
        target = r.choice([exlen - 3, exlen - 2, exlen - 1, exlen - 1, exlen, exlen + 1, exlen + 8, 2 * exlen])
        if len(ln) < target:
            pad = target - len(ln)
            k = r.below(5)
            if k == 0:
                ln = ln + b'x' * pad
            elif k == 1:
                ln = (b'1,' * pad)[:pad] + ln
            elif k == 2:
                ln = ln + (b'\\x' * pad)[:pad]
            elif k == 3:
                ln = ln + ('é'.encode() * pad)[:pad]
            else:
                ln = (b' ' * pad) + ln
    return ln.replace(b'\x00', b'')


def exec_line(r, exlen):
    """A line that is harmless to execute and, when it is parsed at all, moves the current line of a 5-line buffer to line 3."""
    n = r.choice([1, 5, exlen - 2, exlen - 1, exlen, exlen, exlen + 1, exlen + 2, exlen + 100, 3 * exlen])
    k = r.below(6)
    pad = max(0, n - 1)
    if k == 0:
        return (b'1,' * pad)[:pad - (pad % 2)] + b'3'          # loc takes the whole line
    if k == 1:
        return b'3' + b'~' * pad                               # arg takes the rest
    if k == 2:
        return b' ' * pad + b'3'
    if k == 3:
        return b'3"' + ('é'.encode() * pad)[:max(0, pad - 1) // 2 * 2]
    if k == 4:
        return b':' * pad + b'3'
    filler = b"~#^&*() "                    # no address (would move the current line again), no comment quote, no bar
    return b'3|' + bytes(filler[r.below(len(filler))] for _ in range(max(0, pad - 1))) + b'|3'


REGION_TOK = [b'.', b'$', b'1', b'2', b'3', b'5', b'9', b'12', b'0', b"'a", b"'x", b"'", b'/12/', b'//', b'?3?', b'??', b'+', b'-', b'+3', b'-2', b'+1', b'-1',
              b',', b';', b',', b';', b'%', b' ', b'x', b'007', b'+-', b'--2']
# (no unterminated search token: "/1" followed by "?3?" would spell the pattern 1?3?, which matches every line, and the
# model's search oracle is 'never found')


def region_req(r):
    n = r.choice([0, 1, 2, 5, 9])
    row = r.range(-2, n + 2)
    loc = b''.join(r.choice(REGION_TOK) for _ in range(r.choice([0, 1, 1, 2, 3, 3, 4, 6])))
    if r.chance(1, 12):
        loc = b'%'
    return 'region %d %d %s' % (n, row, vlib.hx(loc))


def term_req(r, ibufsz):
    ops = []
    for _ in range(r.range(1, 40)):
        t = r.below(10)
        if t < 4:
            ops.append('p%d' % r.choice([0, 1, 2, 7, 100, 1000, ibufsz - 1, ibufsz, ibufsz + 1, 3 * ibufsz, r.range(0, ibufsz)]))
        elif t < 7:
            ops += ['r'] * r.choice([1, 1, 3, 50, 1000, ibufsz + 10])
        elif t < 8:
            ops.append('R')
        else:
            ops.append('c')
    return 'term ' + ' '.join(ops[:4000])


def build_requests(ctx, K):
    r = ctx.rng.fork('probe')
    exlen = K['EXLEN']
    reqs = []
    L = 3 if ctx.quick else 4
    for n in range(0, L + 1):
        for t in itertools.product(ALPHA if n < 4 else ALPHA[::2] + [b'|', b'"', b'\\'], repeat=n):
            reqs.append('parse ' + vlib.hx(b''.join(t)))
    for _ in range(1500 if ctx.quick else 20000):
        ln = rand_line(r, exlen)
        reqs.append('parse ' + vlib.hx(ln))
    for _ in range(200 if ctx.quick else 2000):
        reqs.append('exec ' + vlib.hx(exec_line(r, exlen)))
    for _ in range(1500 if ctx.quick else 20000):
        reqs.append(region_req(r))
    for _ in range(300 if ctx.quick else 3000):
        s = r.choice([b'', b' ', b'  ']) + r.choice([b'+', b'+', b'', b'x']) + rand_line(r, exlen)[:exlen - 1].replace(b'\n', b' ')
        reqs.append(r.choice(['plus ', 'cut ']) + vlib.hx(s[:exlen + 3]))
    for _ in range(60 if ctx.quick else 600):
        reqs.append(term_req(r, K['IBUFSZ']))
    return reqs


def oracle_probe(req, ans, K):
    """The capacity property itself on the implementation's answer; None or a description."""
    w = req.split(' ')
    exlen = K['EXLEN']
    if w[0] == 'parse':
        ln = vlib.unhx(w[1])
        if len(ln) >= exlen:
            return None if ans == 'toolong' else 'line of %d bytes was parsed' % len(ln)
        prev = 0
        if ans.strip() == '-':
            return None
        for ent in ans.split():
            f = ent.split(',')
            if len(f) != 5:
                return 'malformed answer ' + ent
            for name, h in (('loc', f[0]), ('cmd', f[1]), ('arg', f[3])):
                if len(vlib.unhx(h)) + 1 > exlen:
                    return '%s holds %d bytes + terminator > %d' % (name, len(vlib.unhx(h)), exlen)
            nxt = int(f[4])
            if nxt <= prev or nxt > len(ln):
                return 'scan position %d after %d in a line of %d bytes (no progress or past the terminator)' % (nxt, prev, len(ln))
            prev = nxt
        return None
    if w[0] == 'exec':
        ln = vlib.unhx(w[1])
        if len(ln) >= exlen and 'xrow=0' not in ans:
            return 'ex_exec parsed a line of %d bytes (limit %d): the current line moved' % (len(ln), exlen)
        return None
    if w[0] == 'region':
        n = int(w[1])
        f = ans.split()
        if f and f[0] == 'ok':
            b, e = int(f[1]), int(f[2])
            if not (0 <= b <= e <= n):
                return 'ex_region accepted beg=%d end=%d on a buffer of %d lines' % (b, e, n)
        return None
    if w[0] in ('plus', 'cut'):
        f = ans.split()
        if len(f) == 2 and len(vlib.unhx(f[0])) + 1 > exlen:
            return 'destination holds %d bytes + terminator > %d' % (len(vlib.unhx(f[0])), exlen)
        return None
    if w[0] == 'term':
        for st in ans.split():
            m = re.match(r'(?:-?\d+:)?(-?\d+),(-?\d+),(-?\d+)$', st)
            if not m:
                continue
            p, c, k = map(int, m.groups())
            if not (0 <= p <= c <= K['IBUFSZ'] and 0 <= k <= K['ICMDSZ']):
                return 'input queue counters pos=%d cnt=%d icmd=%d outside 0<=pos<=cnt<=%d, icmd<=%d' % (p, c, k, K['IBUFSZ'], K['ICMDSZ'])
        return None
    return None


def canon(req, ans):
    if req.startswith('exec '):
        return 'toolong' if 'xrow=0' in ans else 'parsed'
    return ans.strip()


def run_probe_part(ctx, K):
    res = ctx.res
    probe = vlib.build_probe('exparse', includes=['ex', 'term'])
    probe_asan = vlib.build_probe('exparse', includes=['ex', 'term'], asan=True)
    model = ctx.model('cap')
    if ctx.replay:
        rp = json.load(open(ctx.replay))
        reqs = [x for x in rp.get('input', []) if isinstance(x, str) and x.split(' ')[0] in ('parse', 'exec', 'region', 'plus', 'cut', 'term')]
        if not reqs:
            return
    else:
        reqs = build_requests(ctx, K)
    env = dict(os.environ, ASAN_OPTIONS='detect_leaks=0:exitcode=101', UBSAN_OPTIONS='halt_on_error=1:exitcode=102:print_stacktrace=1')

    def runit(exe, what, todo):
        """Runs the probe over the requests; a crash loses the rest, so restart after the crashing one."""
        out = []
        i = 0
        crashes = 0
        while i < len(todo):
            rc, o, err = vlib.run_lines(exe, todo[i:], timeout=1500, env=env)
            o = o[:len(todo) - i]
            out += o
            i += len(o)
            if rc != 0 and i < len(todo):
                bad = todo[i]
                # confirm alone
                rc2, o2, err2 = vlib.run_lines(exe, [bad], timeout=300, env=env)
                if rc2 != 0:
                    res.violation({'what': '%s: %s' % (what, signature(err2.encode()) or 'exit status %d' % rc2), 'input': [bad],
                                   'decoded': repr(vlib.unhx(bad.split(' ')[-1]))[:300] if bad.split(' ')[0] != 'term' else bad[:300],
                                   'expected': 'no sanitizer report, exit status 0', 'observed': err2[-2500:]})
                out.append('CRASH')
                i += 1
                crashes += 1
                if crashes > 8:
                    out += ['SKIPPED'] * (len(todo) - i)
                    break
            elif rc != 0:
                break
        return out

    out_c = runit(probe, 'probe_exparse', reqs)
    out_a = runit(probe_asan, 'probe_exparse (ASan/UBSan)', reqs)
    for q, a, b in zip(reqs, out_c, out_a):
        if canon(q, a) != canon(q, b) and 'CRASH' not in (a, b) and 'SKIPPED' not in (a, b):
            res.violation({'what': 'plain and sanitized builds answer differently (undefined behaviour)', 'input': [q], 'expected': a, 'observed': b})
            break
    # the property on the implementation's answers
    for q, a in zip(reqs, out_c):
        res.evaluations += 1
        kind = q.split(' ')[0]
        res.count('probe ' + kind)
        if a in ('CRASH', 'SKIPPED'):
            continue
        bad = oracle_probe(q, a, K)
        if bad:
            res.violation({'what': bad, 'input': [q], 'expected': 'capacity respected', 'observed': a[:500]})
        if kind == 'parse' and len(q) > 30 or kind in ('region', 'term'):
            res.nontriv(q[:200])
    # correspondence with the extracted model
    if model:
        rc, out_m, err = vlib.run_lines(model, reqs, timeout=1500)
        if rc != 0 or len(out_m) != len(reqs):
            res.disagree({'what': 'model driver: rc=%d, %d answers for %d requests' % (rc, len(out_m), len(reqs)), 'stderr': err[-1000:]})
        else:
            nd = 0
            for q, a, m in zip(reqs, out_c, out_m):
                if a in ('CRASH', 'SKIPPED'):
                    continue
                if canon(q, a) != (m.strip() if not q.startswith('exec ') else ('toolong' if m.strip() == 'toolong' else 'parsed')):
                    nd += 1
                    res.disagree({'what': 'model and implementation differ', 'input': [q], 'decoded': repr(vlib.unhx(q.split(' ')[-1]))[:300] if not q.startswith('term') else '',
                                  'implementation': a[:600], 'model': m[:600]})
            res.extra['probe_disagreements'] = nd
            # what the model says the unguarded scanners would do to lines the implementation did not refuse
            ung = [q for q, a in zip(reqs, out_c) if q.startswith('exec ') and len(vlib.unhx(q.split(' ')[1])) >= K['EXLEN'] and 'xrow=0' not in a]
            if ung:
                rc, o, _ = vlib.run_lines(model, ['unguarded ' + q.split(' ')[1] for q in ung], timeout=300)
                res.extra['model_on_unrefused_long_lines'] = o[:5]
    for q, a in list(zip(reqs, out_c))[::max(1, len(reqs) // 4)][:4]:
        res.sample({'request': q[:200], 'answer': a[:200]})


# ---------------------------------------------------------------------------------------------
# the editor under sanitizers

def signature(err):
    """Short root-cause label of a sanitizer report: kind + first frame inside the editor's sources."""
    t = err.decode('utf-8', 'replace') if isinstance(err, bytes) else err
    m = re.search(r'ERROR: AddressSanitizer: (\S+)', t)
    kind = m.group(1) if m else None
    if not kind:
        m = re.search(r'([a-z_]+\.c:\d+:\d+): runtime error: ([^\n]*)', t)
        if m:
            return 'UBSan %s %s' % (m.group(1).split(':')[0], re.sub(r'-?\d+', 'N', m.group(2))[:80])
        return None
    fn = None
    for m in re.finditer(r'#\d+ 0x[0-9a-f]+ in (\S+) ([^\n]*)', t):
        f, where = m.group(1), m.group(2)
        if re.search(r'/(?:[a-z_]+)\.c:\d+', where) and 'sanitizer' not in where and 'compiler-rt' not in where and not f.startswith('__'):
            fn = '%s %s' % (f, re.search(r'([a-z_]+\.c):\d+', where).group(1))
            break
    return 'ASan %s in %s' % (kind, fn or '?')


def failed(r):
    if r.timed_out:
        return 'hang (quit not reached in time)'
    if r.crashed():
        return signature(r.err) or ('killed by signal %d' % -r.rc if (r.rc or 0) < 0 else 'exit status %s' % r.rc)
    if r.rc != 0:
        return 'exit status %s' % r.rc
    return None


def classify(exe, case, f, err):
    """Root-cause classifiers of the findings listed for C05 in KNOWN_FINDINGS.txt.  The only one left is
    KF-EMPTY-LOOP: the run is a time-out (no sanitizer report) and a pattern of the stream has a loop over a body that
    can match the empty string.  The generator never emits such patterns; the canonical input is in the corpus."""
    if f and f.startswith('hang') and any(G.nullable_loop(l.decode('utf-8', 'replace')) for l in case['lines']):
        return 'KF-EMPTY-LOOP'
    return None


def run_case(exe, case, timeout=TIMEOUT):
    if case['kind'] == 'ex':
        return vlib.run_ex(exe, G.ex_bytes(case['lines']), files=case['files'], args=case.get('args', ['f.txt']), timeout=timeout)
    return vlib.run_vi(exe, G.vi_bytes(case['lines']), files=case['files'], args=case.get('args', ['f.txt']), rows=case['rows'], cols=case['cols'], timeout=timeout)


def case_json(case, sig=None):
    d = {'kind': case['kind'], 'lines_hex': [l.hex() for l in case['lines']], 'lines': [l.decode('utf-8', 'replace')[:200] for l in case['lines']],
         'files_hex': {k: v.hex() for k, v in case['files'].items()}, 'args': case.get('args', ['f.txt'])}
    if case['kind'] == 'vi':
        d['rows'], d['cols'] = case['rows'], case['cols']
    if sig:
        d['signature'] = sig
    return d


def case_from_json(d):
    c = {'kind': d['kind'], 'lines': [bytes.fromhex(x) for x in d['lines_hex']] if 'lines_hex' in d else [x.encode('utf-8') for x in d['lines']],
         'files': {k: bytes.fromhex(v) for k, v in d.get('files_hex', {}).items()}, 'args': d.get('args', ['f.txt'])}
    for k, v in d.get('files_text', {}).items():
        c['files'][k] = v.encode('utf-8')
    if c['kind'] == 'vi':
        c['rows'], c['cols'] = d.get('rows', 24), d.get('cols', 80)
    return c


def confirm(exe, case):
    """Re-run alone (serially); a timeout with a 3x limit.  Returns the failure label or None."""
    r = run_case(exe, case, timeout=3 * TIMEOUT)
    return failed(r)


def report(ctx, exe, case, sig):
    res = ctx.res

    def same(lines):
        c = dict(case, lines=lines)
        f = failed(run_case(exe, c, timeout=TIMEOUT if not sig.startswith('hang') else 2 * TIMEOUT))
        return f is not None and (f == sig or (f.split(' in ')[0] == sig.split(' in ')[0]))

    small = vlib.shrink(case['lines'], same, max_steps=(12 if sig.startswith('hang') else 120)) if len(case['lines']) > 1 else case['lines']
    c2 = dict(case, lines=small)
    r = run_case(exe, c2, timeout=3 * TIMEOUT)
    f2 = failed(r)
    if f2 is None:
        c2, r = case, run_case(exe, case, timeout=3 * TIMEOUT)
        f2 = failed(r)
    res.violation({'what': '%s: %s' % ('vi -s -e' if case['kind'] == 'ex' else 'vi -v', f2 or sig), 'input': case_json(c2, f2 or sig),
                   'expected': 'no sanitizer report, exit status 0, quit reached', 'observed': (r.err or b'')[-3000:].decode('utf-8', 'replace'),
                   'replay_cmd': 'python3 tools/check.py C05 --replay <this file>'}, kf=classify(exe, c2, f2 or sig, r.err))


def arglist(r):
    t = r.below(16)
    if t == 0:
        return []
    if t == 1:
        return ['f.txt', 'g.txt']
    if t == 2:                                   # more files than bufs[] has slots
        return ['f.txt'] + G.MANY_ARGS[:r.range(15, 24)]
    return ['f.txt']


def explore(ctx, exe, kind, n):
    res = ctx.res
    r0 = ctx.rng.fork('explore-' + kind)
    cases = []
    for i in range(n):
        r = r0.fork(str(i))
        if kind == 'ex':
            lines, files = G.ex_script(r)
            cases.append({'kind': 'ex', 'lines': lines, 'files': files, 'args': arglist(r)})
        else:
            atoms, files, rows, cols = G.vi_stream(r)
            cases.append({'kind': 'vi', 'lines': atoms, 'files': files, 'rows': rows, 'cols': cols, 'args': arglist(r)})
    outs = vlib.pmap(lambda c: failed(run_case(exe, c)), cases)
    seen = {}
    for c, f in zip(cases, outs):
        res.evaluations += 1
        res.count('%s streams' % kind)
        n_long = sum(1 for l in c['lines'] if len(l) >= 505)
        if n_long:
            res.count('%s streams with a command of 505 bytes or more' % kind)
        if any(b > 0x7f for l in c['lines'] for b in l) or any(b > 0x7f for v in c['files'].values() for b in v):
            res.nontriv((kind, len(res.nontrivial)))
        if kind == 'vi':
            res.count('window %dx%d' % (c['rows'], c['cols']) if c['rows'] <= 3 or c['cols'] <= 3 else 'window larger than 3x3')
        if f:
            key = f if not f.startswith('hang') else 'hang'
            seen.setdefault(key, []).append(c)
    for key, cs in seen.items():
        res.count('failing %s streams before confirmation' % kind, len(cs))
        done = 0
        for c in sorted(cs, key=lambda c: sum(len(l) for l in c['lines']))[:4]:
            f = confirm(exe, c)
            if f:
                r1 = run_case(exe, c, timeout=3 * TIMEOUT)
                kf = classify(exe, c, failed(r1), r1.err)
                if kf and not res.violation({'what': '%s stream: %s' % (kind, f), 'input': case_json(c, f)}, kf=kf):
                    done += 1
                    continue
                report(ctx, exe, c, f)
                done += 1
                break
        if not done:
            res.count('unconfirmed failures (not reproduced alone with a 3x limit)', len(cs))
    for c in cases[:2]:
        res.sample({'kind': kind, 'lines': [l.decode('utf-8', 'replace')[:80] for l in c['lines'][:6]]})


def run_corpus(ctx, exe):
    res = ctx.res
    for p in sorted(glob.glob(os.path.join(vlib.VERIF, 'corpus', 'C05-*.json'))):
        d = json.load(open(p))
        for ent in (d if isinstance(d, list) else [d]):
            case = case_from_json(ent)
            lim = ent.get('timeout', TIMEOUT)
            r = run_case(exe, case, timeout=lim)
            f = failed(r)
            res.evaluations += 1
            res.count('corpus')
            if f and f.startswith('hang') and not ent.get('kf'):
                f = confirm(exe, case)
            if f:
                kf = classify(exe, case, f, r.err) if ent.get('kf') else None
                res.violation({'what': '%s: %s (%s)' % (os.path.basename(p), f, ent.get('what', '')), 'input': case_json(case, f),
                               'expected': 'no sanitizer report, exit status 0, quit reached within %ss' % lim,
                               'observed': (r.err or b'')[-2000:].decode('utf-8', 'replace')}, kf=kf)


def run(ctx):
    res = ctx.res
    K = consts()
    res.rule = ('probe: one request = one command line / address string / queue operation sequence through the real scanners (plain + ASan) and the model; '
                'exhaustive lines up to length %d over a %d-symbol alphabet, random lines around %d bytes. streams: one generated ex script or vi key stream on the '
                'ASan/UBSan editor. non-trivial = probe request longer than a few bytes, or a stream with multi-byte text; distinct = distinct request / stream'
                % (3 if ctx.quick else 4, len(ALPHA), K['EXLEN']))
    res.extra['exploration_note'] = 'the command-stream part is exploration (testing under sanitizers), not proof'
    exe = vlib.build_vi(asan=True)
    if ctx.replay:
        rp = json.load(open(ctx.replay))
        inp = rp.get('input')
        if isinstance(inp, dict) and inp.get('kind') in ('ex', 'vi'):
            case = case_from_json(inp)
            f = confirm(exe, case)
            res.evaluations += 1
            if f:
                r = run_case(exe, case, timeout=3 * TIMEOUT)
                res.violation({'what': f, 'input': case_json(case, f), 'expected': 'no sanitizer report, exit status 0, quit reached',
                               'observed': (r.err or b'')[-3000:].decode('utf-8', 'replace')})
            return
        run_probe_part(ctx, K)
        return
    run_corpus(ctx, exe)
    run_probe_part(ctx, K)
    n = int(os.environ.get('C05_STREAMS', '0') or 0) or (2500 if ctx.quick else 30000)
    explore(ctx, exe, 'ex', n)
    explore(ctx, exe, 'vi', n)
