"""C04 -- undo and redo restore exact earlier texts, one step per command.

(1) Line-buffer interface: harness/probe_undo.c (compiled against /repo's lbuf.c, plain and
    ASan) and the extracted Coq model (coq/UndoDefs.v) run the same operation lists -- every list
    up to a fixed length over a 10-operation alphabet on buffers of 0, 1 and 3 lines, random longer
    lists, lists that cross the growth points of the history array -- and the result code and
    the text after EVERY operation are compared.
(2) End to end: `vi -s -e` scripts of compound commands (ranges, :g with several commands,
    multi-line a/i/c, s///g, |-joined commands, put, filters) mixed with u / redo, the text read
    back with %p after every command; `vi -v` key streams with counted commands, u and ^R, the
    text written to a side file after every command.
(3) Several buffers (exbufs): 3-5 files, command lines that edit and then switch (or switch and then edit) in ONE line,
    later lines that come back and edit, then u / redo walks in every buffer; oracle = one undo stack per buffer, one step
    per command line per buffer; correspondence with the extracted table model (coq/UndoBufsDefs.v: BufsDefs with the edit
    log of UndoDefs in every slot) on the same histories.
(4) LARGE histories: at the line-buffer interface operation lists that log 100..5000 entries (thorough: 12000; probe-only lists
    to 9000 / 20000), steps of 1..1500 entries between two command boundaries, totals aimed at the growth points of hist[]
    (HIST_INIT * 2^k, +-1) and at typical cap values, followed by COMPLETE undo and redo walks (with and without the bump the
    editor makes after every u / redo), probe vs. extracted model vs. stack oracle after every operation; end to end `:%s`, `:g`,
    `:v`, range `s`, counted `>>` / `<<` / `.` over files of 129 .. 2600 lines (every line carries its identity), two to four such
    commands, u down to the loaded file (and once more), redo back up (and once more), the text read back after every step;
    a blind variant with nothing between the command lines.  A history that silently forgets, merges or splits old entries
    cannot pass these (theorems C04_undo_walk_complete / C04_history_never_truncated say the model never does).
Oracle (the property itself, evaluated on the implementation's texts, independent of the model):
a stack of earlier texts keyed by command number.
"""
import itertools, json, os, re, subprocess, glob
from concurrent.futures import ProcessPoolExecutor
import vlib

GROUP = 'undo'
TRUSTED = ['the Python undo-stack oracle of tools/props/c04.py (a list of earlier texts keyed by command number; one such list per buffer in the several-buffer stream, buffers recognised by a tag in every line)',
           'ocaml/drv_undobufs.ml (driver of the extracted several-buffer model); in that correspondence an editing command is abstracted to one lbuf_edit call carrying the text observed after it',
           'tools/c2clite.py + clang -ast-dump=json (syntax printer of the translated lbuf.c functions lbuf_replace, lbuf_opt, lbuf_edit, lbuf_undo, lbuf_redo, lopt_done, linecount, the mark helpers, and uc.c uc_dup) and the C semantics fixed in coq/CLite.v (incl. the builtin BMemsetI for memset on an int array); in the theorems about the undo bookkeeping (C04_tr_lbuf_opt / _edit / _undo / _redo) lbuf_replace and lbuf_cp are oracles (replace_oracle, cp_oracle) and a buffer with hist == NULL is not covered (memcpy(hist, NULL, 0))']

# ---------------------------------------------------------------------------------------------
# line-buffer level


def hx(b):
    return b.hex() if b else '-'


def E(b, e, t):
    return 'E%d,%d,%s' % (b, e, 'N' if t is None else hx(t))


ALPHA = [E(0, 0, b'x\n'), E(1, 2, None), E(0, 1, b'y\nz\n'), E(9, 9, b'w'), E(0, 0, None), E(0, 9, None),
         E(1, 1, b''), 'M', 'U', 'R']
INITS = [b'', b'a\n', b'a\nb\nc\n']


def lines_of(b):
    if not b:
        return []
    p = b.split(b'\n')
    if b.endswith(b'\n'):
        p = p[:-1]
    return [x + b'\n' for x in p]


def parse_op(o):
    if o[0] == 'E':
        b, e, t = o[1:].split(',')
        return ('E', int(b), int(e), None if t == 'N' else vlib.unhx(t))
    return (o[0],)


def oracle_seq(init, ops, answers):
    """The property on the implementation's answers.  Returns None or (index, what, expected, observed)."""
    cur = init if init.endswith(b'\n') or not init else init + b'\n'
    past, future, q = [], [], 0
    if len(answers) != len(ops):
        return (len(answers), 'the probe answered %d of %d operations' % (len(answers), len(ops)), len(ops), len(answers))
    for i, (o, a) in enumerate(zip(ops, answers)):
        try:
            rc, _flag, th = a.split(',')
            now = vlib.unhx(th)
        except ValueError:
            return (i, 'the text after this operation is not printable as lines (corrupted line table)', 'rc,flag,hex', a[:200])
        op = parse_op(o)
        k = op[0]
        if k == 'E':
            n = cur.count(b'\n')
            b, e = min(op[1], n), min(op[2], n)
            if b == e and op[3] is None:
                if now != cur:
                    return (i, 'an empty change (no text, empty range) altered the text', cur, now)
            else:
                if not (past and past[-1][0] == q):
                    past.append((q, cur))
                future = []
                cur = now
        elif k == 'M':
            q += 1
            if now != cur:
                return (i, 'the command boundary (lbuf_modified) altered the text', cur, now)
        elif k == 'U':
            if past:
                qq, t = past.pop()
                if rc != '0' or now != t:
                    return (i, 'undo did not restore the text before the most recent not-yet-undone command', 'rc 0, text %r' % t, 'rc %s, text %r' % (rc, now))
                future.append((qq, cur))
                cur = now
            elif rc == '0' or now != cur:
                return (i, 'undo at the start of history must fail and leave the text alone', 'rc 1, text %r' % cur, 'rc %s, text %r' % (rc, now))
        elif k == 'R':
            if future:
                qq, t = future.pop()
                if rc != '0' or now != t:
                    return (i, 'redo did not reinstate what the matching undo removed', 'rc 0, text %r' % t, 'rc %s, text %r' % (rc, now))
                past.append((qq, cur))
                cur = now
            elif rc == '0' or now != cur:
                return (i, 'redo with an empty redo branch must fail and leave the text alone (a new edit after an undo discards the branch)', 'rc 1, text %r' % cur, 'rc %s, text %r' % (rc, now))
        elif k == 'K':
            past, future = [], []
            if now != cur:
                return (i, 'marking the buffer saved altered the text', cur, now)
        else:
            if now != cur:
                return (i, 'marking the buffer saved/unsaved altered the text', cur, now)
    return None


def strip_flag(line, ops=None):
    """keep what C04 names: result of undo/redo and the text (the modified flag, also as the result of M, is C02's)"""
    if not line:
        return line
    ws = line.split(' ')
    return ' '.join(('0' if (ops and i < len(ops) and ops[i] == 'M') else w.split(',')[0]) + ',' + w.split(',')[-1] for i, w in enumerate(ws))


def run_exe(exe, lines, timeout=900):
    r = subprocess.run([exe], input='\n'.join(lines) + '\n', stdout=subprocess.PIPE, stderr=subprocess.PIPE, text=True, timeout=timeout)
    out = r.stdout.split('\n')[:-1]        # an unterminated last line (process killed in the middle of an answer) is dropped
    return r.returncode, out, r.stderr


def chunk_worker(args):
    """Runs probe (and model) on a chunk of cases; returns counts and the first few problems."""
    probe, model, cases = args
    lines = [hx(init) + ' ' + ' '.join(ops) for init, ops in cases]
    viol, dis, ntv = [], [], 0
    crashes = []
    out_c = []
    start = 0
    while start < len(lines):
        rc, out, err = run_exe(probe, lines[start:])
        out_c += out[:len(lines) - start]
        if rc == 0 and len(out_c) == len(lines):
            break
        # the probe flushes after every answer: the request after the last answer is the one that killed it
        k = len(out_c)
        if k >= len(lines):
            break
        rc1, out1, err1 = run_exe(probe, [lines[k]])        # confirm alone
        if rc1 != 0 or len(out1) != 1:
            crashes.append({'case': cases[k], 'what': 'probe_undo killed (status %d) by this operation list: %s' % (rc1, (err1 or err)[-1200:])})
            out_c.append('')
        else:
            out_c.append(out1[0])
        start = k + 1
        if len(crashes) >= 3:
            out_c += [''] * (len(lines) - len(out_c))
            break
    if model:
        rc, out_m, err = run_exe(model, lines)
        if rc != 0 or len(out_m) != len(lines):
            dis.append({'what': 'model driver: rc=%d, %d answers for %d requests' % (rc, len(out_m), len(lines)), 'stderr': err[-800:]})
        else:
            for (init, ops), a, b in zip(cases, out_c, out_m):
                if a and a != b and strip_flag(a, ops) != strip_flag(b, ops) and len(dis) < 5:
                    dis.append({'what': 'model and implementation differ on the result code or the text after some operation',
                                'input': {'kind': 'lbuf', 'init': hx(init), 'ops': ops}, 'implementation': strip_flag(a, ops), 'model': strip_flag(b, ops)})
    for (init, ops), a in zip(cases, out_c):
        if not a:
            continue
        ans = a.split(' ')
        bad = oracle_seq(init, ops, ans)
        if 'U' in ops and 'R' in ops:
            ntv += 1
        if bad and len(viol) < 5:
            viol.append({'init': hx(init), 'ops': ops, 'bad': bad})
    return {'n': len(cases), 'crashes': crashes, 'viol': viol, 'dis': dis, 'ntv': ntv}


def rand_text(rng):
    n = rng.choice([0, 1, 1, 2, 3])
    ws = [b'p', b'qq', b'', b'r s', b'\xc3\xa9t']
    t = b''.join(rng.choice(ws) + b'\n' for _ in range(n))
    if t and rng.chance(1, 4):
        t = t[:-1]              # unterminated last line
    return t


def rand_ops(rng, n):
    ops = []
    for _ in range(n):
        k = rng.below(20)
        if k < 8:
            b = rng.below(5)
            e = b + rng.choice([0, 0, 1, 1, 2, 5])
            t = None if rng.chance(1, 3) else rand_text(rng)
            ops.append(E(b, e, t))
        elif k < 12:
            ops.append('M')
        elif k < 17:
            ops.append('U')
        else:
            ops.append('R')
    return ops


def capacity_cases(rng, hist_init):
    """operation lists that cross the growth points of hist[] (hist_init, 2*hist_init, 4*hist_init entries)"""
    cases = []
    for n in sorted(set([hist_init - 1, hist_init, hist_init + 1, 2 * hist_init, 2 * hist_init + 1, 4 * hist_init + 1])):
        for grouped in (False, True):
            ops = []
            for i in range(n):
                ops.append(E(i % 3, i % 3 + (i % 2), b'%d\n' % i))
                if not grouped or i % 7 == 0:
                    ops.append('M')
            ops += ['U'] * (5 if grouped else 9) + ['R'] * 3 + [E(0, 0, b'z\n'), 'R', 'M'] + ['U'] * 4
            cases.append((b'a\nb\n', ops))
    return cases


# ---------------------------------------------------------------------------------------------
# LARGE histories at the line-buffer interface: operation lists that log 100..5000 entries (steps of 1..1500 entries between two
# command boundaries), then COMPLETE undo and redo walks.  The buffer stays small (2..8 short lines) and every inserted line is a
# fresh token, so that every text of the history differs from every other one and the answers stay short.  Totals are aimed at
# the growth points of hist[] (HIST_INIT * 2^k and +-1) and at typical cap values (1000, 1024, 2000, 2048, 4096): an implementation
# that silently forgets, merges or splits old entries once the log is long cannot bring every earlier text back.

B36 = '0123456789abcdefghijklmnopqrstuvwxyz'


def tok36(n):
    s = ''
    while True:
        s = B36[n % 36] + s
        n //= 36
        if not n:
            return s.encode()


def big_totals(hist_init, top):
    pts = set()
    k = hist_init
    while k <= top:
        pts.update([k - 1, k, k + 1])
        k *= 2
    for c in (1000, 2000, 3000, 5000):
        if c <= top:
            pts.update([c, c + 1])
    return sorted(p for p in pts if p >= 100)


def big_steps(rng, total, profile):
    """sizes of the steps (entries logged between two command boundaries), summing to `total`"""
    if profile == 'one':                      # one compound command (`:%s` over `total` lines), maybe small ones around it
        pre = [rng.range(1, 3) for _ in range(rng.below(3))]
        post = [rng.range(1, 3) for _ in range(rng.below(3))]
        big = total - sum(pre) - sum(post)
        return pre + [big] + post if big > 0 else [total]
    if profile == 'equal':                    # k equal compound commands (`:%s` k times on the same file)
        k = rng.choice([2, 3, 3, 4, 5])
        m = max(1, total // k)
        sizes = [m] * k
        sizes[-1] += total - m * k
        return [s for s in sizes if s > 0]
    sizes, left = [], total
    while left > 0:
        if profile == 'small':                # ordinary editing: one or two entries per command
            s = rng.choice([1, 1, 1, 2, 3])
        else:                                 # 'mixed': compound steps of 1..1500 entries
            s = rng.choice([1, 1, 2, 5, 17, 50, 128, 129, 300, 700, 1024, 1500])
        s = min(s, left)
        sizes.append(s)
        left -= s
    return sizes


BIG_MAX_OPS = 60000          # harness/probe_undo.c splits a request into at most 65536 words


def big_case(rng, total, profile, hist_init):
    c = big_case1(rng, total, profile, hist_init)
    for prof in ('mixed', 'equal', 'one'):
        if c[1]['ops'] <= BIG_MAX_OPS:
            break
        c = big_case1(rng, total, prof, hist_init)
    return c


def big_case1(rng, total, profile, hist_init):
    nl0 = rng.range(2, 5)
    init = b''.join(b'%c\n' % (65 + i) for i in range(nl0))
    nl = nl0
    ctr = [0]
    ops = []

    def edit():
        nonlocal nl
        ctr[0] += 1
        t = tok36(ctr[0]) + b'\n'
        k = rng.below(10)
        if k < 6 or (k < 8 and nl >= 8) or (k >= 8 and nl <= 2):
            p = rng.below(nl)
            ops.append(E(p, p + 1, t))          # replace one line (what :s, >>, ~ do per line)
        elif k < 8:
            p = rng.below(nl + 1)
            ops.append(E(p, p, t))              # insert a line
            nl += 1
        else:
            p = rng.below(nl)
            ops.append(E(p, p + 1, None))       # delete a line
            nl -= 1

    sizes = big_steps(rng, total, profile)
    for s in sizes:
        for _ in range(s):
            edit()
        ops.append('M')
    ns = len(sizes)
    bump = rng.chance(1, 2)                     # the editor calls lbuf_modified after every u / redo as well

    def walk(op, n):
        for _ in range(n):
            ops.append(op)
            if bump:
                ops.append('M')
    walk('U', ns + 1)                           # all the way down; the last one must fail on the loaded text
    walk('R', ns + 1)                           # all the way up; the last one must fail
    j = rng.range(1, ns)
    walk('U', j)
    if rng.chance(1, 2):
        walk('R', rng.range(0, j))
    else:
        for _ in range(rng.choice([1, 2, 40])):   # a new command after an undo: the redo branch goes
            edit()
        ops.append('M')
        walk('R', 1)
    walk('U', ns + 2)                           # down to the loaded text again, and beyond
    return (init, ops), {'entries': total, 'steps': ns, 'largest_step': max(sizes), 'profile': profile, 'ops': len(ops)}


def big_cases(rng, hist_init, quick):
    top = 5000 if quick else 12000
    totals = big_totals(hist_init, top)
    cases = []
    for k, t in enumerate(totals):
        profs = ['mixed', rng.choice(['one', 'equal', 'small'])] if quick else ['mixed', 'one', 'equal', 'small']
        if quick and t >= 4000:
            profs = [profs[k % 2]]            # the extracted model is quadratic in the length of the log: one list per total up there
        for prof in profs:
            if prof == 'small' and t > 2100 and quick:
                prof = 'equal'
            cases.append(big_case(rng, t, prof, hist_init))
    for _ in range(8 if quick else 60):
        t = rng.range(100, top)
        cases.append(big_case(rng, t, rng.choice(['mixed', 'mixed', 'one', 'equal', 'small'] if t <= 2100 else ['mixed', 'one', 'equal']), hist_init))
    return cases


# ---------------------------------------------------------------------------------------------
# end to end: ex scripts

WORDS =['ax', 'bxx', 'cab', 'dxa', 'eee', 'fax', 'gag', 'hxh']


def ex_script(rng, ncmd):
    """Returns (initial file bytes, list of (kind, command text)) -- kind 'm' (may modify), 'u', 'r'."""
    nl = rng.range(2, 7)
    init = ''.join('%s%d %s\n' % (rng.choice(WORDS), i, rng.choice(WORDS)) for i in range(nl)).encode()
    cmds = []
    uniq = [0]

    def addr():
        return rng.choice(['1', '2', '3', '$', '$-1', '2', '1'])

    def rng2():
        a = rng.choice(['1', '2', '1', '2', '3'])
        b = rng.choice(['$', '$-1', '3', '4', '$'])
        return a + ',' + b

    def txt(n):
        out = []
        for _ in range(n):
            uniq[0] += 1
            out.append('t%d %s' % (uniq[0], rng.choice(WORDS)))
        return '\n'.join(out)

    def one():
        k = rng.below(16)
        if k == 0:
            return '%sd' % addr()
        if k == 1:
            return '%sd' % rng2()
        if k == 2:
            return '%sa\n%s\n.' % (addr(), txt(rng.range(1, 3)))
        if k == 3:
            return '%si\n%s\n.' % (addr(), txt(rng.range(1, 3)))
        if k == 4:
            return '%sc\n%s\n.' % (rng.choice([addr(), rng2()]), txt(rng.range(1, 4)))
        if k == 5:
            return '%ss/x/Y/g' % rng.choice([addr(), rng2(), '%'])
        if k == 6:
            uniq[0] += 1
            return '%%s/^/P%d/' % uniq[0]
        if k == 7:
            uniq[0] += 1
            return 'g/%s/s/$/ G%d/' % (rng.choice(['a', 'x', 'e', 't', '[0-9]']), uniq[0])
        if k == 8:
            return '%s/%s/d' % (rng.choice(['g', 'v', 'g']), rng.choice(['xx', 'ab', 'ee', 'g', 't[0-9]*[13579] ']))
        if k == 9:
            uniq[0] += 1
            return 'g/%s/s/a/A%d/|s/$/ H/' % (rng.choice(['a', 'x']), uniq[0])
        if k == 10:
            uniq[0] += 1
            return '%sd|%ss/$/ J%d/' % (addr(), addr(), uniq[0])
        if k == 11:
            return '%sy|%spu' % (rng.choice([addr(), rng2()]), addr())
        if k == 12:
            uniq[0] += 1
            return '%ss/^/K%d /|%sd|$a\n%s\n.' % (addr(), uniq[0], addr(), txt(1))
        if k == 13:
            return 'w|%s!tr a-z A-Z' % rng2()
        if k == 14:
            return rng.choice(['%sp' % addr(), '=', '%sk a' % addr(), 'ec hi', '%sy' % addr()])
        uniq[0] += 1
        return '%ss/\\(.\\)\\(.\\)/\\2\\1 L%d/' % (rng2(), uniq[0])

    for _ in range(ncmd):
        r = rng.below(10)
        if r < 5:
            cmds.append(('m', one()))
        elif r < 8:
            cmds.append(('u', 'u'))
        else:
            cmds.append(('r', 'redo'))
    return init, cmds


def ex_bytes(cmds):
    s = ['ec @@0@@', '%p', 'ec @@-@@']
    for i, (k, c) in enumerate(cmds):
        s.append(c)
        s.append('ec @@%d@@' % (i + 1))
        s.append('%p')
        s.append('ec @@-@@')
    s.append('ec @@END@@')
    s.append('q!')
    return ('\n'.join(s) + '\n').encode()


def ex_texts(out, n):
    """texts after the markers @@0@@ .. @@n@@; None if the output is not complete"""
    parts = re.split(rb'@@(\d+|END|-)@@', out)
    got = {}
    for i in range(1, len(parts) - 1, 2):
        got[parts[i]] = parts[i + 1]
    if b'END' not in got:
        return None
    res = []
    for i in range(n + 1):
        if str(i).encode() not in got:
            return None
        res.append(got[str(i).encode()])
    return res


def stack_oracle(kinds, texts):
    """Non-deterministic stack spec on observed texts: a command that leaves the text as it was may
    or may not have logged an undo step; every other ambiguity is excluded by the texts."""
    states = {((), ())}
    for i, k in enumerate(kinds):
        prev, now = texts[i], texts[i + 1]
        new = set()
        if k == 'm':
            for past, fut in states:
                if now == prev:
                    new.add((past, fut))
                new.add((past + (prev,), ()))
            expected = None
        elif k == 'u':
            exp = set()
            for past, fut in states:
                if past:
                    exp.add(past[-1])
                    if now == past[-1]:
                        new.add((past[:-1], fut + (prev,)))
                else:
                    exp.add(prev)
                    if now == prev:
                        new.add((past, fut))
            expected = exp
        else:
            exp = set()
            for past, fut in states:
                if fut:
                    exp.add(fut[-1])
                    if now == fut[-1]:
                        new.add((past + (prev,), fut[:-1]))
                else:
                    exp.add(prev)
                    if now == prev:
                        new.add((past, fut))
            expected = exp
        if not new:
            what = ('undo did not restore the text before the most recent not-yet-undone modifying command' if k == 'u'
                    else 'redo did not reinstate what the matching undo removed (or a redo branch survived a new edit)')
            return (i, what, sorted(expected), now)
        states = new
    return None


def run_ex_case(exe, init, cmds, timeout=20):
    script = ex_bytes(cmds)
    r = vlib.run_ex(exe, script, files={'f.txt': init}, args=['f.txt'], timeout=timeout)
    if r.timed_out:
        r = vlib.run_ex(exe, script, files={'f.txt': init}, args=['f.txt'], timeout=3 * timeout)
    if r.crashed():
        r2 = vlib.run_ex(exe, script, files={'f.txt': init}, args=['f.txt'], timeout=3 * timeout)
        if r2.crashed():
            return ('crash', 'editor crashed or hung (rc=%s timed_out=%s): %s' % (r2.rc, r2.timed_out, r2.err[-600:]))
        r = r2
    texts = ex_texts(r.out, len(cmds))
    if texts is None:
        return ('incomplete', r.out[-300:])
    bad = stack_oracle([k for k, _ in cmds], texts)
    return ('bad', bad, texts) if bad else ('ok', texts)


# end to end: vi keys

def vi_keys(rng, ncmd):
    init = ''.join('%s%d %s %s\n' % (rng.choice(WORDS), i, rng.choice(WORDS), rng.choice(WORDS)) for i in range(rng.range(3, 7))).encode()
    pool = ['3dd', 'dd', '2x', 'x', 'ihello \x1b', '3iab\x1b', 'A end\x1b', 'onew line\nsecond\x1b', 'Otop\x1b', '2J', 'J', 'dw', '2dw',
            'cwXY\x1b', 'D', 'p', 'P', '2p', '.', '~', '3~', 'rZ', '2rQ', '>>', '2<<', ':2,3d\n', ':g/a/s/a/@/\n', '3>>', '2dd', 'yy', '2yy']
    moves = ['j', 'k', 'w', '0', '$', 'G', '1G', 'l']
    cmds = []
    for _ in range(ncmd):
        r = rng.below(10)
        if r < 5:
            cmds.append(('m', rng.choice(moves) + rng.choice(pool)))
        elif r < 8:
            cmds.append(('u', 'u'))
        else:
            cmds.append(('r', '\x12'))
    return init, cmds


def run_vi_case(exe, init, cmds, timeout=20):
    keys = ':w! s0\n'
    for i, (k, c) in enumerate(cmds):
        keys += c + ':w! s%d\n' % (i + 1)
    keys += ':q!\n'
    names = ['s%d' % i for i in range(len(cmds) + 1)]
    r = vlib.run_vi(exe, keys.encode(), files={'f.txt': init}, args=['f.txt'], readback=names, timeout=timeout)
    if r.timed_out or r.crashed():
        r = vlib.run_vi(exe, keys.encode(), files={'f.txt': init}, args=['f.txt'], readback=names, timeout=3 * timeout)
        if r.timed_out or r.crashed():
            return ('crash', 'editor crashed or hung (rc=%s timed_out=%s): %s' % (r.rc, r.timed_out, r.err[-600:]))
    texts = [r.files.get(n) for n in names]
    if any(t is None for t in texts):
        return ('incomplete', b'')
    bad = stack_oracle([k for k, _ in cmds], texts)
    return ('bad', bad, texts) if bad else ('ok', texts)


# ---------------------------------------------------------------------------------------------
# end to end, LARGE histories: files of 129 .. 2600 lines (every line carries its identity `L<i>`), two to four compound commands
# that log one entry (or two) per line -- `:%s`, `:g` / `:v` with one or two commands, a range `s`, counted `>>` / `<<` / `.` in vi --
# then u all the way down to the file as loaded (and once more: must fail), redo all the way up (and once more), a partial walk
# and sometimes a new command that cuts the redo branch.  The text is read back after EVERY step; oracle = the undo stack on the
# observed texts; the report names the lines (by identity) that are wrong.

BIG_NL = [129, 513, 1100, 2100, 2600]


def big_file(nl, variant):
    ws = WORDS
    return ''.join('L%d %s\n' % (i, ws[(i * 7 + variant) % len(ws)]) for i in range(1, nl + 1)).encode()


def big_nl(rng):
    r = rng.below(10)
    if r < 7:
        return rng.choice(BIG_NL) + rng.choice([0, 0, 0, -1, 1])
    if r < 9:
        return rng.choice([257, 700, 1025, 2049, 1366, 342])
    return rng.range(100, 2700)


def big_ex_case(rng):
    nl, variant = big_nl(rng), rng.below(8)
    uniq = [0]

    def one():
        uniq[0] += 1
        n = uniq[0]
        k = rng.below(12)
        if k < 3:
            return '%%s/^/P%d/' % n
        if k < 5:
            return '%%s/$/ Q%d/' % n
        if k == 5:
            a = rng.range(1, max(1, nl // 3))
            return '%d,%ds/^/R%d/' % (a, rng.range(nl - nl // 3, nl), n)
        if k < 8:
            return 'g/%s/s/$/ G%d/' % (rng.choice(['.', 'x', 'a', '^L[0-9]*[13579] ', '[05] ']), n)
        if k == 8:
            return 'g/./s/^/a%d/|s/$/ b%d/' % (n, n)
        if k == 9:
            return 'v/%s/s/^/V%d/' % (rng.choice(['^L[0-9]*0 ', 'xx', 'gag']), n)
        if k == 10:
            return '%%s/ / W%d /' % n
        return rng.choice(['1s/^/S%d/' % n, '$s/$/ T%d/' % n, '2d', '$-1d'])      # an ordinary one-entry command in between
    cmds = [('m', one()) for _ in range(rng.choice([2, 3, 3, 4]))]
    ns = len(cmds)
    walk = [('u', 'u')] * (ns + 1) + [('r', 'redo')] * (ns + 1)
    j = rng.range(1, ns)
    walk += [('u', 'u')] * j
    if rng.chance(1, 2):
        walk += [('m', one()), ('r', 'redo')]
    else:
        walk += [('r', 'redo')] * rng.range(0, j)
    walk += [('u', 'u')] * (ns + 2)
    return {'kind': 'bigex', 'nl': nl, 'variant': variant, 'cmds': [list(c) for c in cmds + walk]}


def big_vi_case(rng):
    nl, variant = big_nl(rng), rng.below(8)
    uniq = [0]

    def one(first):
        uniq[0] += 1
        n = uniq[0]
        cnt = rng.choice([nl, nl, nl - 1, nl // 2 + 1, nl + 5])
        k = rng.below(10)
        if k < 4 or first:
            return '1G%d>>' % cnt
        if k < 6:
            return '1G%d<<' % cnt
        if k == 6:
            return '1G.'                      # repeats the previous command with its count
        if k == 7:
            return ':%%s/^/P%d/\n' % n
        if k == 8:
            return ':g/./s/$/ G%d/\n' % n
        return rng.choice(['Gx', '1GA e%d\x1b' % n, '2Gdd'])
    cmds = [('m', one(i == 0)) for i in range(rng.choice([2, 3, 3, 4]))]
    ns = len(cmds)
    walk = [('u', 'u')] * (ns + 1) + [('r', '\x12')] * (ns + 1)
    j = rng.range(1, ns)
    walk += [('u', 'u')] * j + [('r', '\x12')] * rng.range(0, j) + [('u', 'u')] * (ns + 2)
    return {'kind': 'bigvi', 'nl': nl, 'variant': variant, 'pre': rng.choice(['', ':se noru\n']), 'cmds': [list(c) for c in cmds + walk]}


def ident_diff(want, got):
    """which lines (by their identity L<i>) differ between two texts; a short description"""
    def index(t):
        d = {}
        for ln in t.split(b'\n'):
            m = re.search(rb'L(\d+) ', ln)
            key = m.group(1) if m else ln
            d.setdefault(key, []).append(ln)
        return d
    a, b = index(want), index(got)
    wrong = [k for k in a if a[k] != b.get(k)] + [k for k in b if k not in a]
    ex = []
    for k in wrong[:3]:
        ex.append('line %s: expected %r, observed %r' % (k.decode('latin-1'), b' / '.join(a.get(k, [b'(absent)'])), b' / '.join(b.get(k, [b'(absent)']))))
    first = wrong[0].decode('latin-1') if wrong else '-'
    last = wrong[-1].decode('latin-1') if wrong else '-'
    return '%d of %d lines wrong (identities %s .. %s); %s' % (len(wrong), want.count(b'\n'), first, last, '; '.join(ex))


def run_big_case(exe, case, timeout=30):
    init = big_file(case['nl'], case['variant'])
    cmds = [tuple(c) for c in case['cmds']]
    if case['kind'] == 'bigex':
        r = run_ex_case(exe, init, cmds, timeout)
    else:
        pre = case.get('pre', '')
        r = run_vi_case(exe, init, ([('m', pre)] if pre else []) + cmds, timeout)
        if pre and r[0] == 'bad':
            r = ('bad', (r[1][0] - 1,) + tuple(r[1][1:]), r[2][1:])
        elif pre and r[0] == 'ok':
            r = ('ok', r[1][1:])
    return r


def big_changed(case, texts):
    """number of modifying commands of the build phase that changed at least 100 lines (a compound step)"""
    n = 0
    for i, (k, c) in enumerate(case['cmds']):
        if k != 'm':
            break
        a, b = texts[i].split(b'\n'), texts[i + 1].split(b'\n')
        if len(a) == len(b) and sum(1 for x, y in zip(a, b) if x != y) >= 100:
            n += 1
    return n


FAIL_TAILS = ['/nosuchtext/', '99p', "'zp", 's/nomatchhere/x/', 'w /nonexistent-dir/x', '?nosuchtext?', '99,100d', 'e /nonexistent-dir/y|', 'unknowncmd']


def ex_walk(rng):
    """modifying command lines -- some of them a modifying command + `|` + a FAILING tail (no match, bad
    address, unset mark, failed write, unknown command) -- then j undos and i <= j redos with no other command
    line in between: only the bump at the end of ex_command separates the lines"""
    nl = rng.range(3, 6)
    init = ''.join('%s%d %s\n' % (rng.choice(WORDS), i, rng.choice(WORDS)) for i in range(nl)).encode()
    n = rng.choice([2, 2, 3, 4, 6])
    cmds = []
    for k in range(n):
        a = rng.choice(['1', '2', '3', '$'])
        m = rng.choice(['%ss/^/M%d /' % (a, k), '%ss/$/ N%d/' % (a, k), '%sd' % a, '%sy|%spu' % (a, a), '%ss/./Z%d/' % (a, k)])
        r = rng.below(3)
        if r == 0:
            m = m + '|' + rng.choice(FAIL_TAILS).rstrip('|')
        elif r == 1:
            m = m + '|' + rng.choice(['1p', '=', 'ec ok'])
        cmds.append(('m', m))
    j = rng.range(1, n)
    i = rng.range(0, j)
    return init, cmds, j, i


def run_ex_walk(exe, init, cmds, j, i, timeout=20):
    r = run_ex_case(exe, init, cmds, timeout)          # observed run: reference texts after every line
    if r[0] != 'ok':
        return ('incomplete', b'')
    T = r[1]
    if any(T[k] == T[k + 1] for k in range(len(cmds))):
        return ('ambiguous', b'')
    script = '\n'.join([c for _, c in cmds] + ['u'] * j + ['redo'] * i + ['ec @@1@@', '%p', 'ec @@-@@', 'q!']) + '\n'
    r = vlib.run_ex(exe, script.encode(), files={'f.txt': init}, args=['f.txt'], timeout=timeout)
    if r.timed_out or r.crashed():
        r = vlib.run_ex(exe, script.encode(), files={'f.txt': init}, args=['f.txt'], timeout=3 * timeout)
        if r.timed_out or r.crashed():
            return ('crash', 'editor crashed or hung (rc=%s timed_out=%s): %s' % (r.rc, r.timed_out, r.err[-600:]))
    m = re.search(rb'@@1@@(.*?)@@-@@', r.out, re.S)
    out = m.group(1) if m else None
    want = T[len(cmds) - j + i]
    if out != want:
        return ('bad', (len(cmds) + j + i - 1, '%d command lines, %d undos, %d redos with nothing in between: the text is not the one after line %d' % (len(cmds), j, i, len(cmds) - j + i), [want], out), T)
    return ('ok', T)


def vi_walk(rng):
    """modifying commands only, then j undos and i <= j redos with NOTHING in between (no ex
    command that would bump the counter): the vi() loop tail alone separates the commands"""
    init, cmds = vi_keys(rng, rng.choice([2, 3, 5, 8]))
    cmds = [('m', rng.choice(['j', 'k', 'w', '0', '$', 'G', '1G', 'l']) + rng.choice(['x', 'dd', 'ihi \x1b', 'A e\x1b', 'onl\x1b', '2x', 'rZ', '~', 'dw', 'J']))
            for _ in cmds]
    j = rng.range(1, len(cmds) + 1)
    i = rng.range(0, j)
    # half of the walks with the ruler off: the status line otherwise calls lbuf_modified too
    return init, cmds, j, i, rng.choice(['', ':se noru\n'])


def run_vi_walk(exe, init, cmds, j, i, pre='', timeout=20):
    keys = pre + ':w! s0\n'
    for k, (_, c) in enumerate(cmds):
        keys += c + ':w! s%d\n' % (k + 1)
    names = ['s%d' % k for k in range(len(cmds) + 1)]
    r = vlib.run_vi(exe, (keys + ':q!\n').encode(), files={'f.txt': init}, args=['f.txt'], readback=names, timeout=timeout)
    T = [r.files.get(n) for n in names]
    if r.timed_out or r.crashed() or any(t is None for t in T):
        return ('incomplete', b'')
    if any(T[k] == T[k + 1] for k in range(len(cmds))):
        return ('ambiguous', b'')
    keys2 = pre + ''.join(c for _, c in cmds) + 'u' * j + '\x12' * i + ':w! out\n:q!\n'
    r = vlib.run_vi(exe, keys2.encode(), files={'f.txt': init}, args=['f.txt'], readback=['out'], timeout=timeout)
    if r.timed_out or r.crashed():
        r = vlib.run_vi(exe, keys2.encode(), files={'f.txt': init}, args=['f.txt'], readback=['out'], timeout=3 * timeout)
        if r.timed_out or r.crashed():
            return ('crash', 'editor crashed or hung (rc=%s timed_out=%s): %s' % (r.rc, r.timed_out, r.err[-600:]))
    out = r.files.get('out')
    want = T[max(0, len(cmds) - j) + (i if j <= len(cmds) else max(0, i - (j - len(cmds))))] if j <= len(cmds) else None
    if j > len(cmds):
        want = T[min(len(cmds), i)]
    if out != want:
        return ('bad', (len(cmds) + j + i - 1, '%d commands, %d undos, %d redos: the text is not the one after command %d' % (len(cmds), j, i, T.index(want)), [want], out), T)
    return ('ok', T)


# ---------------------------------------------------------------------------------------------
# end to end: several buffers (exbufs).  Phase 1 = command lines `p1|p2|...` whose parts edit the current buffer
# (absolute addresses only) and switch (e! name, e! #, and with `se wa` also e / b N / b # / b ^ / b + / b - / next /
# prev; q with a modified buffer), phase 2 = a walk: enter a buffer by name, u / redo / a new edit, the text read
# back after every step.  Two runs: the OBSERVED run prints the text after every PART of every phase-1 line (markers
# inside the line: no command boundary is added) and gives, per buffer, the list of texts after every line that
# changed it; the BLIND run has nothing between the phase-1 lines, so that only the bumps of bufs_switch() and of
# ex_command() separate the undo steps.  Oracle: per-buffer undo stacks, one step per command line per buffer (a line
# that edits A, switches and edits B makes one step in each); buffers are recognised by a tag F<k> in every line.

BTAG = re.compile(rb'\bF(\d)\b')
BVIEW = 'view0'


def bufs_files(rng, nf):
    files = {}
    for k in range(nf):
        nl = rng.range(4, 8)
        files['f%d' % k] = ''.join('%d%c F%d %s\n' % (k, 97 + i, k, rng.choice(WORDS)) for i in range(nl))
    return files


def bufs_case(rng, aimed):
    """Returns a case dict.  A small simulation of the buffer list (most recently used order, ids in opening
    order, argument position) only SHAPES the lines (which switch commands exist, never re-enter a buffer that the
    same line already edited); the oracle does not use it."""
    nf = rng.range(3, 5)
    names = ['f%d' % k for k in range(nf)]
    wa = not rng.chance(1, 3)
    mru, ids, pos = ['f0'], {'f0': 1}, [0]
    uniq = [0]
    edited = set()

    def enter(x):
        if x in mru:
            mru.remove(x)
        else:
            ids[x] = len(ids) + 1
        mru.insert(0, x)

    def edit_part(last):
        uniq[0] += 1
        n = uniq[0]
        a = rng.choice(['1', '2', '3', '$', '1', '2'])
        k = rng.below(12 if last else 10)
        if k < 2:
            return '%sd' % a
        if k < 5:
            return '%ss/^/T%d /' % (a, n)
        if k < 7:
            return '%ss/$/ U%d/' % (a, n)
        if k == 7:
            return '%sy|%spu' % (a, rng.choice(['1', '2', '$']))
        if k == 8:
            return '1,2s/$/ V%d/' % n
        if k == 9:
            return '%%s/^/P%d/' % n
        return 'g/%s/s/$/ G%d/' % (rng.choice(['F', 'a F', 'b F']), n)

    def switches(avoid):
        """(command text, target name) of every switch command that the simulation says goes to a buffer other than the
        current one and not in `avoid`"""
        out = []
        cur = mru[0]
        for x in names:
            if x != cur and x not in avoid:
                out.append(('e! %s' % x, x))
                if wa:
                    out.append(('e %s' % x, x))
                    if x in ids:
                        out.append(('b %d' % ids[x], x))
        if len(mru) >= 2 and mru[1] not in avoid:
            out.append(('e! #', mru[1]))
            if wa:
                out += [('b #', mru[1]), ('e #', mru[1])]
        if wa and len(mru) >= 3 and mru[2] not in avoid:
            out.append(('b ^', mru[2]))
        if wa:
            up = [x for x in mru if ids[x] > ids[cur]]
            dn = [x for x in mru if ids[x] < ids[cur]]
            if up:
                x = min(up, key=lambda y: ids[y])
                if x not in avoid:
                    out.append(('b +', x))
            if dn:
                x = max(dn, key=lambda y: ids[y])
                if x not in avoid:
                    out.append(('b -', x))
            if pos[0] + 1 < nf and names[pos[0] + 1] != cur and names[pos[0] + 1] not in avoid:
                out.append(('next', names[pos[0] + 1]))
            if pos[0] - 1 >= 0 and names[pos[0] - 1] != cur and names[pos[0] - 1] not in avoid:
                out.append(('prev', names[pos[0] - 1]))
        return out

    def do_switch(parts, avoid, want=None, far=False):
        sw = switches(avoid)
        if want is not None:
            sw = [s for s in sw if s[1] == want] or sw
        if far:         # the buffer entered is the third or a later one of the list, or a new one
            sw2 = [s for s in sw if s[1] not in mru[:2]]
            sw = sw2 or sw
        if not sw:
            return False
        c, x = rng.choice(sw)
        if c == 'next':
            pos[0] += 1
        elif c == 'prev':
            pos[0] -= 1
        parts.append(['s', c])
        enter(x)
        return True

    def do_edits(parts, touched, last_ok):
        n = rng.choice([1, 1, 2, 3])
        for i in range(n):
            parts.append(['e', edit_part(False)])
        touched.add(mru[0])
        edited.add(mru[0])

    HARMLESS = ['=', '1p', 'b 9', '/nosuchtext/', 'ec hi', "'zp", '99p']

    def line(shape, want=None, far=False):
        parts, touched = [], set()
        for k, ch in enumerate(shape):
            if ch == 'E':
                do_edits(parts, touched, k == len(shape) - 1)
            elif ch == 'S':
                do_switch(parts, touched, want, far)
            elif ch == 'x':
                parts.append(['x', rng.choice(HARMLESS)])
        r = rng.below(8)
        if parts and parts[-1][0] == 'e' and r > 2 and rng.chance(1, 4):
            parts[-1][1] = edit_part(True)           # g takes the rest of the line as its command list: last part only
        if r == 0:
            parts.append(['x', rng.choice(HARMLESS)])
        elif r == 1:
            parts.append(['x', 'b'])
        elif r == 2 and edited and mru[0] in edited:
            parts.append(['s', 'q'])           # current buffer modified: "buffer modified", bufs_switch(0)
        return parts

    SHAPES = ['ES', 'SE', 'ESE', 'SES', 'SESE', 'E', 'S', 'ExS', 'SxE', 'ESES']
    lines = []
    if aimed:
        # edit X and leave it in the same line for a buffer that is not the alternate one; maybe other lines that do
        # not enter X alone; then a line that comes back and edits
        for _ in range(rng.choice([0, 1, 2])):
            lines.append(line(rng.choice(['S', 'SE', 'ES'])))
        x = mru[0]
        lines.append(line(rng.choice(['ES', 'ES', 'ESE']), far=True))
        for _ in range(rng.choice([0, 0, 1, 2])):
            if mru[0] == x:
                break
            parts, touched = [], {x}
            for ch in rng.choice(['E', 'ES', 'SE']):
                if ch == 'E':
                    do_edits(parts, touched, False)
                else:
                    do_switch(parts, touched)
            if parts:
                lines.append(parts)
        if mru[0] != x:
            lines.append(line(rng.choice(['SE', 'SE', 'SES', 'ESE']), want=x))
        for _ in range(rng.choice([0, 1, 2])):
            lines.append(line(rng.choice(SHAPES)))
    else:
        for _ in range(rng.choice([4, 6, 9, 12])):
            lines.append(line(rng.choice(SHAPES)))
    lines = [l for l in lines if l]
    # phase 2
    opened = list(mru)
    rng.shuffle(opened)
    walk = []
    for rnd in range(2):
        for x in (opened if rnd == 0 else opened[:rng.below(len(opened) + 1)]):
            walk.append(['go', x])
            j = rng.range(1, 4)
            i = rng.range(0, j)
            walk += [['u']] * j + [['r']] * i
            if rng.chance(1, 3):
                uniq[0] += 1
                walk.append(['m', '%ss/^/W%d /' % (rng.choice(['1', '2', '$']), uniq[0])])
                walk += [['r']] + [['u']] * rng.range(1, 3) + [['r']] * rng.below(3)
    return {'kind': 'exbufs', 'files': bufs_files(rng, nf), 'wa': wa, 'lines': lines, 'walk': walk}


def bufs_ident(t):
    tags = set(BTAG.findall(t))
    return int(tags.pop()) if len(tags) == 1 else None


def bufs_observed(case):
    """script of the observed run: markers and %p after every part inside the line (no command boundary added),
    after the last part on lines of their own"""
    s = ['se wa'] if case['wa'] else []
    for k, parts in enumerate(case['lines']):
        ln = []
        for p, (kind, c) in enumerate(parts):
            ln.append(c)
            if p + 1 < len(parts):
                ln += ['ec @@%d.%d@@' % (k, p), '%p', 'ec @@-@@']
        s.append('|'.join(ln))
        s += ['ec @@%d.%d@@' % (k, len(parts) - 1), '%p', 'ec @@-@@']
    s += ['ec @@END@@', 'q!']
    return ('\n'.join(s) + '\n').encode()


def bufs_blind(case):
    s = ['se wa'] if case['wa'] else []
    for parts in case['lines']:
        s.append('|'.join(c for _, c in parts))
    for k, st in enumerate(case['walk']):
        s.append({'go': 'e! %s' % st[-1], 'u': 'u', 'r': 'redo', 'm': st[-1]}[st[0]])
        s += ['ec @@w.%d@@' % k, '%p', 'ec @@-@@']
    s += ['ec @@END@@', 'q!']
    return ('\n'.join(s) + '\n').encode()


def bufs_marks(out):
    parts = re.split(rb'@@([\w.]+|-)@@', out)
    got = {}
    for i in range(1, len(parts) - 1, 2):
        if parts[i] != b'-':
            got[parts[i].decode()] = parts[i + 1]
    return got if b'END' in parts else None


def bufs_reference(case, got):
    """per-buffer texts after every line that changed the buffer, from the observed run.
    Returns ('ok', {tag: [t0, t1, ..]}, per-part records) or ('ambiguous', why)"""
    files = {int(n[1:]): t.encode() for n, t in case['files'].items()}
    H = {0: [files[0]]}
    cur = 0
    recs = []
    for k, parts in enumerate(case['lines']):
        stepped = set()
        entry = H[cur][-1]
        seen = [entry]
        rec = []

        def close():
            if seen[-1] != entry:
                if cur in stepped:
                    return 'one line edits buffer f%d in two separate visits (leaving a buffer ends its step: a convention)' % cur
                stepped.add(cur)
                H[cur].append(seen[-1])
            elif any(t != entry for t in seen):
                return 'a visit changed the text and changed it back'
            return None
        for p, (kind, c) in enumerate(parts):
            t = got.get('%d.%d' % (k, p))
            if t is None:
                return ('ambiguous', 'incomplete output')
            if kind == 's':
                why = close()
                if why:
                    return ('ambiguous', why)
                x = bufs_ident(t)
                if x is None or x not in files:
                    return ('ambiguous', 'the buffer entered cannot be recognised (no line left)')
                cur = x
                if cur not in H:
                    H[cur] = [t]
                entry = t             # what the buffer holds when it is entered (C20 says: what it held when it was left)
                seen = [t]
            else:
                if kind == 'x' and c == 'b' and p + 1 < len(parts):
                    return ('ambiguous', 'buffer listing inside a visit')
                seen.append(t)
            rec.append((kind, c, cur, t))
        why = close()
        if why:
            return ('ambiguous', why)
        recs.append(rec)
    return ('ok', H, recs)


def bufs_oracle(case, H, got):
    """the walk of the blind run against per-buffer stacks.  None or (step, what, expected, observed)"""
    files = {int(n[1:]): t.encode() for n, t in case['files'].items()}
    st = {x: [list(h[:-1]), h[-1], []] for x, h in H.items()}
    cur = None
    for k, step in enumerate(case['walk']):
        now = got.get('w.%d' % k)
        if now is None:
            return (k, 'incomplete output', None, None)
        if step[0] == 'go':
            cur = int(step[1][1:])
            if cur not in st:
                st[cur] = [[], files[cur], []]
            if now != st[cur][1]:
                return (k, 'buffer %s entered again: its text is not the text it had after the last command line that changed it' % step[1], st[cur][1], now)
            continue
        past, t, fut = st[cur]
        if step[0] == 'u':
            if past:
                fut.append(t)
                t = past.pop()
                what = 'undo in buffer f%d did not restore the text before the most recent not-yet-undone modifying command line of that buffer' % cur
            else:
                what = 'undo at the start of the history of buffer f%d must leave the text alone' % cur
        elif step[0] == 'r':
            if fut:
                past.append(t)
                t = fut.pop()
                what = 'redo in buffer f%d did not reinstate what the matching undo removed' % cur
            else:
                what = 'redo with an empty redo branch in buffer f%d must leave the text alone' % cur
        else:
            if now != t:
                past.append(t)
                t = now
                del fut[:]
            what = ''
        st[cur][1] = t
        if now != t:
            return (k, what, t, now)
    return None


def run_bufs_case(exe, case, timeout=20):
    def ex(script):
        files = {n: t.encode() for n, t in case['files'].items()}
        args = sorted(files)
        r = vlib.run_ex(exe, script, files=files, args=args, timeout=timeout)
        if r.timed_out or r.crashed():
            r = vlib.run_ex(exe, script, files=files, args=args, timeout=3 * timeout)
        return r
    if not case['lines'] and not case['walk']:
        return ('incomplete', b'')
    ra = ex(bufs_observed(case))
    if ra.timed_out or ra.crashed():
        return ('incomplete', b'')
    ga = bufs_marks(ra.out)
    if ga is None:
        return ('incomplete', ra.out[-300:])
    ref = bufs_reference(case, ga)
    if ref[0] != 'ok':
        return ref
    rb = ex(bufs_blind(case))
    if rb.timed_out or rb.crashed():
        return ('crash', 'editor crashed or hung (rc=%s timed_out=%s): %s' % (rb.rc, rb.timed_out, rb.err[-600:]))
    gb = bufs_marks(rb.out)
    if gb is None:
        return ('incomplete', rb.out[-300:])
    bad = bufs_oracle(case, ref[1], gb)
    if bad and bad[2] is None:
        return ('incomplete', b'')
    info = {'H': ref[1], 'recs': ref[2], 'walk': [gb.get('w.%d' % k) for k in range(len(case['walk']))]}
    return ('bad', bad, info) if bad else ('ok', info)


def bufs_tok(kind, c):
    """the model command of a switch / other part (None: no effect on the buffer table or on any edit log)"""
    hxn = lambda n: n.encode().hex()
    m = re.fullmatch(r'(e|ew)(!?) (\S+)', c)
    if m:
        a = m.group(3)
        return 'E:%d:%d:%s' % (1 if m.group(2) else 0, 1 if m.group(1) == 'ew' else 0, 'alt:-' if a == '#' else 'cur:-' if a == '%' else 'lit:' + hxn(a))
    m = re.fullmatch(r'b (\d+)', c)
    if m:
        return 'BI:' + m.group(1)
    return {'b': 'BL', 'b +': 'B+', 'b -': 'B-', 'b #': 'BA:1', 'b ^': 'BA:2', 'b %': 'BA:0', 'next': 'N', 'prev': 'P', 'q': 'Q:0',
            'u': 'U', 'redo': 'R', 'se wa': 'SW:1'}.get(c)


def bufs_model_request(case, info):
    """the blind script for the model of coq/UndoBufsDefs.v: the switching commands as they are, every editing part as ONE
    lbuf_edit call that replaces the whole text by the text observed after the part (the splice itself is C06's; what is
    compared here is the grouping into undo steps, which is the table model's: bumps of bufs_switch and of ex_command)"""
    hxn = lambda n: n.encode().hex()
    w = [str(len(case['files']))]
    for n in sorted(case['files']):
        w += [hxn(n), vlib.hx(case['files'][n].encode())]
    args = sorted(case['files'])
    w += [str(len(args))] + [hxn(n) for n in args]
    if case['wa']:
        w += ['L', 'SW:1']
    known = {0: case['files']['f0'].encode()}
    for rec in info['recs']:
        w.append('L')
        for kind, c, cur, t in rec:
            if kind == 'e':
                if t != known.get(cur):
                    w.append('X:' + vlib.hx(t))
            else:
                tok = bufs_tok(kind, c)
                if tok:
                    w.append(tok)
            known[cur] = t
    before = None
    for st, t in zip(case['walk'], info['walk']):
        w.append('L')
        t0, before = before, t
        if st[0] == 'm' and t == t0:
            continue                    # the command changed nothing (address beyond the end): no lbuf_edit call
        if st[0] == 'go':
            w.append('E:1:0:lit:' + hxn(st[1]))
        elif st[0] == 'u':
            w.append('U')
        elif st[0] == 'r':
            w.append('R')
        else:
            w.append('X:' + vlib.hx(t if t is not None else b''))
    return ' '.join(w)


def bufs_model_compare(case, info, answer):
    """None or a description of the first difference between the model's and the implementation's texts"""
    a = answer.split(' ')
    k0 = 1 if case['wa'] else 0
    n1 = len(info['recs'])
    if len(a) != k0 + n1 + len(case['walk']):
        return 'the model answered %d of %d command lines: %s' % (len(a), k0 + n1 + len(case['walk']), answer[:200])
    for k, rec in enumerate(info['recs']):
        want = vlib.hx(rec[-1][3])
        got = a[k0 + k].split(':')[-1]
        if got != want:
            return 'text of the current buffer after command line %d: implementation %s, model %s' % (k + 1, rec[-1][3], a[k0 + k])
    for k, t in enumerate(info['walk']):
        got = a[k0 + n1 + k].split(':')[-1]
        if t is not None and got != vlib.hx(t):
            return 'text after walk step %d (%s): implementation %r, model %s' % (k + 1, case['walk'][k], t, a[k0 + n1 + k])
    return None


def bufs_shrink(exe, case):
    def with_(lines, walk):
        c = dict(case)
        c['lines'], c['walk'] = lines, walk
        return c

    def bad(c):
        return run_bufs_case(exe, c)[0] == 'bad'
    lines, walk = case['lines'], case['walk']
    if len(lines) > 1:
        lines = vlib.shrink(lines, lambda sub: bad(with_(sub, walk)), max_steps=60)
    # a failing walk can be cut after the failing step; then drop steps
    r = run_bufs_case(exe, with_(lines, walk))
    if r[0] == 'bad':
        walk = walk[:r[1][0] + 1]
    if len(walk) > 1:
        walk = vlib.shrink(walk, lambda sub: sub[0][0] == 'go' and bad(with_(lines, sub)), max_steps=60)
    # parts of the remaining lines
    for i in range(len(lines)):
        if len(lines[i]) > 1:
            keep = vlib.shrink(lines[i], lambda sub: bad(with_(lines[:i] + [sub] + lines[i + 1:], walk)), max_steps=30)
            lines = lines[:i] + [keep] + lines[i + 1:]
    return with_(lines, walk)


def bufs_describe(case):
    return (['se wa'] if case['wa'] else []) + ['|'.join(c for _, c in parts) for parts in case['lines']] + \
           [{'go': 'e! %s' % s[-1], 'u': 'u', 'r': 'redo', 'm': s[-1]}[s[0]] for s in case['walk']]


# ---------------------------------------------------------------------------------------------


def run(ctx):
    res, rng = ctx.res, ctx.rng
    import time as _time
    _t0 = [_time.time()]
    res.extra['phase_wall_s'] = {}

    def phase(name):
        now = _time.time()
        res.extra['phase_wall_s'][name] = round(now - _t0[0], 1)
        _t0[0] = now
    probe = vlib.build_probe('undo', includes=['lbuf'])
    probe_asan = vlib.build_probe('undo', includes=['lbuf'], asan=True)
    model = ctx.model('undo')
    model_b = ctx.model('undobufs')
    vi = vlib.build_vi()
    L = 4 if ctx.quick else 6
    res.rule = ('lbuf = one operation list (edit / command boundary / undo / redo) through the real lbuf_* API and through the extracted model, '
                'result code and text compared after every operation, undo-stack oracle on the implementation\'s texts; every list up to length %d over '
                'a %d-operation alphabet on buffers of 0, 1 and 3 lines, random lists up to length 60, lists crossing the growth points of hist[]; '
                'ex = vi -s -e script of compound commands with u/redo, %%p after every command; vi = vi -v key stream with counted commands, u, ^R, '
                'side file written after every command; exbufs = 3-5 files, command lines `p1|p2|...` that edit the current buffer and switch (e! e # b N b + - # ^ next prev q) '
                'in one line, then undo/redo walks in every buffer, oracle = per-buffer undo stacks (one step per command line per buffer) from an observed run, '
                'the walk taken from a run with nothing between the lines; the same histories through the extracted table model with the edit log in every slot; '
                'large histories = lbuf lists logging 100..5000 entries (steps of 1..1500 entries, totals at the growth points of hist[] +-1 and at 1000/2000/3000/5000) with complete undo and redo walks '
                'through probe, model and oracle (more and longer ones through probe and oracle only), and :%%s / :g / :v / counted >> << . over files of 129..2600 identity-carrying lines with complete u / redo walks, text read back after every step.  non-trivial = the list contains both an undo and a redo; distinct = distinct list/script') % (L, len(ALPHA))

    # ---- replay / corpus
    def one_lbuf(init, ops, where):
        rc, out, err = run_exe(probe, [hx(init) + ' ' + ' '.join(ops)])
        if rc != 0 or len(out) != 1:
            res.violation({'what': 'probe_undo crashed (status %d): %s' % (rc, err[-800:]), 'input': {'kind': 'lbuf', 'init': hx(init), 'ops': ops}})
            return
        res.evaluations += 1
        bad = oracle_seq(init, ops, out[0].split(' ') if out[0] else [])
        if bad:
            report_lbuf(init, ops, bad)

    def lbuf_fails(init):
        def f(sub):
            rc, out, err = run_exe(probe, [hx(init) + ' ' + ' '.join(sub)])
            if rc != 0 or len(out) != 1:
                return False
            return oracle_seq(init, sub, out[0].split(' ') if out[0] else []) is not None
        return f

    def report_lbuf(init, ops, bad):
        small = vlib.shrink(ops, lbuf_fails(init))
        rc, out, err = run_exe(probe, [hx(init) + ' ' + ' '.join(small)])
        b2 = oracle_seq(init, small, out[0].split(' ') if out and out[0] else []) or bad
        v = {'what': 'lbuf interface, operation %d (%s): %s' % (b2[0] + 1, small[b2[0]] if b2[0] < len(small) else '?', b2[1]),
             'input': {'kind': 'lbuf', 'init': hx(init), 'ops': small},
             'expected': repr(b2[2]), 'observed': repr(b2[3]), 'answers': (out[0] if out else '')[:20000]}
        if len(small) > 100:
            upto = small[:b2[0] + 1]
            v['what'] += ' [long history: %d edit calls, %d command boundaries, %d undos, %d redos up to and including the failing operation]' % (
                sum(1 for o in upto if o[0] == 'E'), upto.count('M'), upto.count('U'), upto.count('R'))
        res.violation(v)

    def report_crash(exe, c):
        init, ops = c['case']

        def f(sub):
            rc, out, err = run_exe(exe, [hx(init) + ' ' + ' '.join(sub)])
            return rc != 0
        small = vlib.shrink(ops, f)
        rc, out, err = run_exe(exe, [hx(init) + ' ' + ' '.join(small)])
        res.violation({'what': ('sanitized ' if exe == probe_asan else '') + 'probe_undo (the real lbuf_* functions) is killed by this operation list (memory error in the edit log): status %d' % rc,
                       'input': {'kind': 'lbuf', 'init': hx(init), 'ops': small}, 'expected': 'texts per the undo stack', 'observed': err[-1500:]})

    def ex_fails(init, runner):
        def f(sub):
            r = runner(vi, init, sub)
            return r[0] == 'bad'
        return f

    def report_e2e(kind, init, cmds, r, runner):
        small = vlib.shrink(cmds, ex_fails(init, runner), max_steps=120)
        r2 = runner(vi, init, small)
        if r2[0] != 'bad':
            small, r2 = cmds, r
        bad = r2[1]
        res.violation({'what': '%s, command %d (%r): %s' % (kind, bad[0] + 1, small[bad[0]][1], bad[1]),
                       'input': {'kind': kind, 'file': init.decode('latin-1'), 'cmds': [list(c) for c in small]},
                       'expected': 'one of ' + repr(bad[2]), 'observed': repr(bad[3]),
                       'texts': [t.decode('latin-1') for t in r2[2]]})

    def report_bufs(case, r, shrink=True):
        small = case
        if shrink:
            small = bufs_shrink(vi, case)
            r2 = run_bufs_case(vi, small)
            if r2[0] == 'bad':
                r = r2
            else:
                small = case
        bad, info = r[1], r[2]
        step = small['walk'][bad[0]]
        res.violation({'what': 'ex, several buffers, walk step %d (%s): %s' % (bad[0] + 1, {'go': 'e! %s' % step[-1], 'u': 'u', 'r': 'redo', 'm': step[-1]}[step[0]], bad[1]),
                       'input': small, 'script': bufs_describe(small),
                       'expected': repr(bad[2]), 'observed': repr(bad[3]),
                       'texts_per_buffer_after_every_line_that_changed_it': {'f%d' % x: [t.decode('latin-1') for t in h] for x, h in info['H'].items()}})

    def report_big(case, r, shrink=True):
        small = dict(case)
        if shrink:
            def bad(c):
                return run_big_case(vi, c)[0] == 'bad'
            cm = vlib.shrink(case['cmds'], lambda sub: bad(dict(case, cmds=sub)), max_steps=80)
            small = dict(case, cmds=cm)
            for nl in sorted(set(BIG_NL + [case['nl']])):            # the smallest file of the series that still fails
                if nl < case['nl'] and bad(dict(small, nl=nl)):
                    small['nl'] = nl
                    break
            r2 = run_big_case(vi, small)
            if r2[0] == 'bad':
                r = r2
            else:
                small = dict(case)
        bad_, texts = r[1], r[2]
        cmds = small['cmds']
        exp = bad_[2][0] if bad_[2] else b''
        res.violation({'what': '%s, file of %d lines, step %d (%r) of %s: %s -- %s' % (
                           'ex' if small['kind'] == 'bigex' else 'vi', small['nl'], bad_[0] + 1, cmds[bad_[0]][1],
                           ' / '.join(repr(c[1]) for c in cmds[:bad_[0] + 1])[:400], bad_[1], ident_diff(exp, bad_[3])[:700]),
                       'input': small, 'expected': 'the text observed before the command being undone / after the command being redone (%d lines)' % exp.count(b'\n'),
                       'observed': ident_diff(exp, bad_[3])[:1500],
                       'lines_changed_by_each_step': [sum(1 for x, y in zip(texts[i].split(b'\n'), texts[i + 1].split(b'\n')) if x != y) for i in range(len(texts) - 1)]})

    def run_input(inp):
        if inp.get('kind') == 'lbuf':
            one_lbuf(vlib.unhx(inp['init']), list(inp['ops']), 'replay')
        elif inp.get('kind') in ('bigex', 'bigvi'):
            r = run_big_case(vi, inp)
            res.evaluations += 1
            if r[0] == 'bad':
                report_big(inp, r, False)
            elif r[0] == 'crash':
                res.violation({'what': '%s, large history: %s' % (inp['kind'], r[1]), 'input': inp})
        elif inp.get('kind') == 'ex2':
            # a fixed script over several files; the final text of the current buffer is given
            script = ('\n'.join(inp['script']) + '\nec @@1@@\n%p\nec @@-@@\nq!\n').encode()
            files = {k: v.encode('latin-1') for k, v in inp['files'].items()}
            r = vlib.run_ex(vi, script, files=files, args=[sorted(files)[0]], timeout=20)
            res.evaluations += 1
            m = re.search(rb'@@1@@(.*?)@@-@@', r.out, re.S)
            got = m.group(1).decode('latin-1') if m else None
            if got != inp['expect']:
                res.violation({'what': 'ex: the undo after these command lines did not restore the text before the most recent modifying command line',
                               'input': inp, 'expected': inp['expect'], 'observed': got})
        elif inp.get('kind') == 'exbufs':
            r = run_bufs_case(vi, inp)
            res.evaluations += 1
            if r[0] == 'bad':
                report_bufs(inp, r, False)
            elif r[0] == 'crash':
                res.violation({'what': 'ex, several buffers: ' + r[1], 'input': inp})
        elif inp.get('kind') == 'bigwalk':
            r = run_ex_walk(vi, big_file(inp['nl'], inp['variant']), [tuple(c) for c in inp['cmds']], inp['undos'], inp['redos'], timeout=30)
            res.evaluations += 1
            if r[0] == 'bad':
                res.violation({'what': 'ex, file of %d lines: %s -- %s' % (inp['nl'], r[1][1], ident_diff(r[1][2][0], r[1][3] or b'')[:700]), 'input': inp,
                               'expected': 'the text observed after that line in a run that prints the text after every line', 'observed': ident_diff(r[1][2][0], r[1][3] or b'')[:1500]})
        elif inp.get('kind') == 'exwalk':
            r = run_ex_walk(vi, inp['file'].encode('latin-1'), [tuple(c) for c in inp['cmds']], inp['undos'], inp['redos'])
            res.evaluations += 1
            if r[0] == 'bad':
                res.violation({'what': 'ex: ' + r[1][1], 'input': inp, 'expected': repr(r[1][2]), 'observed': repr(r[1][3])})
        elif inp.get('kind') == 'viwalk':
            r = run_vi_walk(vi, inp['file'].encode('latin-1'), [tuple(c) for c in inp['cmds']], inp['undos'], inp['redos'], inp.get('pre', ''))
            res.evaluations += 1
            if r[0] == 'bad':
                res.violation({'what': 'vi: ' + r[1][1], 'input': inp, 'expected': repr(r[1][2]), 'observed': repr(r[1][3])})
        elif inp.get('kind') in ('ex', 'vi'):
            runner = run_ex_case if inp['kind'] == 'ex' else run_vi_case
            init = inp['file'].encode('latin-1')
            cmds = [tuple(c) for c in inp['cmds']]
            r = runner(vi, init, cmds)
            res.evaluations += 1
            if r[0] == 'bad':
                report_e2e(inp['kind'], init, cmds, r, runner)
            elif r[0] == 'crash':
                res.violation({'what': r[1], 'input': inp})

    if ctx.replay:
        rp = json.load(open(ctx.replay))
        run_input(rp.get('input', {}))
        return
    for fn in sorted(glob.glob(os.path.join(vlib.VERIF, 'corpus', 'C04-*.json'))):
        run_input(json.load(open(fn)).get('input', {}))
        res.count('corpus cases')

    phase('build + corpus')
    # ---- line-buffer level: exhaustive small scope, random, capacity
    cases = []
    for init in INITS:
        depth = L if (ctx.quick or init == INITS[2]) else L - 1
        for n in range(1, depth + 1):
            for ops in itertools.product(ALPHA, repeat=n):
                cases.append((init, list(ops)))
    res.count('lbuf exhaustive lists', len(cases))
    nrand = 3000 if ctx.quick else 100000
    r2 = rng.fork('lbuf-random')
    rcases = []
    for i in range(nrand):
        init = r2.choice(INITS + [b'l1\nl2\nl3\nl4\nl5\n', b'no newline'])
        rcases.append((init, rand_ops(r2, r2.choice([5, 8, 12, 20, 40, 60]))))
    res.count('lbuf random lists', len(rcases))
    try:
        hist_init = int(re.search(r'HIST_INIT : Z := (\d+)', open(os.path.join(vlib.COQ, 'GenConsts.v')).read()).group(1))
    except Exception:
        hist_init = 128
    ccases = capacity_cases(rng, hist_init)
    res.count('lbuf capacity lists', len(ccases))
    # large histories: 100..5000 (thorough: 12000) logged entries, complete undo/redo walks.  `bigm` goes through probe AND
    # model (the extracted model is quadratic in the length of the log: about 3 s for 5000 entries), `bigp` (more lists,
    # longer logs, up to the next growth point of hist[]) through the probe and the stack oracle only.
    r8 = rng.fork('lbuf-big')
    bigm = big_cases(r8, hist_init, ctx.quick)
    bigp = []
    for _ in range(240 if ctx.quick else 800):
        t = r8.choice([r8.range(100, 2100), r8.range(1000, 5000), r8.range(2000, 9000), r8.choice(big_totals(hist_init, 9000 if ctx.quick else 20000))])
        bigp.append(big_case(r8, t, r8.choice(['mixed', 'mixed', 'one', 'equal', 'small'] if t <= 3000 else ['mixed', 'one', 'equal']), hist_init))
    res.count('lbuf large-history lists (probe + model + oracle)', len(bigm))
    res.count('lbuf large-history lists (probe + oracle)', len(bigp))
    for _c, info in bigm + bigp:
        res.count('lbuf large-history lists: %s entries logged' % ('100-1023' if info['entries'] < 1024 else '1024-2047' if info['entries'] < 2048 else '2048-4095' if info['entries'] < 4096 else '4096 and more'))
        if info['largest_step'] >= 128:
            res.count('lbuf large-history lists with a step of 128 or more entries')
    res.extra['lbuf_large_history'] = {'entries_max': max(i['entries'] for _c, i in bigm + bigp), 'largest_step_max': max(i['largest_step'] for _c, i in bigm + bigp),
                                       'steps_max': max(i['steps'] for _c, i in bigm + bigp), 'totals_aimed_at': big_totals(hist_init, 5000 if ctx.quick else 12000)}
    allc = cases + rcases + ccases
    nchunk = max(16, len(allc) // 40000)
    size = (len(allc) + nchunk - 1) // nchunk
    # the long model runs first so that they overlap with everything else
    jobs = [(probe, model, [c]) for c, info in sorted(bigm, key=lambda ci: -ci[1]['entries'])]
    jobs += [(probe, model, allc[i:i + size]) for i in range(0, len(allc), size)]
    jobs += [(probe, None, [c for c, _i in bigp[i:i + 20]]) for i in range(0, len(bigp), 20)]
    # the sanitized build runs the random and the capacity lists (memory errors of the log show up there) and some of the large histories
    asan_cases = rcases[:1500 if ctx.quick else 20000] + ccases + [c for c, _i in bigm[::4]] + [c for c, _i in bigp[::8]]
    jobs.append((probe_asan, None, asan_cases))
    with ProcessPoolExecutor(max_workers=16) as ex:
        outs = list(ex.map(chunk_worker, jobs))
    for (exe, _m, cs), o in zip(jobs, outs):
        res.evaluations += o['n']
        for c in o['crashes'][:1]:
            if sum(1 for v in res.violations if 'killed' in v.get('what', '')) < 2:
                report_crash(exe, c)
        for d in o['dis']:
            res.disagree(d)
        for v in o['viol'][:2]:
            if len(res.violations) < 3:
                report_lbuf(vlib.unhx(v['init']), v['ops'], v['bad'])
        if exe != probe_asan:
            for k in range(o['ntv']):
                pass
    # distinct non-trivial lists: count them without materialising keys for millions of lists
    for init, ops in (rcases + ccases + cases)[:200000]:
        if 'U' in ops and 'R' in ops:
            res.nontriv(hx(init) + ' ' + ' '.join(ops))
    for (init, ops), info in bigm + bigp:
        res.nontriv('big %s %d %d' % (info['profile'], info['entries'], __import__('zlib').crc32(' '.join(ops).encode())))
    res.extra['lbuf_lists_with_undo_and_redo'] = sum(o['ntv'] for o in outs[:-1])
    for init, ops in (rcases[:2] + cases[5000:5002]):
        res.sample({'kind': 'lbuf', 'init': hx(init), 'ops': ' '.join(ops)})

    phase('lbuf level (exhaustive, random, capacity, large histories)')
    # ---- end to end
    nex = 160 if ctx.quick else 4000
    nvi = 60 if ctx.quick else 1500
    r3 = rng.fork('ex')
    exs = [ex_script(r3, r3.choice([6, 10, 16, 24])) for _ in range(nex)]
    r4 = rng.fork('vi')
    vis = [vi_keys(r4, r4.choice([5, 9, 14])) for _ in range(nvi)]
    eouts = vlib.pmap(lambda c: run_ex_case(vi, c[0], c[1]), exs)
    vouts = vlib.pmap(lambda c: run_vi_case(vi, c[0], c[1]), vis)
    r6 = rng.fork('exwalk')
    xwalks = [ex_walk(r6) for _ in range(nex)]
    xouts = vlib.pmap(lambda c: run_ex_walk(vi, *c), xwalks)
    for (init, cmds, j, i), r in zip(xwalks, xouts):
        res.evaluations += 1
        res.count('ex undo/redo walks without intervening command lines' + ('' if r[0] in ('ok', 'bad') else ' (%s)' % r[0]))
        inp = {'kind': 'exwalk', 'file': init.decode('latin-1'), 'cmds': [list(c) for c in cmds], 'undos': j, 'redos': i}
        if r[0] == 'ok':
            res.nontriv('xwalk' + repr((init, cmds, j, i)))
            if any('|' in c and c.split('|')[-1] in FAIL_TAILS for _, c in cmds):
                res.count('ex walks containing a line with a failing tail')
        elif r[0] == 'bad' and sum(1 for v in res.violations if v.get('input', {}).get('kind') == 'exwalk') < 2:
            res.violation({'what': 'ex: ' + r[1][1], 'input': inp, 'expected': repr(r[1][2]), 'observed': repr(r[1][3]), 'texts': [t.decode('latin-1') for t in r[2]]})
        elif r[0] == 'crash':
            res.violation({'what': 'ex: ' + r[1], 'input': inp})
    phase('ex scripts, vi key streams, ex walks')
    # ---- large histories end to end: compound commands over files of 129 .. 2600 lines, complete undo / redo walks
    r9 = rng.fork('big-e2e')
    bigs = [big_ex_case(r9) for _ in range(90 if ctx.quick else 1500)] + [big_vi_case(r9) for _ in range(50 if ctx.quick else 800)]
    # every file size of the series at least once with the plain shape: `:%s` two or three times, u down, redo up
    for nl in BIG_NL:
        k = r9.choice([2, 3])
        bigs.append({'kind': 'bigex', 'nl': nl, 'variant': 0,
                     'cmds': [['m', '%%s/^/%c/' % (97 + i)] for i in range(k)] + [['u', 'u']] * (k + 1) + [['r', 'redo']] * (k + 1)})
        bigs.append({'kind': 'bigvi', 'nl': nl, 'variant': 0, 'pre': ':se noru\n',
                     'cmds': [['m', '1G%d>>' % nl]] * k + [['u', 'u']] * (k + 1) + [['r', '\x12']] * (k + 1)})
    gouts = vlib.pmap(lambda c: run_big_case(vi, c), bigs)
    nrep = 0
    for c, r in zip(bigs, gouts):
        res.evaluations += 1
        kind = 'ex' if c['kind'] == 'bigex' else 'vi'
        res.count(kind + ' large-history walks' + ('' if r[0] in ('ok', 'bad') else ' (%s)' % r[0]))
        if r[0] == 'ok':
            nc = big_changed(c, r[1])
            if nc >= 2:
                res.nontriv(repr(c))
                res.count(kind + ' large-history walks with two or more commands that changed 100 lines or more each')
            nm = sum(1 for k_, _c in c['cmds'] if k_ == 'm')
            tot = sum(sum(1 for x, y in zip(r[1][i].split(b'\n'), r[1][i + 1].split(b'\n')) if x != y) for i, (k_, _c) in enumerate(c['cmds']) if k_ == 'm')
            res.count(kind + ' large-history walks: %s lines changed by the modifying commands in total' % ('under 1024' if tot < 1024 else '1024-2047' if tot < 2048 else '2048-4095' if tot < 4096 else '4096 and more'))
        elif r[0] == 'bad':
            if nrep < 2:
                nrep += 1
                report_big(c, r)
        elif r[0] == 'crash':
            res.violation({'what': '%s, large history: %s' % (kind, r[1]), 'input': c})
    res.sample({k_: (v if k_ != 'cmds' else [x[1] for x in v]) for k_, v in bigs[0].items()})
    # blind variant: the commands, the undos and the redos with no other command line in between
    bw = []
    for _ in range(40 if ctx.quick else 600):
        c = big_ex_case(r9)
        cm = [tuple(x) for x in c['cmds'] if x[0] == 'm'][:r9.choice([2, 3, 4])]
        j = r9.choice([len(cm), len(cm), r9.range(1, len(cm))])
        bw.append((big_file(c['nl'], c['variant']), cm, j, r9.range(0, j), c))
    bwo = vlib.pmap(lambda w: run_ex_walk(vi, w[0], w[1], w[2], w[3], timeout=30), bw)
    for (init, cm, j, i, c), r in zip(bw, bwo):
        res.evaluations += 1
        res.count('ex large-history walks without intervening command lines' + ('' if r[0] in ('ok', 'bad') else ' (%s)' % r[0]))
        if r[0] == 'ok':
            res.nontriv('bigwalk' + repr((c['nl'], c['variant'], cm, j, i)))
        elif r[0] == 'bad' and sum(1 for v in res.violations if 'nothing in between' in v.get('what', '') and 'file of' in v.get('what', '')) < 1:
            want, got = r[1][2][0], r[1][3] or b''
            res.violation({'what': 'ex, file of %d lines: %s -- %s' % (c['nl'], r[1][1], ident_diff(want, got)[:700]),
                           'input': {'kind': 'bigwalk', 'nl': c['nl'], 'variant': c['variant'], 'cmds': [list(x) for x in cm], 'undos': j, 'redos': i},
                           'expected': 'the text observed after line %d in a run that prints the text after every line' % (len(cm) - j + i), 'observed': ident_diff(want, got)[:1500]})
        elif r[0] == 'crash':
            res.violation({'what': 'ex, large history: ' + r[1], 'input': {'kind': 'bigwalk', 'nl': c['nl'], 'variant': c['variant'], 'cmds': [list(x) for x in cm], 'undos': j, 'redos': i}})
    phase('large histories end to end')
    # ---- several buffers: command lines that edit and switch, then undo/redo walks in every buffer
    r7 = rng.fork('exbufs')
    nbc = 240 if ctx.quick else 6000
    bcases = [bufs_case(r7, aimed=(k % 3 == 0)) for k in range(nbc)]
    bouts = vlib.pmap(lambda c: run_bufs_case(vi, c), bcases)
    nrep = 0
    for c, r in zip(bcases, bouts):
        res.evaluations += 1
        res.count('ex several-buffer histories' + ('' if r[0] in ('ok', 'bad') else ' (%s)' % r[0]))
        if r[0] == 'ambiguous':
            res.count('ex several-buffer histories dropped: ' + r[1])
        if r[0] in ('ok', 'bad'):
            H = (r[1] if r[0] == 'ok' else r[2])['H']
            recs = (r[1] if r[0] == 'ok' else r[2])['recs']
            res.nontriv('bufs' + repr(bufs_describe(c)))
            if sum(1 for h in H.values() if len(h) > 1) >= 2:
                res.count('ex several-buffer histories with undo steps in two or more buffers')
            for rec in recs:
                # a line that changes a buffer and then leaves it / enters a buffer and then changes it
                ks = [x[0] for x in rec]
                if 'e' in ks and 's' in ks[ks.index('e'):]:
                    res.count('ex several-buffer histories with a command line that edits and then switches')
                    break
        if r[0] == 'bad' and nrep < 2:
            nrep += 1
            report_bufs(c, r)
        elif r[0] == 'crash':
            res.violation({'what': 'ex, several buffers: ' + r[1], 'input': c})
    # correspondence on the same histories: the extracted table model with the edit log of lbuf.c in every slot
    # (coq/UndoBufsDefs.v) runs the blind script; texts of the current buffer after every command line and walk step
    if model_b:
        reqs, who = [], []
        for c, r in zip(bcases, bouts):
            if r[0] in ('ok', 'bad'):
                reqs.append(bufs_model_request(c, r[1] if r[0] == 'ok' else r[2]))
                who.append((c, r))
        if reqs:
            rc, ans, err = vlib.run_lines(model_b, reqs)
            if rc != 0 or len(ans) != len(reqs):
                res.disagree({'what': 'model driver undobufs: rc=%d, %d answers for %d requests' % (rc, len(ans), len(reqs)), 'stderr': err[-800:]})
            else:
                nd = 0
                for (c, r), a in zip(who, ans):
                    d = bufs_model_compare(c, r[1] if r[0] == 'ok' else r[2], a)
                    res.count('ex several-buffer histories compared with the table model')
                    if d:
                        nd += 1
                        if nd <= 3:
                            res.disagree({'what': 'several buffers: model (coq/UndoBufsDefs.v) and implementation differ: ' + d[:600],
                                          'input': c, 'script': bufs_describe(c)})
    if bcases:
        res.sample({'kind': 'exbufs', 'script': bufs_describe(bcases[0])})
    phase('several buffers')
    r5 = rng.fork('viwalk')
    walks = [vi_walk(r5) for _ in range(nvi)]
    wouts = vlib.pmap(lambda c: run_vi_walk(vi, *c), walks)
    for (init, cmds, j, i, pre), r in zip(walks, wouts):
        res.evaluations += 1
        res.count('vi undo/redo walks without intervening ex commands' + ('' if r[0] in ('ok', 'bad') else ' (%s)' % r[0]))
        if r[0] == 'ok':
            res.nontriv('walk' + repr((init, cmds, j, i, pre)))
        elif r[0] == 'bad' and sum(1 for v in res.violations if v.get('input', {}).get('kind') == 'viwalk') < 2:
            res.violation({'what': 'vi: ' + r[1][1], 'input': {'kind': 'viwalk', 'file': init.decode('latin-1'), 'cmds': [list(c) for c in cmds], 'undos': j, 'redos': i, 'pre': pre},
                           'expected': repr(r[1][2]), 'observed': repr(r[1][3]), 'texts': [t.decode('latin-1') for t in r[2]]})
        elif r[0] == 'crash':
            res.violation({'what': 'vi: ' + r[1], 'input': {'kind': 'viwalk', 'file': init.decode('latin-1'), 'cmds': [list(c) for c in cmds], 'undos': j, 'redos': i, 'pre': pre}})
    for kind, runner, cs, outs2 in (('ex', run_ex_case, exs, eouts), ('vi', run_vi_case, vis, vouts)):
        nch = 0
        for (init, cmds), r in zip(cs, outs2):
            res.evaluations += 1
            res.count(kind + ' scripts')
            if r[0] == 'ok':
                texts = r[1]
                ch_u = any(k == 'u' and texts[i] != texts[i + 1] for i, (k, _) in enumerate(cmds))
                ch_r = any(k == 'r' and texts[i] != texts[i + 1] for i, (k, _) in enumerate(cmds))
                if ch_u and ch_r:
                    res.nontriv(kind + repr(cmds) + repr(init))
                    nch += 1
            elif r[0] == 'bad':
                if len(res.violations) < 4:
                    report_e2e(kind, init, cmds, r, runner)
            elif r[0] == 'crash':
                res.violation({'what': kind + ': ' + r[1], 'input': {'kind': kind, 'file': init.decode('latin-1'), 'cmds': [list(c) for c in cmds]}})
            else:
                res.count(kind + ' scripts with incomplete output')
        res.extra[kind + '_scripts_where_undo_and_redo_changed_the_text'] = nch
        if cs:
            res.sample({'kind': kind, 'file': cs[0][0].decode('latin-1'), 'cmds': [c for _, c in cs[0][1]]})
    phase('vi walks + reports')
