"""C06 -- ex line commands change exactly the addressed lines (reference line editor).

Implementation side: the real binary, `vi -s -e f < script` (vlib.run_ex).  Model side: the extracted
Coq model of ex.c/lbuf.c/reg.c (coq/ExDefs.v, driver ocaml/drv_ex.ml) on the same script bytes.
Oracle: RefEd below, an independent reference line editor written from the property text (every line
carries an identity; a command with resolved range [b,e) and text t yields lines[:b] + t + lines[e:];
marks designate identities); where the text is silent it follows the conventions listed in
design.d/C06.md.  After EVERY generated command the harness inserts probes (`=`, `'a=` `'b=` `'c=`,
`%p` bracketed by `1kz`/`kz` ... `'z` so that the current line survives the print) and `ec` markers,
so buffer, printed output, current line and marks are observed after each step; final `w`.
Register-history stream (gen_reg_case): histories of line-wise stores (y d rs) interleaved with `pu N` / `@N`
from the numbered registers; there the registers 1..9 are revealed after every command as well (probe `R`:
`$pu N|$a` + sentinel line, `%p`, `u`) and compared between binary, model and reference.
Command-string stream (gen_str_case): registers that hold MULTI-LINE command lists taken from buffer lines (y / d / capital
appends) -- `rs x` with its text block and the lone `.` inside the string, further commands after the `.` line, a/i/c and a
last-line `rs` whose text comes from the script input, nested `@` -- run by `@` from every position of the current line and
followed by commands with default / relative addresses.  The reference runs a register LINE BY LINE (RefEd.run_lines): the text
block of an in-string `rs` is the lines up to the first lone `.` line, which is consumed, and the next line is the next command.
Pipe stream (gen_pipe_case, pipe_sweep): `addr r file` (files with / without final newline, one unterminated line, empty), `addr r !cmd`,
`beg,end!cmd`, `rx reg cmd` + `pu reg` with commands whose output is empty / unterminated / terminated; the reference RUNS the same
command on the same bytes (run_shell) and takes the lines of what it prints (a last piece without newline is a line).  Big stream
(gen_big_case): ranges and registers of 65535 .. 150000 bytes (more than a pipe holds) through filters that read all of their input.
The extracted model (ExPipeDefs.ex_main_x) gets the (command, input) -> output table of what the reference ran.
"""
import json, os, re, copy, glob as _glob
import vlib

GROUP = 'ex'
TRUSTED = ['tools/props/c06.py RefEd: the Python reference line editor (property text + the conventions of design.d/C06.md)',
           'the four shell filters tr/sort/cat/sed of the sandbox (/bin/sh) behave as their Python/OCaml re-implementations',
           'streams pipe / big: /bin/sh and the coreutils of the sandbox are deterministic -- the reference for `!cmd`, `r !cmd`, `rx` is the same command run on the same bytes (run_shell); the model driver looks its inputs up in the table of what the reference ran',
           'tools/props/c06.py r_prog / cmdtab: the table line text -> commands through which the reference reads the lines of a register is the inverse of the renderer']

MARKS = 'abc'
FILTERS = ['tr a-z A-Z', 'sort', 'cat', 'sed d']
WORDS = ['ab', 'cd', 'ab cd', 'xy', 'b', 'aab', 'k9', 'ab7', 'zz top', 'm', 'cd xy', 'q1']
BUILTIN_FILTERS = set(FILTERS)      # re-implemented in Python (RefEd) and OCaml (drv_ex.ml); every other command is RUN by the reference
# commands for `r !cmd` (they must not read their standard input: the child of `r !cmd` inherits the editor's, i.e. the script) and
# filters for `beg,end!cmd` / `rx reg cmd`.  No backslash, % or # (ex_pathexpand rewrites them), no | in the `r !` forms.
# Output shapes aimed at: empty, one unterminated line, several lines with the last one unterminated, terminated.
RCMDS = ['echo -n qq7', 'echo ab; echo -n cd9', 'seq 3', 'true', 'cat h', 'cat n3', 'head -c 4 n3', 'echo zz', 'seq 2; echo -n k9', 'cat e',
         'echo -n']
PFILTERS = ['awk 1 ORS=+', "tr -d '[:cntrl:]'", 'echo -n x1', 'true', 'echo ab; echo -n cd', 'tac', 'rev', 'sort -r', 'tail -n 1',
            'sed 1d', 'sed -n 2p', 'cat; echo -n t7', 'head -n 1', 'cat -', 'wc -l', 'tr a-z A-Z | tac', 'head -c 0']
BIGFILTERS = ['cat', 'tr a-z A-Z', 'tac', 'sort -r', 'rev', 'cksum', 'wc -c', 'tail -n 2', 'sed -n 1p', 'cat -', 'tr a-y b-z', 'sort',
              'sed -n 2,3p', 'tail -c 66000', 'head -c 65600', 'sed s/a/A/']


# ---------------------------------------------------------------------------------------------
# rendering structured commands to script text

def r_term(t):
    b = t['base']
    s = ''
    if b is None:
        s = ''
    elif b[0] == 'n':
        s = str(b[1])
    elif b[0] in '.$':
        s = b[0]
    elif b[0] == 'm':
        s = "'" + b[1]
    else:
        s = b[0] + b[1] + b[0]
    for o in t['offs']:
        s += '%+d' % o
    return s


def r_addr(a):
    if a == '%':
        return '%'
    s = ''
    for i, (t, sep) in enumerate(a):
        s += r_term(t) + (sep or '')
    return s


def r_cmd(c):
    """-> list of script lines"""
    k = c['cmd']
    if k == 'R':
        # reveal numbered register n without disturbing anything: put it on a scratch tail of the buffer together
        # with a sentinel line (one command line = one undo group, also when the put is rejected), print, undo
        return ['$pu %d|$a' % c['n'], '~%d' % c['n'], '.', '%p', 'u']
    s = r_addr(c.get('addr', [])) + c.get('spell', k)
    if k in ('d', 'y', 'pu', '@'):
        s += (' ' + c['reg']) if c.get('reg') else ''
    elif k == 'k':
        s += c['mark']
    elif k == 'r':
        s += ' ' + c['path']
    elif k == '!':
        s += c['filter']
    elif k == 'rx':
        s += ' ' + c['reg'] + ' ' + c['filter']
    elif k == 'rs':
        s += (' ' + c['reg']) if c.get('reg') else ''
    elif k == 'ec':
        s += ' ' + c['text']
    out = [s]
    if k in ('a', 'i', 'c'):
        out += list(c['text']) + ['.']
    if k == 'rs':
        if c.get('cmds') is not None:
            out += ['|'.join(r_cmd(x)[0] for x in ln) for ln in c['cmds']] + ['.']
        else:
            out += list(c['text']) + ['.']
    if k == '@':
        # the text blocks which a/i/c (and an `rs` on the last line) INSIDE the executed register read from the input
        for t in c.get('inblocks') or []:
            out += list(t) + ['.']
    return out


def r_prog(prog, tab):
    """a command list as the lines of a command STRING (register text).  prog = list of lines, a line = list of commands joined
    by `|`; only the last command of a line may take text: `rs` carries its text block inside the string ('text' lines, then the
    lone `.` unless 'term' is False), a/i/c carry none (they read the input).  tab (line text -> commands) is filled with the
    meaning of every command line -- the inverse of this renderer, which is what the reference editor looks lines up in."""
    lines = []
    for ln in prog:
        head = '|'.join(r_cmd(dict(x, text=[], cmds=None, inblocks=None))[0] for x in ln)
        tab[head] = [dict((k, v) for k, v in x.items() if k not in ('text', 'term', 'sub')) for x in ln]
        lines.append(head)
        last = ln[-1]
        if last['cmd'] == 'rs' and last.get('text') is not None:
            if last.get('sub'):
                r_prog(last['sub'], tab)        # the text lines are themselves command lines (run later by @)
            lines += list(last['text'])
            if last.get('term', True):
                lines.append('.')
    return lines


def r_line(step):
    """a step is a list of commands joined by | on one line (only the last may carry a text block)"""
    lines = []
    heads = []
    tail = []
    for c in step:
        l = r_cmd(c)
        heads.append(l[0])
        tail = l[1:]
    return ['|'.join(heads)] + tail


NUMREGS = '123456789'


def probes(k, regprobe=False):
    """regprobe: additionally reveal the numbered registers 1..9 (after the current line is parked in mark z and
    before the `%p` that shows the buffer, so the scratch lines and the moved current line are gone again)"""
    p = [[{'cmd': 'ec', 'text': '@B@'}], [{'cmd': '='}], [{'cmd': 'ec', 'text': '@C@'}]]
    for i, m in enumerate(MARKS):
        p += [[{'cmd': '=', 'addr': [({'base': ('m', m), 'offs': []}, None)]}]]
        if not regprobe or i + 1 < len(MARKS):
            p += [[{'cmd': 'ec', 'text': '@,@'}]]
    p += [[{'cmd': 'k', 'mark': 'z', 'addr': [({'base': ('n', 1), 'offs': []}, None)]}],
          [{'cmd': 'k', 'mark': 'z'}]]
    if regprobe:
        for d in NUMREGS:
            p += [[{'cmd': 'ec', 'text': '@R%s@' % d}], [{'cmd': 'R', 'n': int(d)}]]
        p += [[{'cmd': 'ec', 'text': '@,@'}]]
    p += [[{'cmd': 'p', 'addr': '%'}], [{'cmd': 'ec', 'text': '@D@'}],
          [{'cmd': '', 'addr': [({'base': ('m', 'z'), 'offs': []}, None)]}],
          [{'cmd': 'ec', 'text': '@A%d@' % (k + 1)}]]
    return p


def build_script(case):
    lines = []
    if case.get('wa', True):
        lines.append('se wa')
    lines.append('ec @A0@')
    for k, step in enumerate(case['steps']):
        lines += r_line(step)
        for p in probes(k, case.get('regprobe', False)):
            lines += r_line(p)
    lines += ['w', 'q!']
    return ('\n'.join(lines) + '\n').encode()


def model_script(case):
    """the model gets the same bytes without the `se wa` line (the flag is passed in the request)"""
    s = build_script(case)
    return s[len(b'se wa\n'):] if case.get('wa', True) else s


# ---------------------------------------------------------------------------------------------
# the reference line editor

class Reject(Exception):
    pass


UNK = object()      # a mark whose line was inside a replaced range: the property says nothing


_shell_cache = {}
_shell_lock = __import__('threading').Lock()


def file_bytes(lines, nonl=False):
    """the bytes of a file given as a list of lines; nonl: the last line is NOT terminated by a newline"""
    b = ''.join(l + '\n' for l in lines).encode('latin-1')
    return b[:-1] if (nonl and lines) else b


def lines_of(data):
    """the lines of a text (command output, file): split at the newlines; a last line without newline is a line too"""
    parts = data.decode('latin-1').split('\n')
    return parts[:-1] if parts[-1] == '' else parts


def run_shell(cmd, inp, rawfiles):
    """what `sh -c cmd` prints for the input bytes inp (None: no input; the command must not read any) in a directory that holds
    rawfiles -- the reference for `!cmd`, `r !cmd`, `rx`: the same command run on the same bytes (cached)"""
    key = (cmd, inp, tuple(sorted(rawfiles.items())))
    with _shell_lock:
        if key in _shell_cache:
            return _shell_cache[key]
    import subprocess, tempfile, shutil
    d = tempfile.mkdtemp(prefix='c06sh.', dir=vlib.tmpdir())
    try:
        for nme, data in rawfiles.items():
            with open(os.path.join(d, nme), 'wb') as fh:
                fh.write(data)
        p = subprocess.run(['/bin/sh', '-c', cmd], input=inp if inp is not None else None, stdin=subprocess.DEVNULL if inp is None else None,
                           stdout=subprocess.PIPE, stderr=subprocess.DEVNULL, cwd=d, env={'PATH': '/usr/bin:/bin', 'HOME': d}, timeout=60)
        out = p.stdout
    finally:
        shutil.rmtree(d, ignore_errors=True)
    with _shell_lock:
        _shell_cache[key] = out
    return out


class RefEd:
    def __init__(self, file_lines, files, nonl=()):
        self.rawfiles = dict((nme, file_bytes(ls, nme in nonl)) for nme, ls in files.items())
        self.pipelog = None         # when a list: every (command, input bytes or None, output bytes) the reference ran
        self.unterm = set()         # lettered registers whose text does not end in a newline (set by rx)
        self.lines = [[i, t] for i, t in enumerate(file_lines)]
        self.nid = len(file_lines)
        self.cur = 0
        self.marks = {}
        self.regs = {}
        self.cmdregs = {}
        self.kw = None
        self.files = dict(files, f=list(file_lines))
        self.lenient = False
        self.out = []
        self.wa = True
        self.dirty = False
        self.version = 0            # bumped by every splice (C15 caches the identity -> row map on it)
        self.cmdtab = {}            # command line text -> the commands it stands for (r_prog: the inverse of the renderer)
        self.pending = []           # text blocks that follow the running top-level @ in the script (read by a/i/c inside it)
        self.supplier = None        # generator mode: makes up the text blocks as they are asked for (recorded in self.taken)
        self.taken = []

    # -- addresses --------------------------------------------------------------------------
    def find(self, pat, start, step):
        i = start
        while 0 <= i < len(self.lines):
            if pat.lower() in self.lines[i][1].lower():
                return i
            i += step
        return None

    def term(self, t):
        """-> 1-based line number; raises Reject for an unset mark / failed search"""
        b = t['base']
        if b is None or b[0] == '.':
            n = self.cur + 1
        elif b[0] == 'n':
            n = b[1]
        elif b[0] == '$':
            n = len(self.lines)
        elif b[0] == 'm':
            m = self.marks.get(b[1])
            if m is None:
                raise Reject()
            if m is UNK:
                if self.lenient:
                    raise Reject()
                raise KeyError('unknown mark used')
            at = [i for i, l in enumerate(self.lines) if l[0] == m]
            if not at:              # the marked line itself is gone (deleted by an executed register): where the mark went is not modelled
                if self.lenient:
                    raise Reject()
                raise KeyError('mark of a removed line used')
            n = at[0] + 1
        else:
            step = 1 if b[0] == '/' else -1
            r = self.find(b[1], self.cur + step, step)
            if r is None:
                raise Reject()
            n = r + 1
        return n + sum(t['offs'])

    def resolve(self, a):
        """-> (b, e, zero): the 0-based half-open range of the addressed lines; zero = address 0
        (before the first line).  Raises Reject when the address does not resolve to existing lines."""
        n = len(self.lines)
        if a == '%':
            return 0, n, False
        if not a:
            if self.cur == n:
                return n, n, False          # only on the empty buffer (cur = 0)
            if not (0 <= self.cur < n):
                raise Reject()
            return self.cur, self.cur + 1, False
        nums = []
        for t, sep in a:
            v = self.term(t)
            if v < 0:
                raise Reject()
            nums.append(v)
            if sep == ';':
                self.cur = v - 1            # convention: stays even when the command is rejected later
        e1 = nums[-1]
        b1 = nums[-2] if len(nums) > 1 else e1
        if b1 <= 1 and e1 == 0:
            return 0, 0, True       # address 0 (and the backwards-by-one form 1,0): before the first line
        if not (1 <= b1 <= n) or not (b1 - 1 <= e1 <= n):
            raise Reject()
        return b1 - 1, e1, False

    # -- edits --------------------------------------------------------------------------------
    def splice(self, b, e, texts):
        old = self.lines[b:e]
        new = []
        for j, t in enumerate(texts):
            if j < len(old):
                new.append([old[j][0], t])          # a 1:1 replacement is the same line (only used by C15)
            else:
                new.append([self.nid, t])
                self.nid += 1
        gone = set(l[0] for l in old)
        for m, v in list(self.marks.items()):
            if v in gone:
                self.marks[m] = UNK
        self.lines[b:e] = new
        self.dirty = True
        self.version += 1

    def clamp(self, v):
        return max(0, min(len(self.lines) - 1, v))

    def put_reg(self, r, texts, cmds=None):
        """a line-wise store (every store of ex is line-wise).  Into the unnamed or a lettered register it is also
        pushed on the numbered registers: register 1 becomes the new text and every register i+1 takes what
        register i held BEFORE the store (all at once; register 9's old text is dropped; an unset register hands
        nothing on, so its successor keeps what it has).  A capital letter appends to the lettered register, but
        register 1 receives the new text alone.  A store addressed to a digit (or any other name) sets just it."""
        r = r or '"'
        texts = list(texts)
        if r == '"' or r.isalpha():
            old = dict((d, (self.regs.get(d), self.cmdregs.get(d))) for d in NUMREGS)
            for i in range(2, 10):
                t, cm = old[str(i - 1)]
                if t is not None:
                    self._set_reg(str(i), t, cm)
            self._set_reg('1', texts, cmds)
        if r.isupper():
            low = r.lower()
            if low in self.unterm:
                raise KeyError('append to a register whose text does not end in a newline (set by rx): the property is silent')
            had = self.regs.get(low)
            oldc = self.cmdregs.get(low) if had else []        # the commands the old text stands for (None: plain text)
            self._set_reg(low, (had or []) + texts, (oldc + list(cmds)) if (oldc is not None and cmds is not None) else None)
        else:
            self._set_reg(r, texts, cmds)

    def shell(self, cmd, src):
        """the lines the external command produces for the lines src (None: no input)"""
        inp = None if src is None else file_bytes(src)
        out = run_shell(cmd, inp, self.rawfiles)
        if self.pipelog is not None:
            self.pipelog.append((cmd, inp, out))
        return out

    def _set_reg(self, r, texts, cmds):
        self.unterm.discard(r)
        self.regs[r] = list(texts)
        if cmds is None:
            self.cmdregs.pop(r, None)
        else:
            self.cmdregs[r] = list(cmds)

    # -- a register run as a command string ------------------------------------------------------
    def take_block(self):
        """the text block of a command that reads it from the input while a register is being run"""
        if self.supplier is not None:
            t = self.supplier()
            self.taken.append(t)
            return list(t)
        if not self.pending:
            raise KeyError('a command inside the register reads a text block from the input, none follows the @ line')
        return list(self.pending.pop(0))

    def run_lines(self, lines):
        """register execute, line by line: every line is a command line (commands joined by `|`).  An `rs` takes the lines that
        follow it in the string as its text block, up to the first line that is a lone `.` -- that line is consumed and the line
        after it is the next command (nothing is printed, the current line does not move); when no line follows the `rs` the block
        is read from the input like a typed one.  a/i/c always read the input.  Every command of the string is executed,
        whether an earlier one was rejected or not."""
        i = 0
        while i < len(lines):
            if lines[i] not in self.cmdtab:
                raise KeyError('register line %r is not a generated command line' % lines[i])
            cmds = self.cmdtab[lines[i]]
            i += 1
            for j, x in enumerate(cmds):
                if x['cmd'] == 'rs':
                    if j + 1 != len(cmds):
                        raise KeyError('rs followed by | inside a string')
                    if i < len(lines):
                        # the first line after `rs` is text whatever it is (so an in-string block cannot be empty) and a block
                        # the string does not terminate gains an empty line: the editor's way, on which the property is silent
                        dots = [q for q in range(i + 1, len(lines)) if lines[q] == '.']
                        if lines[i] == '.' or not dots:
                            if not self.lenient:
                                raise KeyError('in-string text block of rs that is empty or not terminated by a lone .')
                            e = dots[0] if dots else len(lines)
                            text = lines[i:e] + ([] if dots else [''])
                        else:
                            e = dots[0]
                            text = lines[i:e]
                        i = e + 1
                    else:
                        text = self.take_block()
                    self.run(dict(x, text=text))
                elif x['cmd'] in ('a', 'i', 'c'):
                    self.run(dict(x, text=self.take_block()))
                else:
                    self.run(x)

    def run(self, c):
        """one command; a rejected command changes nothing (but see resolve for `;`)"""
        if c['cmd'] == '@' and c.get('inblocks') is not None:
            self.pending = [list(t) for t in c['inblocks']]
            ok = self.run1(c)
            left, self.pending = self.pending, []
            if left and self.supplier is None:
                raise KeyError('text blocks after the @ line that no command of the register read')
            return ok
        return self.run1(c)

    def run1(self, c):
        k = c['cmd']
        try:
            if k == 'ec':
                self.out.append(('E', c['text']))
                return True
            if k == 'rs':
                if c.get('cmds') is not None:
                    self.put_reg(c.get('reg'), ['|'.join(r_cmd(x)[0] for x in ln) for ln in c['cmds']], c['cmds'])
                else:
                    self.put_reg(c.get('reg'), c['text'])
                return True
            if k == 'R':        # the register probe: buffer + text of register n + sentinel are printed, nothing changes
                for l in self.lines:
                    self.out.append(('L', l[1]))
                for t in self.regs.get(str(c['n'])) or []:
                    self.out.append(('L', t))
                self.out.append(('L', '~%d' % c['n']))
                return True
            n = len(self.lines)
            if k == 'pu':
                texts = self.regs.get(c.get('reg') or '"')
                if texts is None:
                    raise Reject()
            if k == '@' and (c.get('reg') or '"') not in self.regs:
                raise Reject()
            if k == '!' and not self.wa and self.dirty:
                raise Reject()
            if k == 'rx':
                # register filter: the register's text is the command's input, its output the register's new text (a line-wise
                # store: pushed on the numbered registers like every other); no line, mark or the current line changes
                r = c['reg']
                if self.regs.get(r) is None:
                    raise KeyError('rx on an unset register (the command would read the script)')
                if r in self.unterm:
                    raise KeyError('rx on a register whose text does not end in a newline')
                out = self.shell(c['filter'], self.regs[r])
                self.put_reg(r, lines_of(out))
                if out and not out.endswith(b'\n'):
                    self.unterm.add(r)
                return True
            b, e, zero = self.resolve(c.get('addr', []))
            adds = k in ('a', 'i', 'c', 'pu', 'r')
            if zero and not adds:
                raise Reject()              # address 0 only for the commands that add text
            if k in ('d', 'y') and n == 0:
                raise Reject()
            if k == 'a':
                pos = b + 1 if e > b else b
                self.splice(pos, pos, c['text'])
                self.cur = self.clamp(pos + len(c['text']) - 1)
            elif k == 'i':
                self.splice(b, b, c['text'])
                self.cur = self.clamp(b + len(c['text']) - 1)
            elif k == 'c':
                self.splice(b, e, c['text'])
                self.cur = self.clamp(b + len(c['text']) - 1)
            elif k == 'd':
                self.put_reg(c.get('reg'), [l[1] for l in self.lines[b:e]])
                if e > b:
                    self.splice(b, e, [])
                self.cur = self.clamp(b)
            elif k == 'y':
                self.put_reg(c.get('reg'), [l[1] for l in self.lines[b:e]])
            elif k == 'pu':
                self.splice(e, e, texts)
                self.cur = self.clamp(e + len(texts) - 1)
            elif k == 'r':
                if c['path'].startswith('!'):
                    data = lines_of(self.shell(c['path'][1:], None))     # r !cmd: the lines the command prints
                else:
                    data = self.files.get(c['path'])
                if data is None:
                    raise Reject()
                pos = e if n else 0
                self.splice(pos, pos, data)
                self.cur = max(0, e + len(data) - 1)
            elif k == 'p' or k == '':
                for l in self.lines[b:e]:
                    self.out.append(('L', l[1]))
                self.cur = max(b, e - 1)
            elif k == '=':
                self.out.append(('N', e))
            elif k == 'k':
                self.marks[c['mark']] = self.lines[e - 1][0] if 0 <= e - 1 < len(self.lines) else None
            elif k == '!':
                src = [l[1] for l in self.lines[b:e]]
                f = c['filter']
                if f in BUILTIN_FILTERS:
                    res = {'cat': src, 'sed d': [], 'sort': sorted(src, key=lambda s: s.encode()),
                           'tr a-z A-Z': [s.upper() for s in src]}[f]
                else:
                    # the addressed lines, each with its newline, are the command's input; the lines of its output replace them
                    res = lines_of(self.shell(f, src))
                self.splice(b, e, res)
            elif k == '@':
                self.cur = b
                r = c.get('reg') or '"'
                if r in self.cmdregs or not self.cmdtab:
                    for ln in list(self.cmdregs[r]):     # the commands may replace the register they are read from
                        for x in ln:
                            self.run(x)
                else:
                    self.run_lines(list(self.regs[r]))   # a register filled from buffer lines / text blocks
            else:
                raise KeyError('command ' + k)
            return True
        except Reject:
            return False

    def snapshot(self):
        return {'lines': [l[1] for l in self.lines], 'cur': self.cur}


# ---------------------------------------------------------------------------------------------
# parsing what the implementation / the model printed

MARK_RE = re.compile(rb'@(A\d+|B|C|D|,|R[1-9])@')


def clean(tok):
    """complete output lines of a region; whatever follows the last newline is message text"""
    parts = tok.split(b'\n')
    return [p.decode('latin-1') for p in parts[:-1]]


REGIONS = ['B', 'C'] + [','] * len(MARKS) + ['D']
REGIONS_R = ['B', 'C'] + [','] * (len(MARKS) - 1) + ['R' + d for d in NUMREGS] + [',', 'D']


def parse_impl(out):
    """stdout of the editor -> list of per-step observations {out, cur, marks, buf[, regs]}; None if the markers are damaged.
    regs (only with the register probes) = for each of the registers 1..9 the `%p` of buffer + register text + sentinel"""
    i = out.find(b'@A0@')
    if i < 0:
        return None
    toks = MARK_RE.split(out[i:])
    seq = [(toks[j].decode(), toks[j + 1]) for j in range(1, len(toks) - 1, 2)]
    steps = []
    k = 0
    nm = len(MARKS)
    while k < len(seq):
        w = 1
        while k + w < len(seq) and not seq[k + w][0].startswith('A'):
            w += 1
        if k + w >= len(seq):
            break               # the last group is complete only when the next A marker was printed
        grp = seq[k:k + w]
        names = [g[0] for g in grp[1:]]
        if grp[0][0] != 'A%d' % len(steps) or names not in (REGIONS, REGIONS_R):
            return None
        texts = [clean(g[1]) for g in grp]
        st = {'out': texts[0], 'cur': texts[1], 'marks': texts[2:2 + nm]}
        if names == REGIONS_R:
            st['regs'] = texts[2 + nm:2 + nm + len(NUMREGS)]
            st['buf'] = texts[2 + nm + len(NUMREGS)]
        else:
            st['buf'] = texts[2 + nm]
        steps.append(st)
        k += w
    return steps


def model_stream(ans):
    """answer line of the model driver -> the byte stream the editor would have printed"""
    d = dict(p.split('=', 1) for p in ans.split(' ') if '=' in p)
    out = b''
    for it in d.get('O', '').split(','):
        if not it:
            continue
        t, v = it[0], it[1:]
        if t == 'L':
            out += vlib.unhx(v) + b'\n'
        elif t == 'N':
            out += v.encode() + b'\n'
        elif t == 'E':
            out += vlib.unhx(v)
        elif t == 'M':
            out += b'<msg>'
    return d, out


# ---------------------------------------------------------------------------------------------
# generator (state-aware: the reference editor is run along to aim at the boundaries)

def gen_term(rng, ed, kind=None):
    n = len(ed.lines)
    t = rng.below(16) if kind is None else kind
    offs = []
    if t < 5:
        base = ('n', rng.choice([0, 1, 1, 2, max(1, n - 1), n, n, n + 1, rng.range(0, n + 2)]))
    elif t < 7:
        base = ('.',)
    elif t < 9:
        base = ('$',)
    elif t < 11:
        base = ('m', rng.choice(MARKS))
    elif t < 13:
        base = (rng.choice('/?'), rng.choice(['ab', 'cd', 'xy', 'zz', 'nomatch', 'b', 'k9', 'AB']))
    else:
        base = rng.choice([None, ('.',), ('$',)])
        offs = [rng.choice([1, -1, 2, -2, 1, -1, 3])]
    if rng.chance(1, 4):
        offs.append(rng.choice([1, -1, 1, -1, 2, -3, 0]))
    if base is None and not offs:
        offs = [1]
    return {'base': base, 'offs': offs}


def gen_addr(rng, ed, want=None):
    t = rng.below(20)
    if t < 3:
        return []
    if t < 5:
        return '%'
    if t < 12:
        return [(gen_term(rng, ed), None)]
    sep = ';' if rng.chance(1, 3) else ','
    a = [(gen_term(rng, ed), sep), (gen_term(rng, ed), None)]
    if rng.chance(1, 12):
        a = [(gen_term(rng, ed), rng.choice(',;'))] + a
    return a


def gen_text(rng, lo=0):
    k = rng.choice([0, 1, 1, 1, 2, 2, 3]) if lo == 0 else rng.range(lo, 3)
    return [rng.choice(WORDS) + (str(rng.below(10)) if rng.chance(1, 2) else '') for _ in range(k)]


def gen_simple(rng, ed, allow_filter=True):
    """a command without text block"""
    t = rng.below(20 if allow_filter else 17)
    a = gen_addr(rng, ed)
    reg = rng.choice([None, None, 'a', 'b', 'A'])
    if t < 4:
        return {'cmd': 'd', 'addr': a, 'reg': reg}
    if t < 6:
        return {'cmd': 'y', 'addr': a, 'reg': reg}
    if t < 9:
        return {'cmd': 'pu', 'addr': a, 'reg': rng.choice([None, None, 'a', 'b', 'q', '1', '2', '3'])}
    if t < 12:
        return {'cmd': 'p', 'addr': a}
    if t < 14:
        return {'cmd': '=', 'addr': a}
    if t < 17:
        return {'cmd': 'k', 'addr': a, 'mark': rng.choice(MARKS)}
    if a == []:
        a = [(gen_term(rng, ed), None)]
    return {'cmd': '!', 'addr': a, 'filter': rng.choice(FILTERS)}


def gen_step(rng, ed):
    t = rng.below(30)
    if t < 9:
        k = rng.choice('aic')
        return [{'cmd': k, 'addr': gen_addr(rng, ed), 'text': gen_text(rng)}]
    if t < 11:
        return [{'cmd': 'r', 'addr': gen_addr(rng, ed), 'path': rng.choice(['g', 'g', 'h', 'nofile', 'f'])}]
    if t < 13:
        return [{'cmd': 'rs', 'reg': rng.choice(['a', 'b', 'A']), 'text': gen_text(rng, 1)}]
    if t < 15:
        cmds = [[gen_simple(rng, ed, ed.wa)] for _ in range(rng.range(1, 3))]
        for ln in cmds:
            for x in ln:
                if x['cmd'] in ('d', 'y') and x.get('reg') in ('x', 'X'):
                    x['reg'] = 'a'
        return [{'cmd': 'rs', 'reg': 'x', 'cmds': cmds}]
    if t < 17:
        a = gen_addr(rng, ed)
        return [{'cmd': '@', 'addr': a, 'reg': rng.choice(['x', 'x', 'x', 'w'])}]
    if t < 19:
        return [gen_simple(rng, ed, False), gen_simple(rng, ed)]
    return [gen_simple(rng, ed)]


def gen_case(rng, quick):
    n = rng.choice([0, 1, 2, 3, 3, 4, 5, 6])
    flines = [rng.choice(WORDS) + str(i) for i in range(n)]
    files = {'g': [rng.choice(WORDS) + 'g' + str(i) for i in range(rng.choice([1, 2, 2, 0]))], 'h': ['hh']}
    case = {'file': flines, 'files': files, 'wa': not rng.chance(1, 8), 'steps': []}
    ed = RefEd(flines, files)
    ed.wa = case['wa']
    ed.lenient = True
    # marks before / inside / after the coming ranges: set a few marks first
    if n and rng.chance(2, 3):
        for m in MARKS[:rng.range(1, 3)]:
            step = [{'cmd': 'k', 'mark': m, 'addr': [({'base': ('n', rng.range(1, n)), 'offs': []}, None)]}]
            case['steps'].append(step)
            run_ref_step(ed, step, len(case['steps']) - 1)
    for _ in range(rng.range(3, 9 if quick else 14)):
        step = gen_step(rng, ed)
        case['steps'].append(step)
        run_ref_step(ed, step, len(case['steps']) - 1)
    return case


# -- the register-history stream: numbered registers 1..9 ---------------------------------------
# Every line-wise store into the unnamed or a lettered register (y, d, rs) is pushed on the numbered registers; put and @
# from register N must use the N-th newest store, and are rejected while fewer than N stores happened.  The cases are
# histories of 0..12 stores with distinct texts, interleaved with `pu N` / `@N` aimed at N = number of stores so far
# (the oldest), that number + 1 (the first unset one: must be rejected), 1, 2, 3, 9 and random N; stores addressed
# directly to a digit and appends with capital letters are mixed in.  The registers 1..9 are revealed after every step.

def n_addr(v):
    return [({'base': ('n', v), 'offs': []}, None)]


def gen_store(rng, ed, uniq, notext=False):
    """one line-wise store into a register; uniq = counter making the stored texts pairwise distinct;
    notext: no command with a text block (it is followed by another command on the same line)"""
    n = len(ed.lines)
    reg = rng.choice([None, None, None, 'a', 'b', 'A', 'B', 'c'])
    if rng.chance(1, 12):
        reg = rng.choice(NUMREGS)                  # addressed to a digit: sets only that register, no push
    t = rng.below(6 if notext else 10)
    n = max(n, 1) if notext else n      # (on the empty buffer y and d are rejected: nothing is stored)
    if (t < 4 and n >= 1) or (notext and n < 2):
        lo = rng.range(1, n)
        a = n_addr(lo) if rng.chance(3, 4) else [({'base': ('n', lo), 'offs': []}, ','), ({'base': ('n', rng.range(lo, n)), 'offs': []}, None)]
        return {'cmd': 'y', 'addr': a, 'reg': reg}
    if t < 6 and n >= 2:
        return {'cmd': 'd', 'addr': n_addr(rng.range(1, n)), 'reg': reg}
    if t < 8:
        cmds = []
        for _ in range(rng.range(1, 2)):
            v = rng.range(1, max(1, n))
            cmds.append([rng.choice([{'cmd': 'p', 'addr': n_addr(v)}, {'cmd': '=', 'addr': n_addr(v)},
                                     {'cmd': 'k', 'addr': n_addr(v), 'mark': rng.choice(MARKS)},
                                     {'cmd': 'y', 'addr': n_addr(v), 'reg': rng.choice([None, 'a'])},
                                     {'cmd': 'pu', 'addr': n_addr(v), 'reg': rng.choice(['1', '2', '3'])}])])
        return {'cmd': 'rs', 'reg': reg if reg not in ('A', 'B') or rng.chance(1, 2) else 'x', 'cmds': cmds}
    return {'cmd': 'rs', 'reg': reg, 'text': ['%s.%d' % (rng.choice(WORDS), uniq + j) for j in range(rng.choice([1, 1, 2]))]}


def gen_reg_use(rng, ed):
    """put / @ from a numbered register chosen relative to how many of them are set"""
    n = len(ed.lines)
    top = max([int(d) for d in NUMREGS if ed.regs.get(d) is not None] or [0])
    cand = [top, top, top + 1, top + 1, top - 1, 1, 2, 3, 3, 4, 9, rng.range(1, 9), rng.range(1, 9)]
    cand = [c for c in cand if 1 <= c <= 9]
    N = str(rng.choice(cand))
    a = rng.choice([[], [], n_addr(0), n_addr(rng.range(0, n + 1)), [({'base': ('$',), 'offs': []}, None)], gen_addr(rng, ed)])
    if rng.chance(1, 3):
        # @ only from registers whose text the reference can run: set by `rs` with commands, or unset (must be rejected)
        cmdset = [d for d in NUMREGS if d in ed.cmdregs]
        unset = [d for d in NUMREGS if ed.regs.get(d) is None]
        R = None
        if cmdset and (not unset or rng.chance(3, 4)):
            R = rng.choice(cmdset + [max(cmdset)] * 2)
        elif unset:
            R = rng.choice(unset[:2] + [rng.choice(unset)])
        if R is not None:
            if a == [] or rng.chance(1, 2):
                a = n_addr(rng.range(1, max(1, n)))
            return {'cmd': '@', 'addr': a, 'reg': R}
    return {'cmd': 'pu', 'addr': a, 'reg': N}


def gen_reg_case(rng, quick):
    n = rng.choice([0, 1, 2, 3, 4, 4, 5, 6])
    flines = ['%s%d' % (WORDS[(i * 5 + 3) % len(WORDS)], i) for i in range(n)]
    files = {'g': ['gg0'], 'h': ['hh']}
    case = {'file': flines, 'files': files, 'wa': True, 'steps': [], 'regprobe': True, 'stream': 'reghist'}
    ed = RefEd(flines, files)
    ed.lenient = True
    uniq = [100]

    def add(step):
        case['steps'].append(step)
        run_ref_step(ed, step, len(case['steps']) - 1, True)

    def store(notext=False):
        uniq[0] += 3
        return gen_store(rng, ed, uniq[0], notext)
    shape = rng.below(8)
    if shape < 2:
        # a burst of stores (two or three per line) up to and beyond nine, then uses
        m = rng.choice([2, 3, 4, 8, 9, 10, 11])
        while m > 0:
            j = min(m, rng.range(1, 3))
            add([store(i + 1 < j) for i in range(j)])
            m -= j
        for _ in range(rng.range(2, 4)):
            add([gen_reg_use(rng, ed)])
    for _ in range(rng.range(4, 9 if quick else 14)):
        t = rng.below(20)
        if t < 9:
            add([store()])
        elif t < 17:
            add([gen_reg_use(rng, ed)])
        elif t < 18:
            st = store(True)
            ed2 = copy.deepcopy(ed)
            ed2.run(st)
            add([st, gen_reg_use(rng, ed2)])
        else:
            add(gen_step(rng, ed))
    return case


# -- the command-string stream: registers holding multi-line command lists with text blocks -------------
# ex_txt() has a second way of finding a text block: an `rs` that is executed from a STRING (a register run by @) takes the
# following lines of that string up to the lone `.` and execution continues with the line after it.  The register texts come
# from buffer lines (the lone `.` cannot be typed into a text block): `b,ey a`, `b,ed a`, or `rs a` + capital appends.
# Every case runs such a register by @ from a chosen current line (first / middle / last line, explicit and relative
# addresses, addresses that must be rejected), the commands after the `.` line use default / relative addresses, and so do the
# steps that follow the @.

def rel_addr(rng):
    return rng.choice([[], [], [], [({'base': ('.',), 'offs': []}, None)], [({'base': ('.',), 'offs': [1]}, None)],
                       [({'base': None, 'offs': [-1]}, None)], [({'base': None, 'offs': [1]}, None)],
                       [({'base': ('.',), 'offs': []}, ','), ({'base': None, 'offs': [1]}, None)],
                       [({'base': ('$',), 'offs': []}, None)], [({'base': ('.',), 'offs': [-1]}, ','), ({'base': ('.',), 'offs': []}, None)]])


def gen_rel(rng, ed):
    """a command without text whose address is the current line or relative to it: it shows where the current line is"""
    t = rng.below(20)
    a = rel_addr(rng)
    if t < 6:
        return {'cmd': 'p', 'addr': a}
    if t < 10:
        return {'cmd': '=', 'addr': a}
    if t < 13:
        return {'cmd': 'd', 'addr': a, 'reg': rng.choice([None, None, 'c'])}
    if t < 15:
        return {'cmd': 'k', 'addr': a, 'mark': rng.choice(MARKS)}
    if t < 17:
        return {'cmd': 'y', 'addr': a, 'reg': rng.choice([None, 'c'])}
    if t < 19:
        return {'cmd': 'pu', 'addr': a, 'reg': rng.choice([None, 'b', 'b', 'c', '1', '2'])}
    return keep_a([gen_simple(rng, ed, False)], rng.chance(1, 6))[0]


def keep_a(step, skip=False):
    """the stores of the general generators go to c / B instead of a / A (register a holds the command list)"""
    for x in step:
        if not skip and x.get('reg') in ('a', 'A') and x['cmd'] in ('d', 'y', 'rs'):
            x['reg'] = {'a': 'c', 'A': 'B'}[x['reg']]
        for ln in x.get('cmds') or []:
            keep_a(ln, skip)
    return step


def gen_prog(rng, ed, uniq):
    """the command list of a register: lines of `|`-joined commands; `rs` with its text block and the lone `.` inside the string,
    followed (mostly) by further commands; a/i/c (text from the input); @ of a register an earlier `rs` of the list filled with
    command lines; an `rs` on the last line (text from the input)"""
    prog = []
    runnable = []               # registers set by an earlier in-string rs whose text is a command list
    nitems = rng.choice([1, 2, 2, 3, 3, 4, 5])
    want_rs = not rng.chance(1, 8)
    for it in range(nitems):
        t = rng.below(20)
        last = it + 1 == nitems
        if (want_rs and it == (0 if nitems < 3 else rng.below(2))) or t < 6:
            want_rs = False
            reg = rng.choice(['b', 'b', 'c', None, 'B', 'b'])
            x = {'cmd': 'rs', 'reg': reg}
            if rng.chance(2, 5):
                sub = [[gen_rel(rng, ed)] + ([gen_rel(rng, ed)] if rng.chance(1, 4) else []) for _ in range(rng.range(1, 2))]
                x['sub'] = sub
                x['text'] = r_prog(sub, {})
                if reg in ('b', 'c'):
                    runnable.append(reg)
            else:
                x['text'] = ['%s~%d' % (rng.choice(WORDS), uniq + 10 * it + j) for j in range(rng.choice([1, 1, 2, 3]))]
                if reg in runnable:
                    runnable.remove(reg)
            if rng.chance(1, 8) and x['text'][-1] != '.':
                x['text'] = x['text'] + [rng.choice(['.x', '..', 'a.', '. '])]      # lines that look like the terminator but are not
            if last and rng.chance(1, 16):
                x['term'] = False                   # not terminated inside the string (the reference leaves it open)
            if rng.chance(1, 40):
                x['text'] = ['.'] + x['text']       # the first line after rs is text even when it is a lone `.` (left open too)
            prog.append(([gen_rel(rng, ed)] if rng.chance(1, 6) else []) + [x])
        elif t < 8 and last:
            prog.append([{'cmd': 'rs', 'reg': rng.choice(['b', 'c', None])}])          # no line follows: text from the input
        elif t < 10:
            prog.append([{'cmd': rng.choice('aic'), 'addr': rel_addr(rng)}])             # text from the input
        elif t < 12 and runnable:
            prog.append([{'cmd': '@', 'addr': rel_addr(rng), 'reg': rng.choice(runnable)}])
        else:
            prog.append([gen_rel(rng, ed)] + ([gen_rel(rng, ed)] if rng.chance(1, 4) else []))
    return prog


def gen_str_case(rng, quick):
    npre = rng.choice([0, 0, 1, 2, 3])
    npost = rng.choice([0, 1, 2, 3, 4, 5])
    case = {'files': {'g': ['gg0'], 'h': ['hh']}, 'wa': True, 'steps': [], 'stream': 'cmdstring', 'cmdtab': {}}
    if rng.chance(1, 3):
        case['regprobe'] = True
    probe = RefEd([], {})
    prog = gen_prog(rng, probe, 100)
    plines = r_prog(prog, case['cmdtab'])
    pre = ['%s%d' % (rng.choice(WORDS), i) for i in range(npre)]
    post = ['%s%d' % (rng.choice(WORDS), npre + i) for i in range(npost)]
    mode = rng.below(20)
    typed = mode >= 17 and '.' in plines[1:] and not plines[0] == '.'
    flines = pre + (['.'] if typed else plines) + post
    case['file'] = flines
    ed = RefEd(flines, case['files'])
    ed.lenient = True
    ed.cmdtab = case['cmdtab']

    def add(step):
        case['steps'].append(step)
        try:
            run_ref_step(ed, step, len(case['steps']) - 1, case.get('regprobe', False))
        except KeyError:
            pass

    def naddr2(lo, hi):
        return [({'base': ('n', lo), 'offs': []}, ','), ({'base': ('n', hi), 'offs': []}, None)]
    # 1. the command list gets into register a
    if typed:
        # typed `rs a` / `rs A` text blocks for the stretches between the lone `.` lines, each `.` appended from the buffer line
        chunk, first = [], True
        for ln in plines + [None]:
            if ln == '.' or ln is None:
                if chunk:
                    add([{'cmd': 'rs', 'reg': 'a' if first else 'A', 'text': chunk}])
                    chunk, first = [], False
                if ln == '.':
                    add([{'cmd': 'y', 'addr': n_addr(npre + 1), 'reg': 'A'}])
            else:
                chunk.append(ln)
    elif mode < 12 or not (pre or post):
        add([{'cmd': 'y', 'addr': naddr2(npre + 1, npre + len(plines)), 'reg': 'a'}])
    else:
        add([{'cmd': 'd', 'addr': naddr2(npre + 1, npre + len(plines)), 'reg': 'a'}])
    if rng.chance(1, 5):
        add(keep_a([gen_store(rng, ed, 500, True)] if rng.chance(1, 2) else gen_step(rng, ed)))
    # 2. run it from chosen current lines, each time followed by commands that show / use the current line
    for rnd in range(rng.choice([1, 1, 2, 2, 3])):
        n = len(ed.lines)
        t = rng.below(20)
        if t < 6 and n:
            v = rng.choice([1, 1, max(1, n - 1), n, rng.range(1, n), rng.range(1, n)])
            add([{'cmd': 'p', 'addr': n_addr(v)}])
            a = []
        elif t < 13:
            a = n_addr(rng.choice([1, 1, 2, max(1, n - 1), n, rng.range(1, max(1, n)), rng.range(1, max(1, n))]))
        elif t < 15:
            a = rel_addr(rng)
        elif t < 16:
            a = n_addr(rng.choice([0, n + 1]))          # must be rejected: nothing runs, no text block is read
        else:
            a = gen_addr(rng, ed)
        front = [gen_rel(rng, ed)] if rng.chance(1, 6) else []
        for reg in [rng.choice(['a'] * 12 + ['b', 'c', '1', '2']), 'a']:
            # only a register every line of which the reference can run (plain text run as commands may do anything, e.g. quit)
            st = {'cmd': '@', 'addr': a, 'reg': reg}
            ed2 = copy.deepcopy(ed)
            ed2.taken = []
            ed2.supplier = lambda: ['%s+%d' % (rng.choice(WORDS), rng.below(100)) for _ in range(rng.choice([0, 1, 1, 2]))]
            try:
                for x in front:
                    ed2.run(x)
                ed2.run(dict(st, inblocks=[]))
            except KeyError:
                continue
            st['inblocks'] = ed2.taken
            add(front + [st])
            break
        for _ in range(rng.range(1, 3)):
            t = rng.below(10)
            if t < 6:
                add([gen_rel(rng, ed)] + ([gen_rel(rng, ed)] if rng.chance(1, 4) else []))
            elif t < 7:
                add([{'cmd': rng.choice('aic'), 'addr': rel_addr(rng), 'text': gen_text(rng)}])
            elif t < 9:
                add([{'cmd': 'pu', 'addr': rng.choice([[], [({'base': ('$',), 'offs': []}, None)]]), 'reg': rng.choice(['b', 'b', 'c', None, '1'])}])
            else:
                add(keep_a(gen_step(rng, ed)))
    return case


# -- the pipe stream: read / filter / register filter as functions of the external command's OUTPUT BYTES -------------------
# `addr r file`, `addr r !cmd`, `beg,end!cmd`, `rx reg cmd` + `pu reg`, where the text that arrives (file content, command output) is
# empty / one unterminated line / several lines with the last one unterminated / terminated, at address 0, the middle, `$`, with
# marks below and above the insertion.  The reference RUNS the same command on the same bytes (run_shell) and splits what it
# prints into lines (a last line without newline is a line).  All three observers see buffer, `=`, marks after every command.

def a_last():
    return [({'base': ('$',), 'offs': []}, None)]


def a_range(lo, hi):
    return [({'base': ('n', lo), 'offs': []}, ','), ({'base': ('n', hi), 'offs': []}, None)]


def range_bytes(ed, a):
    ed2 = copy.copy(ed)
    try:
        b, e, z = ed2.resolve(a)
    except (Reject, KeyError):
        return None
    return len(file_bytes([l[1] for l in ed.lines[b:e]]))


def gen_pfilter(rng, nbytes):
    """a filter command; nbytes = size of its input where known: `head -c N` is aimed at 0, mid-line, size-1 (only the final
    newline is cut: the last line arrives unterminated), size, size+3"""
    t = rng.below(20)
    if t < 6:
        nb = nbytes if nbytes is not None else 6
        return 'head -c %d' % max(0, rng.choice([0, 1, nb - 1, nb - 1, nb, nb + 3, nb // 2, max(0, nb - 2), rng.range(0, nb + 1)]))
    if t < 8:
        return rng.choice(FILTERS)
    return rng.choice(PFILTERS)


def pipe_addr1(rng, ed):
    n = len(ed.lines)
    return rng.choice([n_addr(0), n_addr(0), [], a_last(), a_last(), n_addr(rng.range(1, max(1, n))), n_addr(max(1, n // 2)), n_addr(n),
                       n_addr(n + 1), n_addr(1), gen_addr(rng, ed)])


def pipe_addr2(rng, ed):
    n = len(ed.lines)
    if n == 0 or rng.chance(1, 8):
        a = gen_addr(rng, ed)
        return a if a != [] else '%'
    lo = rng.range(1, n)
    hi = rng.choice([lo, lo, n, rng.range(lo, n), min(n, lo + 1), min(n, lo + 2)])
    return rng.choice([a_range(lo, hi), a_range(lo, hi), n_addr(lo), '%', a_range(1, hi), [({'base': ('n', lo), 'offs': []}, ','), ({'base': ('$',), 'offs': []}, None)]])


def gen_pipe_steps(rng, ed):
    """-> list of steps"""
    t = rng.below(20)
    n = len(ed.lines)
    if t < 6:
        return [[{'cmd': 'r', 'addr': pipe_addr1(rng, ed), 'path': rng.choice(['g', 'h', 'n3', 'e', 'h', 'n3', 'g', 't2', 'nofile'])}]]
    if t < 9:
        return [[{'cmd': 'r', 'addr': pipe_addr1(rng, ed), 'path': '!' + rng.choice(RCMDS)}]]
    if t < 15:
        a = pipe_addr2(rng, ed)
        return [[{'cmd': '!', 'addr': a, 'filter': gen_pfilter(rng, range_bytes(ed, a))}]]
    if t < 18:
        reg = rng.choice('ab')
        out = []
        if ed.regs.get(reg) is None or reg in ed.unterm or rng.chance(1, 2):
            if n and rng.chance(3, 4):
                lo = rng.range(1, n)
                out.append([{'cmd': 'y', 'addr': a_range(lo, rng.range(lo, n)), 'reg': reg}])
            else:
                out.append([{'cmd': 'rs', 'reg': reg, 'text': gen_text(rng, 1)}])
            src = None
        else:
            src = len(file_bytes(ed.regs[reg]))
        f = gen_pfilter(rng, src)
        while '|' in f:                 # (a `|` ends the rx command: only `!` takes the rest of the line)
            f = gen_pfilter(rng, src)
        out.append([{'cmd': 'rx', 'reg': reg, 'filter': f}])
        out.append([{'cmd': 'pu', 'addr': rng.choice([[], n_addr(0), a_last(), n_addr(rng.range(0, n + 1))]), 'reg': rng.choice([reg, reg, reg, '1', '2'])}])
        return out
    st = gen_step(rng, ed)
    for x in st:
        if x.get('reg') in ('A', 'B'):
            x['reg'] = x['reg'].lower()      # no appends (a register set by rx may lack its final newline)
    return [st]


def pipe_files(rng):
    """g: 0..2 lines, h: one line, n3: three lines, t2: two lines (terminated), e: empty; nonl: which lack the final newline"""
    files = {'g': [rng.choice(WORDS) + 'g' + str(i) for i in range(rng.choice([1, 2, 2, 0]))], 'h': ['hh' + str(rng.below(10))],
             'n3': ['n3a', 'n3b ' + rng.choice(WORDS), 'n3c'], 't2': ['t2a', 't2b'], 'e': []}
    nonl = ['h', 'n3'] + (['g'] if rng.chance(1, 2) else [])
    return files, nonl


def gen_pipe_case(rng, quick):
    n = rng.choice([0, 1, 2, 3, 3, 4, 5, 6])
    flines = [rng.choice(WORDS) + str(i) for i in range(n)]
    files, nonl = pipe_files(rng)
    case = {'file': flines, 'files': files, 'nonl': nonl, 'wa': True, 'steps': [], 'stream': 'pipe'}
    ed = RefEd(flines, files, nonl)
    ed.lenient = True

    def add(step):
        case['steps'].append(step)
        try:
            run_ref_step(ed, step, len(case['steps']) - 1)
        except KeyError:
            pass
    if n and rng.chance(3, 4):
        for m in MARKS[:rng.range(1, 3)]:
            add([{'cmd': 'k', 'mark': m, 'addr': n_addr(rng.range(1, n))}])
    for _ in range(rng.range(2, 5 if quick else 8)):
        for st in gen_pipe_steps(rng, ed):
            add(st)
    return case


def pipe_sweep():
    """systematic part: every way a text can end (terminated, last line unterminated, a single unterminated line, empty) arriving
    through r file / r !cmd / a filter / rx + pu, at address 0, 1, a middle line, $ of buffers with 0..3 lines; marks on the first
    and the last line"""
    files = {'g': ['gg1', 'gg2'], 'h': ['hh'], 'n3': ['n3a', 'n3b', 'n3c'], 't2': ['t2a', 't2b'], 'e': []}
    nonl = ['h', 'n3']
    out = []
    for n in range(0, 4):
        flines = [['ab', 'cd', 'xy'][i] + str(i) for i in range(n)]
        pre = []
        if n:
            pre = [[{'cmd': 'k', 'mark': 'a', 'addr': n_addr(1)}], [{'cmd': 'k', 'mark': 'b', 'addr': n_addr(n)}]]
        addrs = [[], n_addr(0), n_addr(1), a_last()] + ([n_addr(2)] if n >= 3 else [])
        for a in addrs:
            for path in ['h', 'n3', 'e', 't2', '!echo -n q', '!seq 2; echo -n k', '!true', '!echo zz']:
                out.append({'file': flines, 'files': files, 'nonl': nonl, 'wa': True, 'stream': 'pipe',
                            'steps': pre + [[{'cmd': 'r', 'addr': a, 'path': path}], [{'cmd': 'p', 'addr': []}]]})
            for f in ['echo -n x1', 'echo ab; echo -n cd', 'true', 'head -c 3']:
                out.append({'file': flines, 'files': files, 'nonl': nonl, 'wa': True, 'stream': 'pipe',
                            'steps': pre + [[{'cmd': 'rs', 'reg': 'a', 'text': ['r1', 'r2']}], [{'cmd': 'rx', 'reg': 'a', 'filter': f}],
                                            [{'cmd': 'pu', 'addr': a, 'reg': 'a'}], [{'cmd': 'pu', 'addr': [], 'reg': '1'}]]})
        for lo in range(1, n + 1):
            for hi in range(lo, n + 1):
                nb = len(file_bytes(flines[lo - 1:hi]))
                for f in ['awk 1 ORS=+', 'head -c %d' % (nb - 1), 'head -c %d' % (nb - 2), 'true', 'echo -n x1', 'cat; echo -n t7', 'tac']:
                    out.append({'file': flines, 'files': files, 'nonl': nonl, 'wa': True, 'stream': 'pipe',
                                'steps': pre + [[{'cmd': '!', 'addr': a_range(lo, hi), 'filter': f}], [{'cmd': 'p', 'addr': []}]]})
    return out


# -- the big stream: more than a pipe holds (64 KiB) in the addressed range / the register ------------------------------------
# The text handed to the command must be the addressed lines, all of them, once, in order, whatever their total size (cmd_pipe()
# feeds the child through a non-blocking pipe in as many write()s as it takes).  Range sizes around 65536 and well beyond;
# lines of different lengths with their number inside, so that a repeated or shifted stretch shows; the filters look at all of
# their input (cat tac sort rev tr, checksums and counts) and the reference runs the same command on the same bytes.

def big_lines(rng, target, k0=0):
    """lines whose total size (with newlines) is exactly target bytes (target >= 200)"""
    out, tot, k = [], 0, k0
    while target - tot > 170:
        w = rng.choice([0, 3, 11, 17, 23, 40, 64, 71])
        ln = 'k%05d ' % k + ''.join('abcdefghijklmnopqrstuvwxyz'[(k * 7 + j * 3) % 26] for j in range(w))
        out.append(ln)
        tot += len(ln) + 1
        k += 1
    rest = target - tot
    a = rest // 2
    for part in (a, rest - a):
        ln = 'k%05d ' % k
        ln = ln + 'z' * (part - 1 - len(ln))
        out.append(ln)
        k += 1
    assert len(file_bytes(out)) == target, (len(file_bytes(out)), target)
    return out


def gen_big_case(rng, quick):
    target = rng.choice([65536, 65537, 65535, 65600, 66000, 70001, 98304, 131072, 131073, 150000] + ([] if quick else [200000, 262145, 400000]))
    nh, nt = rng.choice([0, 1, 2, 5]), rng.choice([0, 1, 3])
    head = ['H%d %s' % (i, rng.choice(WORDS)) for i in range(nh)]
    tail = ['T%d %s' % (i, rng.choice(WORDS)) for i in range(nt)]
    mid = big_lines(rng, target)
    flines = head + mid + tail
    case = {'file': flines, 'files': {'h': ['hh']}, 'nonl': ['h'], 'wa': True, 'steps': [], 'stream': 'big'}
    ed = RefEd(flines, case['files'], case['nonl'])
    ed.lenient = True

    def add(step):
        case['steps'].append(step)
        run_ref_step(ed, step, len(case['steps']) - 1)
    if nh:
        add([{'cmd': 'k', 'mark': 'a', 'addr': n_addr(rng.range(1, nh))}])
    if nt:
        add([{'cmd': 'k', 'mark': 'b', 'addr': n_addr(len(flines) - rng.below(nt))}])
    add([{'cmd': 'k', 'mark': 'c', 'addr': n_addr(nh + len(mid) // 2)}])       # inside the range
    for rnd in range(rng.choice([1, 1, 2])):
        n = len(ed.lines)
        lo, hi = nh + 1, n - nt
        if hi < lo:
            break
        a = a_range(lo, hi) if (nh or nt or rng.chance(1, 2)) else '%'
        f = rng.choice(BIGFILTERS)
        if rng.chance(1, 4):
            add([{'cmd': 'y', 'addr': a, 'reg': 'a'}])
            add([{'cmd': 'rx', 'reg': 'a', 'filter': f}])
            add([{'cmd': 'pu', 'addr': rng.choice([a_last(), n_addr(0), n_addr(lo)]), 'reg': 'a'}])
        else:
            add([{'cmd': '!', 'addr': a, 'filter': f}])
        if rng.chance(1, 3):
            add([{'cmd': rng.choice(['p', '=']), 'addr': rng.choice([a_last(), n_addr(1), []])}])
    return case


def run_ref_step(ed, step, k, regprobe=False):
    for c in step:
        ed.run(c)
    for p in probes(k, regprobe):
        for c in p:
            ed.run(c)


# ---------------------------------------------------------------------------------------------
# the oracle: replay the steps in the reference editor against what the implementation printed

def ref_regions(ed, cmds_list):
    """run probe commands in the reference; -> printed lines grouped by the echo markers"""
    ed.out = []
    for p in cmds_list:
        for c in p:
            ed.run(c)
    groups = [[]]
    for x in ed.out:
        if x[0] == 'E':
            groups.append([])
        else:
            groups[-1].append(x[1] if x[0] != 'N' else str(x[1]))
    return groups


def oracle(case, obs):
    """-> None or dict(what, step, expected, observed).  Marks whose line was inside a replaced range
    are unspecified by the property: the reference adopts what the implementation reports for them."""
    ed = RefEd(case['file'], case['files'], case.get('nonl', ()))
    ed.wa = case.get('wa', True)
    ed.cmdtab = case.get('cmdtab') or {}
    for k, step in enumerate(case['steps']):
        before = [l[1] for l in ed.lines]
        try:
            want_out = ref_regions(ed, [step])[0]
        except KeyError as ex:
            return {'what': 'oracle undefined: %s' % ex, 'step': k, 'undefined': True}
        if k >= len(obs):
            return {'what': 'the editor printed the probes of only %d of %d steps' % (len(obs), len(case['steps'])), 'step': k}
        o = obs[k]
        if o['out'] != want_out:
            return {'what': 'printed output of step %d differs from the reference' % k, 'step': k, 'expected': want_out, 'observed': o['out']}
        n = len(ed.lines)
        for mi, m in enumerate(MARKS):
            if ed.marks.get(m) is UNK:          # adopt the implementation's answer
                got = o['marks'][mi]
                if len(got) == 1 and got[0].isdigit() and 1 <= int(got[0]) <= n:
                    ed.marks[m] = ed.lines[int(got[0]) - 1][0]
                else:
                    ed.marks[m] = None
        if ed.marks.get('z') is UNK:
            ed.marks['z'] = None        # re-set by 1kz unless the buffer is empty, and then no mark designates a line
        rp = 'regs' in o
        g = ref_regions(ed, probes(k, rp))
        # g[0] = after the step's output (empty), g[1] = `=`, g[2..] = marks, [registers 1..9,] then %p, then 'z
        nm = len(MARKS)
        want = {'cur': g[1], 'marks': g[2:2 + nm], 'buf': g[2 + nm + (len(NUMREGS) if rp else 0)]}
        if rp != bool(case.get('regprobe', False)):
            return {'what': 'the probe markers of step %d are not the ones the script asked for' % k, 'step': k}
        if o['buf'] != want['buf']:
            return {'what': 'buffer after step %d differs from the reference (only the addressed range may change; every other line keeps bytes and order)' % k,
                    'step': k, 'expected': want['buf'], 'observed': o['buf'], 'before': before}
        if o['cur'] != want['cur']:
            return {'what': 'current line after step %d differs from the reference' % k, 'step': k, 'expected': want['cur'], 'observed': o['cur'],
                    'before': before}
        if o['marks'] != want['marks']:
            return {'what': 'marks after step %d: a mark must keep designating the same line while lines are added or removed elsewhere' % k,
                    'step': k, 'expected': want['marks'], 'observed': o['marks'], 'before': before}
        if rp:
            wr = g[2 + nm:2 + nm + len(NUMREGS)]
            for i, d in enumerate(NUMREGS):
                if o['regs'][i] != wr[i]:
                    nb = len(want['buf'])
                    return {'what': 'numbered register %s after step %d (shown by `$pu %s` on a scratch tail): it must hold the %s-newest line-wise '
                                    'store into the unnamed/lettered registers, or be unset (put rejected, buffer unchanged) when there were fewer' % (d, k, d, d),
                            'step': k, 'register': d, 'expected': wr[i][nb:-1], 'observed': o['regs'][i][nb:-1] if o['regs'][i][:nb] == want['buf'] else o['regs'][i],
                            'before': before}
    return None


def ref_undefined(case):
    """the reference alone: does the script run a register the reference gives no meaning to (a line that is not a generated
    command line, a text block read from the input that the script does not supply)?  Then the editor may have swallowed the
    probe lines as text, and nothing can be said about the output."""
    if not case.get('cmdtab'):
        return None
    ed = RefEd(case['file'], case['files'], case.get('nonl', ()))
    ed.wa = case.get('wa', True)
    ed.cmdtab = case['cmdtab']
    ed.lenient = True
    try:
        for k, step in enumerate(case['steps']):
            run_ref_step(ed, step, k, case.get('regprobe', False))
    except KeyError as ex:
        return {'what': 'oracle undefined: %s' % ex, 'step': k, 'undefined': True}
    return None


def classify(case, bad):
    """no finding of C06 is listed as known: the address-0 defects found by this check were repaired (fixed: 6c95ca8)"""
    return None


# ---------------------------------------------------------------------------------------------

def case_input(case):
    d = {'file': case['file'], 'files': case['files'], 'wa': case.get('wa', True), 'steps': case['steps'],
         'script': build_script(case).decode('latin-1')}
    if case.get('regprobe'):
        d['regprobe'] = True
    if case.get('cmdtab'):
        d['cmdtab'] = case['cmdtab']
    if case.get('nonl'):
        d['nonl'] = list(case['nonl'])
    if case.get('stream'):
        d['stream'] = case['stream']
    return d


def case_files(case):
    """name -> bytes of every file of the case's directory (f = the edited file); the names in case['nonl'] lack the final newline"""
    nonl = case.get('nonl', ())
    files = {'f': file_bytes(case['file'])}
    for nme, ls in case['files'].items():
        files[nme] = file_bytes(ls, nme in nonl)
    return files


def pipe_table(case):
    """(command, input or None, output) of every external command the REFERENCE runs on this case, in order: the extracted model's
    `filter` parameter is this table (plus the four built-in filters)"""
    ed = RefEd(case['file'], case['files'], case.get('nonl', ()))
    ed.wa = case.get('wa', True)
    ed.cmdtab = case.get('cmdtab') or {}
    ed.lenient = True
    ed.pipelog = []
    try:
        for k, step in enumerate(case['steps']):
            run_ref_step(ed, step, k, case.get('regprobe', False))
    except KeyError:
        pass
    seen, out = set(), []
    for t in ed.pipelog:
        if (t[0], t[1]) not in seen:
            seen.add((t[0], t[1]))
            out.append(t)
    return out


def uses_pipes(case):
    return case.get('stream') in ('pipe', 'big') or any(x['cmd'] == 'rx' or (x['cmd'] == '!' and x['filter'] not in BUILTIN_FILTERS) or
                                                        (x['cmd'] == 'r' and x['path'].startswith('!'))
                                                        for st in case['steps'] for x in st)


def run_impl(vi, case, timeout=20):
    files = case_files(case)
    r = vlib.run_ex(vi, build_script(case), files=files, args=['f'], readback=['f'], timeout=timeout)
    if r.timed_out:
        r = vlib.run_ex(vi, build_script(case), files=files, args=['f'], readback=['f'], timeout=3 * timeout)
    elif r.crashed():
        r = vlib.run_ex(vi, build_script(case), files=files, args=['f'], readback=['f'], timeout=timeout)
    return r


def model_request(case):
    nonl = case.get('nonl', ())
    extra = ' '.join('%s=%s' % (nme.encode().hex(), vlib.hx(file_bytes(ls, nme in nonl))) for nme, ls in sorted(case['files'].items()))
    if uses_pipes(case):
        # the outputs of the external commands, as a table from (command, input) -- the model's `filter` looks its own input up
        hx2 = lambda b: '-' if b is None else ('.' if b == b'' else b.hex())
        extra += ''.join(' !%s:%s:%s' % (cmd.encode('latin-1').hex(), hx2(inp), hx2(out)) for cmd, inp, out in pipe_table(case))
    return 'run %d %s %s %s' % (1 if case.get('wa', True) else 0, vlib.hx(file_bytes(case['file'])),
                                model_script(case).hex(), extra)


TERM_RE = re.compile(rb'\x1b\[[0-9;?]*[A-Za-z]|\r')


def strip_term(out):
    """`r !cmd` runs the command on the terminal: term_done() / term_init() write control sequences straight to descriptor 1, between
    whatever the buffered ex output has flushed so far.  They are no printed output of a command of the property's list."""
    return TERM_RE.sub(b'', out) if (b'\x1b' in out or b'\r' in out) else out


def trim_pair(a, b):
    """two long line lists -> the stretch around their first difference (with its index), so that replay files stay small"""
    if not isinstance(a, list) or not isinstance(b, list) or max(len(a), len(b)) < 40:
        return a, b
    i = 0
    while i < min(len(a), len(b)) and a[i] == b[i]:
        i += 1
    lo = max(0, i - 3)
    note = '... %d lines, first difference at line %d, lines %d.. shown:'
    return [note % (len(a), i + 1, lo + 1)] + a[lo:i + 6], [note % (len(b), i + 1, lo + 1)] + b[lo:i + 6]


def trim_big(bad):
    if 'expected' in bad and 'observed' in bad:
        bad['expected'], bad['observed'] = trim_pair(bad['expected'], bad['observed'])
    if isinstance(bad.get('before'), list) and len(bad['before']) > 40:
        bad['before'] = ['... %d lines' % len(bad['before'])] + bad['before'][:3]


def check_case(vi, case, mans):
    """-> (kind, detail): kind in ok / crash / violation / disagree / undefined"""
    r = run_impl(vi, case)
    if r.crashed():
        return 'crash', {'what': 'the editor crashed or hung (rc=%s, timed_out=%s)' % (r.rc, r.timed_out), 'stderr': r.err[-600:].decode('latin-1')}
    obs = parse_impl(strip_term(r.out) if uses_pipes(case) else r.out)
    if obs is None:
        u = ref_undefined(case)
        if u is not None:
            return 'undefined', u       # (only shrunk command-string cases get here: a register of plain text lines run as commands)
        return 'violation', {'what': 'the probe markers in the output are damaged', 'observed': r.out[-400:].decode('latin-1')}
    bad = oracle(case, obs)
    if bad is not None and case.get('stream') == 'big':
        trim_big(bad)
    if bad is None:
        want = ''.join(l + '\n' for l in obs[-1]['buf']).encode() if obs else None
        if obs and r.files.get('f') != want:
            bad = {'what': 'the file written by the final w differs from the buffer shown by the last %p',
                   'expected': want.decode('latin-1'), 'observed': (r.files.get('f') or b'<none>').decode('latin-1')}
    res = ('ok', None)
    if bad is not None:
        res = ('undefined', bad) if bad.get('undefined') else ('violation', bad)
    if mans is not None and res[0] in ('ok', 'undefined'):
        d, ms = model_stream(mans)
        if int(d.get('F', '0')) & 3:
            return 'disagree', {'what': 'model left its fragment (flags=%s: 1 = out of fuel, 2 = unmodelled construct)' % d.get('F')}
        mobs = parse_impl(ms)
        if mobs != obs:
            k = 0
            while mobs and obs and k < min(len(mobs), len(obs)) and mobs[k] == obs[k]:
                k += 1
            det = {'what': 'model and implementation differ at step %d' % k,
                   'implementation': obs[k] if obs and k < len(obs) else None,
                   'model': mobs[k] if mobs and k < len(mobs) else None}
            if case.get('stream') == 'big' and det['implementation'] and det['model']:
                for fld in ('out', 'buf'):
                    det['implementation'][fld], det['model'][fld] = trim_pair(det['implementation'][fld], det['model'][fld])
            return 'disagree', det
        if d.get('W') not in (None, 'x') and vlib.unhx(d['W']) != r.files.get('f'):
            return 'disagree', {'what': 'written file differs between model and implementation'}
    return res


def shrink_case(vi, case, kind):
    def fails(steps):
        c = dict(case, steps=steps)
        return check_case(vi, c, None)[0] == kind
    if kind not in ('violation', 'crash'):
        return case
    try:
        steps = vlib.shrink(case['steps'], fails, max_steps=60)
    except Exception:
        steps = case['steps']
    return dict(case, steps=steps)


def corpus_cases():
    out = []
    for p in sorted(_glob.glob(os.path.join(vlib.VERIF, 'corpus', 'C06-*.json'))):
        c = json.load(open(p))
        c['name'] = os.path.basename(p)
        fix_json(c)
        out.append(c)
    return out


def fix_json(c):
    """JSON turns tuples into lists; restore what the renderer expects"""
    def fa(a):
        if a == '%' or a is None:
            return a
        return [({'base': (tuple(t['base']) if t['base'] is not None else None), 'offs': t['offs']}, sep) for t, sep in a]
    for step in list(c['steps']) + list((c.get('cmdtab') or {}).values()):
        for x in step:
            if 'addr' in x:
                x['addr'] = fa(x['addr'])
            if x.get('cmds'):
                for ln in x['cmds']:
                    for y in ln:
                        if 'addr' in y:
                            y['addr'] = fa(y['addr'])


def exhaustive_cases(maxn):
    """single commands over all address forms on buffers of 0..maxn lines, every current line"""
    out = []
    forms = []
    nums = list(range(0, maxn + 2))
    terms = [{'base': ('n', v), 'offs': []} for v in nums] + [{'base': ('.',), 'offs': []}, {'base': ('$',), 'offs': []},
             {'base': ('.',), 'offs': [1]}, {'base': ('.',), 'offs': [-1]}, {'base': ('$',), 'offs': [-1]}, {'base': None, 'offs': [2]},
             {'base': ('m', 'a'), 'offs': []}, {'base': ('m', 'c'), 'offs': []}, {'base': ('/', 'ab'), 'offs': []}, {'base': ('?', 'ab'), 'offs': []},
             {'base': ('/', 'nomatch'), 'offs': []}]
    forms = [[], '%'] + [[(t, None)] for t in terms]
    for t1 in terms[:maxn + 4]:
        for t2 in terms[:maxn + 4]:
            forms.append([(t1, ','), (t2, None)])
            forms.append([(t1, ';'), (t2, None)])
    cmds = [lambda a: {'cmd': 'a', 'addr': a, 'text': ['new1', 'new2']}, lambda a: {'cmd': 'i', 'addr': a, 'text': ['new1']},
            lambda a: {'cmd': 'c', 'addr': a, 'text': ['new1']}, lambda a: {'cmd': 'c', 'addr': a, 'text': []},
            lambda a: {'cmd': 'd', 'addr': a}, lambda a: {'cmd': 'y', 'addr': a, 'reg': 'a'}, lambda a: {'cmd': 'pu', 'addr': a, 'reg': 'b'},
            lambda a: {'cmd': 'p', 'addr': a}, lambda a: {'cmd': '=', 'addr': a}, lambda a: {'cmd': 'k', 'addr': a, 'mark': 'b'},
            lambda a: {'cmd': 'r', 'addr': a, 'path': 'g'}, lambda a: {'cmd': '!', 'addr': a or '%', 'filter': 'tr a-z A-Z'},
            lambda a: {'cmd': '!', 'addr': a or '%', 'filter': 'sed d'}]
    for n in range(0, maxn + 1):
        flines = [['ab', 'cd', 'ab x', 'zz', 'q'][i % 5] + str(i) for i in range(n)]
        for cur in range(0, max(1, n)):
            pre = [[{'cmd': 'rs', 'reg': 'b', 'text': ['reg1', 'reg2']}]]
            if n >= 1:
                pre.append([{'cmd': 'k', 'mark': 'a', 'addr': [({'base': ('n', min(2, n)), 'offs': []}, None)]}])
                pre.append([{'cmd': 'k', 'mark': 'b', 'addr': [({'base': ('n', n), 'offs': []}, None)]}])
                pre.append([{'cmd': 'k', 'mark': 'z', 'addr': [({'base': ('n', cur + 1), 'offs': []}, None)]}])
                pre.append([{'cmd': 'p', 'addr': [({'base': ('n', cur + 1), 'offs': []}, None)]}])
            for f in forms:
                for mk in cmds:
                    out.append({'file': flines, 'files': {'g': ['gg1', 'gg2']}, 'wa': True, 'steps': pre + [[mk(f)]]})
    return out


# ---------------------------------------------------------------------------------------------
# the parser tie: ex_loc / ex_cmd / ex_idx / ex_arg of the real ex.c (harness/probe_exparse.c, request `parse`) on the command lines of
# the generated cases.  ORACLE (independent of the model): the renderer r_cmd is the inverse of the parser, so the pieces the C
# scanners split a rendered line into must be the pieces it was rendered from.  CORRESPONDENCE: ExDefs' parse loop (drv_ex `parse`).

def cmd_pieces(c):
    """(loc, cmd, arg) the command was rendered from, or None when the command has no single-line rendering"""
    k = c['cmd']
    if k == 'R':
        return None
    loc = r_addr(c.get('addr', []))
    cmd = c.get('spell', k)
    arg = ''
    if k in ('d', 'y', 'pu', '@', 'rs'):
        arg = c.get('reg') or ''
    elif k == 'k':
        arg = c['mark']
    elif k == 'r':
        arg = c['path']
    elif k == '!':
        arg = c['filter']
    elif k == 'rx':
        arg = c['reg'] + ' ' + c['filter']
    elif k == 'ec':
        arg = c['text']
    return (loc, cmd, arg)


def step_pieces(step):
    ps = [cmd_pieces(c) for c in step]
    if any(p is None for p in ps):
        return None
    # `!` (and g, v) take the rest of the line: the renderer only puts them last
    if any(c['cmd'] in ('!', 'rx') for c in step[:-1]):
        return None
    return '|'.join(r_cmd(dict(c, text=[], cmds=None, inblocks=None))[0] for c in step), ps


def parse_answer(a):
    """probe / model answer -> list of (loc, cmd, kind, arg, pos)"""
    out = []
    for w in a.split():
        if w == '-':
            continue
        f = w.split(',')
        if len(f) != 5:
            return None
        unh = lambda h: b'' if h == '-' else bytes.fromhex(h)
        out.append((unh(f[0]), unh(f[1]), f[2], unh(f[3]), int(f[4])))
    return out


def parse_lines_extra(rng, n):
    """raw command lines aimed at the case splits of the scanners: separators inside s / g / ! arguments, backslashes, quotes,
    search addresses with the delimiter escaped, k<mark>, 8-bit bytes, lengths around EXLEN - 1"""
    locs = ['', '1', '1,2', '%', '.,$', "'a,'b", '/a\\/b/', '?x|y?', '/ab/;+1', '$-1', ': 2', '0', "'a", '1;/c|d/']
    cmds = ['p', 'd', 'd a', 'y b', 'pu', 'ka', 'k b', '=', 'u', 's/a|b/c/', 's/a/b|c/g', 's,a,b|,', 's/a\\/b/c/|p', '&', '~', 'g/a|b/p|p', 'v/x/d',
            'g!/a/s/b/c/', '!tr a-z A-Z | cat', 'r !echo a|b', 'w !cat|cat', 'r f|p', 'ec a\\|b', 'ec "x|y', 'p "comment|d', 'zz', 'zz a|b', 'se ic',
            'e! f|p', 'print', 'delete x', 'substitute/a/b/', 'a', 'i', 'c', 'rs x', 'ya', 'q!', '@a', '@', 'mark a', 'k', 'p\x80\xff']
    out = []
    for i in range(n):
        k = 1 + rng.below(4)
        parts = []
        for _ in range(k):
            parts.append(rng.choice(locs) + (' ' if rng.below(4) == 0 else '') + rng.choice(cmds))
        ln = ('|' if rng.below(8) else ' | ').join(parts)
        if rng.below(6) == 0:
            want = rng.choice([509, 510, 511])
            if len(ln) < want:
                ln = ln + ' ' * 0 + ('|ec ' + 'x' * (want - len(ln) - 4) if want - len(ln) > 4 else 'x' * (want - len(ln)))
        out.append(ln.encode('latin-1').decode('unicode_escape').encode('latin-1')[:511])
    return out


# command texts with the pieces the conventions of ex.c's scanners assign to them (design.d/C06.md, round tr-exparse): a backslash takes
# the next byte along and both are kept; the delimiters of s / & / ~ and of a search address protect a bar; g v ! and r / w with a `!`
# take the rest of the line; a double quote starts a comment that runs to the end of the line; k takes its mark without a blank.
# (text, loc, cmd, arg, takes the rest of the line)
CONV = [
    ('ec a\\|b', '', 'ec', 'a\\|b', False), ('ec x\\\\', '', 'ec', 'x\\\\', False), ('s/a\\/b/c/', '', 's', '/a\\/b/c/', False),
    ('s/a|b/c/', '', 's', '/a|b/c/', False), ('s,x|y,z,g', '', 's', ',x|y,z,g', False), ('/a\\/b/p', '/a\\/b/', 'p', '', False),
    ('?x|y?d', '?x|y?', 'd', '', False), ("'a,'bp", "'a,'b", 'p', '', False), ('1,2 p', '1,2', 'p', '', False), ('ka', '', 'k', 'a', False),
    ('k b', '', 'k', 'b', False), ('pu x', '', 'pu', 'x', False), ('d  a', '', 'd', 'a', False), ('r f', '', 'r', 'f', False),
    ('zz y', '', 'zz', 'y', False), ('=', '', '=', '', False), ('@a', '', '@', 'a', False), ('s', '', 's', '', False),
    ('1;/c|d/p', '1;/c|d/', 'p', '', False), ('$-1,$y q', '$-1,$', 'y', 'q', False), ('print', '', 'print', '', False),
    ('p "comment|d', '', 'p', '', True), ('g/a|b/p|p', '', 'g', '/a|b/p|p', True), ('v/x/d|p', '', 'v', '/x/d|p', True),
    ('!tr a-z A-Z | cat', '', '!', 'tr a-z A-Z | cat', True), ('r !echo a|b', '', 'r', '!echo a|b', True), ('w !cat|cat', '', 'w', '!cat|cat', True),
]


def conv_lines(rng, n):
    out = {}
    for t in CONV:
        out[t[0]] = [t[1:4]]
    for _ in range(n):
        k = 1 + rng.below(4)
        parts = [rng.choice([t for t in CONV if not t[4]]) for _ in range(k - 1)] + [rng.choice(CONV)]
        out['|'.join(t[0] for t in parts)] = [t[1:4] for t in parts]
    return sorted(out.items())


def parse_tie(ctx, res, cases, model):
    probe = vlib.build_probe('exparse', includes=['ex', 'term'])
    seen = {}
    for c in cases:
        for st in list(c['steps']) + [ln for ln in (c.get('cmdtab') or {}).values()]:
            sp = step_pieces(st)
            if sp and sp[0] and len(sp[0]) < 511 and sp[0] not in seen:
                seen[sp[0]] = sp[1]
    rendered = sorted(seen.items()) + ([] if ctx.replay else conv_lines(ctx.rng.fork('convlines'), 300 if ctx.quick else 3000))
    raw = [] if ctx.replay else parse_lines_extra(ctx.rng.fork('parselines'), 1500 if ctx.quick else 20000)
    lines = [t.encode('latin-1') for t, _ in rendered] + raw
    lines = [l for l in lines if l and b'\0' not in l]
    reqs = ['parse ' + l.hex() for l in lines]
    rc, out, err = vlib.run_lines(probe, reqs, timeout=600)
    if rc != 0 or len(out) != len(reqs):
        res.disagree({'what': 'probe_exparse parse: rc=%d, %d answers for %d requests' % (rc, len(out), len(reqs)), 'stderr': err[-600:]})
        return
    mout = None
    if model:
        rcm, mout, errm = vlib.run_lines(model, reqs, timeout=600)
        if rcm != 0 or len(mout) != len(reqs):
            res.disagree({'what': 'model driver parse: rc=%d, %d answers for %d requests' % (rcm, len(mout), len(reqs)), 'stderr': errm[-600:]})
            mout = None
    nviol = 0
    for i, (l, a) in enumerate(zip(lines, out)):
        res.evaluations += 1
        res.count('parse tie line (%s)' % ('rendered from a generated step' if i < len(rendered) else 'raw scanner line'))
        pa = parse_answer(a)
        if pa is None:
            res.disagree({'what': 'probe_exparse parse: unreadable answer', 'input': l.decode('latin-1'), 'implementation': a[:300]})
            continue
        if i < len(rendered):
            want = [(x.encode('latin-1'), y.encode('latin-1'), z.encode('latin-1')) for x, y, z in rendered[i][1]]
            got = [(p[0], p[1], p[3]) for p in pa]
            if got != want and nviol < 5:
                nviol += 1
                res.violation({'what': 'the command line is not split into the (address, command, argument) pieces it was rendered from',
                               'input': {'line': l.decode('latin-1')},
                               'expected': [[x.decode('latin-1') for x in t] for t in want],
                               'observed': [[x.decode('latin-1') for x in t] for t in got]})
        if len(l) > 20 or b'|' in l:
            res.nontriv('parse ' + l.decode('latin-1'))
        if mout is not None:
            pm = parse_answer(mout[i])
            ok = pm is not None
            if ok:
                for k, q in enumerate(pm):
                    if k >= len(pa):
                        ok = False
                        break
                    p_ = pa[k]
                    if q[2] == 'O':         # an excmds[] entry outside the model: address and name only
                        ok = ok and (p_[0], p_[1]) == (q[0], q[1]) and int(p_[2]) >= 0
                        break
                    ok = ok and (p_[0], p_[1], p_[3], p_[4]) == (q[0], q[1], q[3], q[4]) and (int(p_[2]) >= 0) == (q[2] == 'S')
                else:
                    ok = ok and len(pm) == len(pa)
            if not ok:
                res.disagree({'what': 'parse of a command line: ex.c (probe_exparse) and ExDefs (extracted) differ',
                              'input': {'line': l.decode('latin-1')}, 'implementation': a[:400], 'model': mout[i][:400]})
    res.extra['parse tie lines'] = len(lines)
    # the length guard of ex_exec (C06_tr_ex_exec_long): the REAL ex_exec (probe request `exec`, sanitized build) on lines of EXLEN - 1,
    # EXLEN and EXLEN + 1 bytes that, if they are parsed at all, move the current line of a five-line buffer from 0 to 2
    exlen = 512
    for l in open(os.path.join(vlib.REPO, 'vi.h'), errors='replace'):
        mm = re.match(r'#define\s+EXLEN\s+(\d+)', l)
        if mm:
            exlen = int(mm.group(1))
    pa = vlib.build_probe('exparse', includes=['ex', 'term'], asan=True)
    env = dict(os.environ, ASAN_OPTIONS='detect_leaks=0:exitcode=101', UBSAN_OPTIONS='halt_on_error=1:exitcode=102:print_stacktrace=1')
    for n in (exlen - 1, exlen, exlen + 1):
        for ln in (b':' * (n - 1) + b'3', b'3' + b' ' * (n - 1), b'0' * (n - 1) + b'3'):
            rc, o, err = vlib.run_lines(pa, ['exec ' + ln.hex()], timeout=120, env=env)
            res.evaluations += 1
            res.count('ex_exec on a line of EXLEN%+d bytes' % (n - exlen))
            a = o[0] if o else ''
            want = 'xrow=2' if n < exlen else '1 xrow=0'
            if rc != 0 or not a.endswith(want):
                res.violation({'what': 'ex_exec on a command line of %d bytes (EXLEN = %d): %s' % (n, exlen,
                                       'not executed' if n < exlen else 'not refused before the scanners ran (loc / cmd / arg hold EXLEN bytes)'),
                               'input': {'exec_line': ln.decode('latin-1')}, 'expected': want,
                               'observed': (a + (' rc=%d ' % rc) + err[:300]) if rc else a})


def parse_replay(res, rp):
    """re-run a recorded violation of the parser tie: the line and the pieces it was rendered from"""
    if 'exec_line' in rp['input']:
        pa = vlib.build_probe('exparse', includes=['ex', 'term'], asan=True)
        env = dict(os.environ, ASAN_OPTIONS='detect_leaks=0:exitcode=101', UBSAN_OPTIONS='halt_on_error=1:exitcode=102:print_stacktrace=1')
        rc, o, err = vlib.run_lines(pa, ['exec ' + rp['input']['exec_line'].encode('latin-1').hex()], timeout=120, env=env)
        res.evaluations += 1
        a = o[0] if o else ''
        if rc != 0 or not a.endswith(rp.get('expected', '')):
            res.violation({'what': rp.get('what', 'ex_exec at the EXLEN bound'), 'input': rp['input'], 'expected': rp.get('expected'),
                           'observed': (a + (' rc=%d ' % rc) + err[:300]) if rc else a})
        return
    probe = vlib.build_probe('exparse', includes=['ex', 'term'])
    l = rp['input']['line'].encode('latin-1')
    rc, out, err = vlib.run_lines(probe, ['parse ' + l.hex()], timeout=60)
    res.evaluations += 1
    pa = parse_answer(out[0]) if rc == 0 and out else None
    got = [[p[0].decode('latin-1'), p[1].decode('latin-1'), p[3].decode('latin-1')] for p in pa] if pa is not None else None
    if got != rp.get('expected'):
        res.violation({'what': rp.get('what', 'the command line is not split into the pieces it was rendered from'), 'input': rp['input'],
                       'expected': rp.get('expected'), 'observed': got})


def run(ctx):
    res = ctx.res
    rng = ctx.rng
    vi = vlib.build_vi(asan=False)
    model = ctx.model('ex')
    res.rule = ('one case = one ex script on a buffer of 0..6 lines run through the real `vi -s -e`, the extracted model and the '
                'reference line editor, with buffer, printed output, current line and three marks compared after every command; '
                'non-trivial = the script contains a command that changes the buffer with an explicit address; distinct = distinct script text')
    cases = []
    if ctx.replay:
        rp = json.load(open(ctx.replay))
        c = rp.get('input', rp)
        if isinstance(c, dict) and ('line' in c or 'exec_line' in c) and 'steps' not in c:
            parse_replay(res, rp)
            return
        fix_json(c)
        cases = [c]
    else:
        cases = corpus_cases()
        ncorp = len(cases)
        nrand = 1500 if ctx.quick else 40000
        for i in range(nrand):
            cases.append(gen_case(rng.fork('case%d' % i), ctx.quick))
        nreg = 450 if ctx.quick else 9000
        for i in range(nreg):
            cases.append(gen_reg_case(rng.fork('reg%d' % i), ctx.quick))
        nstr = 600 if ctx.quick else 12000
        for i in range(nstr):
            cases.append(gen_str_case(rng.fork('str%d' % i), ctx.quick))
        # (the reference runs the external commands while the cases are generated: the forks are independent, so in parallel)
        npipe = 400 if ctx.quick else 10000
        cases += vlib.pmap(lambda r: gen_pipe_case(r, ctx.quick), [rng.fork('pipe%d' % i) for i in range(npipe)])
        cases += pipe_sweep()
        nbig = 14 if ctx.quick else 120
        cases += vlib.pmap(lambda r: gen_big_case(r, ctx.quick), [rng.fork('big%d' % i) for i in range(nbig)])
        ex = exhaustive_cases(2 if ctx.quick else 4)
        if ctx.quick:
            r2 = rng.fork('exh')
            r2.shuffle(ex)
            ex = ex[:1500]
        cases += ex
    mans = [None] * len(cases)
    if model:
        rc, outm, err = vlib.run_lines(model, [model_request(c) for c in cases], timeout=3000)
        if rc != 0 or len(outm) != len(cases):
            res.disagree({'what': 'model driver: rc=%d, %d answers for %d requests' % (rc, len(outm), len(cases)), 'stderr': err[-800:]})
        else:
            mans = outm
    results = vlib.pmap(lambda cm: check_case(vi, cm[0], cm[1]), list(zip(cases, mans)))
    nshrunk = 0
    for case, (kind, det) in zip(cases, results):
        res.evaluations += 1
        script = build_script(case)
        kinds = set(x['cmd'] for st in case['steps'] for x in st)
        for kk in kinds:
            res.count('cmd ' + (kk or 'null'))
        res.count('buffer lines %d' % len(case['file']))
        if case.get('regprobe'):
            res.count('register-history case (registers 1..9 revealed after every command)')
        if case.get('stream') == 'pipe':
            res.count('pipe case (r file / r !cmd / filter / rx with empty, unterminated and terminated texts)')
            for st in case['steps']:
                for x in st:
                    if x['cmd'] == 'r':
                        res.count('pipe: r !cmd' if x['path'].startswith('!') else 'pipe: r of a file without final newline' if x['path'] in case.get('nonl', ()) else 'pipe: r file')
                    elif x['cmd'] == 'rx':
                        res.count('pipe: rx')
                    elif x['cmd'] == '!' and x['filter'] not in BUILTIN_FILTERS:
                        res.count('pipe: filter run by the reference')
        if case.get('stream') == 'big':
            res.count('big case (more than 64 KiB through !cmd / rx)')
        if case.get('stream') == 'cmdstring':
            res.count('command-string case (register with a multi-line command list run by @)')
            if any(ln[-1]['cmd'] == 'rs' for ln in case['cmdtab'].values()):
                res.count('command-string case with an rs inside the string')
            if any(x.get('inblocks') for st in case['steps'] for x in st):
                res.count('command-string case where a command inside the register reads a text block from the input')
        for st in case['steps']:
            for x in st:
                if x['cmd'] in ('pu', '@') and (x.get('reg') or '') in NUMREGS and x.get('reg'):
                    res.count('%s from a numbered register' % x['cmd'])
        if any(x['cmd'] in ('a', 'i', 'c', 'd', 'pu', 'r', '!') and x.get('addr') for st in case['steps'] for x in st):
            res.nontriv(script if len(script) < 4000 else __import__('hashlib').sha1(script).hexdigest())
        if kind == 'ok':
            continue
        if kind == 'undefined':
            w = det.get('what', '')
            res.count('oracle undefined (%s)' % ('unknown mark used' if 'unknown mark' in w else
                                                 'in-string rs block empty or unterminated: the property is silent' if 'terminated' in w else
                                                 'a register of plain text lines run as commands'))
            continue
        if kind == 'disagree':
            res.disagree(dict(det, input=case_input(case)))
            continue
        kf = classify(case, det)
        if kf is None and nshrunk < 3:
            nshrunk += 1
            small = shrink_case(vi, case, kind)
            k2, d2 = check_case(vi, small, None)
            if k2 == kind:
                case, det = small, d2
        res.violation(dict(det, input=case_input(case)), kf=kf)
    if not ctx.replay:
        parse_tie(ctx, res, cases, model)
    for c in cases[:200:41]:
        res.sample({'script': build_script(c).decode('latin-1')[:600]})
    res.extra['cases'] = len(cases)
