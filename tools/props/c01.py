"""C01 -- write-out equals buffer text; read-then-write reproduces the file byte for byte.

Correspondence: (i) harness/probe_io.c (lbuf_rd fed one chunk per read(2) through a SOCK_SEQPACKET
pair, lbuf_wr onto a real file with previous contents; plain and ASan builds of /repo's lbuf.c and
sbuf.c) and (ii) the real `vi -s -e` (`%p`, `:a,bw[!] t`, `:Nr g`, `:x,yd`, `:w`, `:wq`) versus the
extracted model coq/IoDefs.v.  Oracle (the property itself, in Python): norm(file) / the
concatenation of the addressed lines, compared byte for byte with what the implementation left in
the files and printed.  (iii) short-write stream: `:a,bw! t` of the real editor under harness/faultshim.c
(LD_PRELOAD) with every write(2) to the target cut to a cap (legal short counts, never an error): the
retry path of write_fully, which coq/TrWrite.v ties to the C text by proof; oracle = the same byte equality.
"""
import json, os, resource, subprocess
import vlib

GROUP = 'io'
TRUSTED = ['Python bytes.split/join as the independent reference (norm, want) of the failing-input search',
           'AF_UNIX SOCK_SEQPACKET delivers one record per read(2) (used to control the chunking seen by lbuf_rd)',
           'harness/faultshim.c (LD_PRELOAD interposer) for the short-write stream: write(2) to the target really writes min(cap, n) bytes']

LINE_LENS = [0, 1, 2, 3, 1021, 1022, 1023, 1024, 1025, 1026, 2047, 2048, 2049, 4093, 4094, 4095, 4096, 4097, 4098,
             8191, 8192, 8193, 20000]
CHUNK = [1024]
COUNTS = [0, 1, 2, 3, 511, 512, 513, 514, 1023, 1024, 1025, 1026, 2049]


# ------------------------------------------------------------------ the property in Python
def norm(f):
    return f if (not f or f.endswith(b'\n')) else f + b'\n'


def lines_of(f):
    return [l + b'\n' for l in norm(f).split(b'\n')[:-1]]


def want(lines, b, e):
    return b''.join(lines[b:e])


# ------------------------------------------------------------------ generators
def body(rng, n, mode):
    """n bytes, no NUL, no newline.  mode 0 ascii, 1 any byte 1..255, 2 valid UTF-8, 3 high bytes only."""
    if n == 0:
        return b''
    if mode == 2:
        alpha = ['a', 'Z', ' ', '\t', 'é', 'س', '€', '中', '\U0001f600', '́']
        s = ''.join(rng.choice(alpha) for _ in range(min(n, 48))).encode('utf-8')
    elif mode == 0:
        s = bytes(rng.range(32, 126) for _ in range(min(n, 48)))
    elif mode == 3:
        s = bytes(rng.range(128, 255) for _ in range(min(n, 48)))
    else:
        s = bytes(rng.choice([rng.range(1, 9), rng.range(11, 255), rng.range(11, 255), 13, 27, 255, 128, 9]) for _ in range(min(n, 48)))
    out = (s * (n // len(s) + 1))[:n]
    if mode == 2:
        # do not cut a character in half: pad the tail with ASCII
        while True:
            try:
                out.decode('utf-8')
                break
            except UnicodeDecodeError as e:
                out = out[:e.start] + b'x' * (len(out) - e.start)
    return out


def gen_file(rng, kind=None):
    """Returns (bodies, last_nl, kind)."""
    kind = kind if kind is not None else rng.choice(['long', 'long', 'batch', 'batch', 'many', 'many', 'small', 'small', 'small'])
    mode = rng.choice([0, 1, 1, 2, 3])
    bodies = []
    if kind == 'long':
        for _ in range(rng.range(1, 5)):
            t = rng.below(10)
            n = rng.choice(LINE_LENS) if t < 7 else rng.range(0, 6000)
            bodies.append(body(rng, n, mode))
    elif kind == 'batch':
        # runs of lines whose lengths (with newline) add up to 4095 / 4096 / 4097 ...
        for _ in range(rng.range(1, 4)):
            total = rng.choice([4094, 4095, 4096, 4097, 4098, 8191, 8192, 8193])
            k = rng.range(1, 5)
            rest = total
            for i in range(k):
                ln = rest if i == k - 1 else rng.range(1, max(1, rest - (k - 1 - i)))
                rest -= ln
                bodies.append(body(rng, ln - 1, mode))
                if rest <= 0:
                    break
            if rng.chance(1, 2):
                bodies.append(body(rng, rng.choice([0, 1, 4094, 4095, 4096, 5000]), mode))
    elif kind == 'many':
        n = rng.choice(COUNTS[4:])
        w = rng.choice([0, 1, 2, 5])
        pat = [body(rng, rng.range(0, w), mode) for _ in range(7)]
        bodies = [pat[i % 7] for i in range(n)]
    else:
        for _ in range(rng.choice([0, 1, 1, 2, 3, 5, 9])):
            bodies.append(body(rng, rng.choice([0, 0, 1, 2, 3, 7, 40, 300]), mode))
    last_nl = not rng.chance(1, 3)
    return bodies, last_nl, kind


def content_of(bodies, last_nl):
    c = b''.join(b + b'\n' for b in bodies)
    if bodies and not last_nl:
        c = c[:-1]
    return c


def rd_chunk():
    """size of lbuf_rd's read buffer as the translator found it in the current sources (records longer
    than the buffer would be truncated by SOCK_SEQPACKET, which a regular file never does)"""
    try:
        import re
        m = re.search(r'Definition RD_CHUNK : Z := (\d+)%Z', open(os.path.join(vlib.COQ, 'GenConsts.v')).read())
        return max(1, int(m.group(1)))
    except Exception:
        return 1024


def chunking(rng, n, small_ok):
    """chunk sizes (each 1..RD_CHUNK) summing to n, as successive read(2) results."""
    C = CHUNK[0]
    style = rng.choice(['full', 'full', 'rand', 'edge', 'tiny' if small_ok else 'rand'])
    out = []
    while n > 0:
        if style == 'full':
            c = C
        elif style == 'rand':
            c = rng.range(1, C)
        elif style == 'edge':
            c = rng.choice([1, max(1, C - 1), C, C, max(1, C // 2), 2])
        else:
            c = rng.range(1, 3)
        c = min(c, n)
        out.append(c)
        n -= c
    return out


def gen_old(rng, target_len):
    t = rng.below(8)
    if t < 2:
        return None
    if t < 4:
        n = rng.range(0, max(0, target_len - 1)) if target_len else 0
    elif t < 5:
        n = target_len
    else:
        n = target_len + rng.choice([1, 2, 100, 4096, 5000])
    return bytes((i * 7 + 3) % 251 + 1 for i in range(n))


def gen_range(rng, n):
    if n == 0:
        return 0, 0
    t = rng.below(8)
    if t < 2:
        return 0, n
    if t == 2:
        return 0, 1
    if t == 3:
        return n - 1, n
    b = rng.range(0, n - 1)
    e = rng.range(b + 1, n)
    return b, e


def hexchunks(content, sizes):
    out, p = [], 0
    for s in sizes:
        out.append(content[p:p + s].hex())
        p += s
    return ','.join(out) if out else '-'


def gen_case(rng, kind=None):
    bodies, last_nl, kind = gen_file(rng, kind)
    content = content_of(bodies, last_nl)
    lines = lines_of(content)
    n = len(lines)
    case = {'kind': kind, 'content': content.hex(), 'chunks': chunking(rng, len(content), len(content) < 3000)}
    # an optional :Nr g  (read a second file into the middle; aims at the growth of a non-empty line table)
    if n > 0 and rng.chance(1, 3):
        if kind == 'many' or rng.chance(1, 2):
            tgt = rng.choice([511, 512, 513, 1023, 1024, 1025])
            k = max(1, tgt - n) if tgt > n else rng.range(1, 4)
        else:
            k = rng.range(1, 4)
        gb = [body(rng, rng.choice([0, 1, 2, 1023, 1024]) if k < 10 else rng.range(0, 2), 1) for _ in range(k)]
        g = content_of(gb, rng.chance(1, 2))
        pos = rng.range(1, n)
        case['r'] = {'pos': pos, 'content': g.hex(), 'chunks': chunking(rng, len(g), len(g) < 3000)}
        lines = lines[:pos] + lines_of(g) + lines[pos:]
        n = len(lines)
    def newfile():
        t = rng.below(7)
        if t == 0:
            return b''
        if t == 1:
            return rng.choice([b'x', b'\n', b'\xff', b'ab'])
        if t == 2:
            return content[:len(content) // 2]
        if t == 3:
            return content + content_of([body(rng, rng.choice([0, 3, 1024]), 1) for _ in range(rng.range(1, 3))], rng.chance(1, 2))
        return content_of([body(rng, rng.choice([0, 1, 5, 1023, 4096]), 1) for _ in range(rng.range(0, 4))], rng.chance(1, 2))
    # lbuf_rd REPLACING lines beg..end of a non-empty buffer (what :e! does with the whole buffer); probe and model only
    if 'r' not in case and n > 0 and rng.chance(1, 4):
        g = newfile()
        rb = rng.choice([0, 0, rng.range(0, n)])
        re_ = rng.choice([n, n, rng.range(rb, n)])
        case['rep'] = {'beg': rb, 'end': re_, 'content': g.hex(), 'chunks': chunking(rng, len(g), len(g) < 3000)}
    # the file is replaced on disk, then :e! and :w! o must reproduce the new file; editor only
    if n > 0 and rng.chance(1, 3):
        case['reload'] = newfile().hex()
    b, e = gen_range(rng, n)
    if 'rep' in case:
        b, e = 0, n
    case['b'], case['e'] = b, e
    old = gen_old(rng, len(want(lines, b, e)))
    case['old'] = None if old is None else old.hex()
    # an optional :x,yd before the final :w (so that the own file was longer than what is written)
    if n > 1 and rng.chance(1, 2):
        x = rng.range(1, n)
        y = rng.range(x, min(n, x + rng.choice([0, 1, 5, 600])))
        case['del'] = [x, y]
    case['final'] = rng.choice(['w', 'w', 'wq', 'x'])
    return case


# ------------------------------------------------------------------ expected values (Python oracle)
def expect(case):
    """What the property demands, computed from the case alone."""
    content = bytes.fromhex(case['content'])
    lines = lines_of(content)
    ex = {'text0': norm(content)}
    if 'r' in case:
        g = lines_of(bytes.fromhex(case['r']['content']))
        pos = min(case['r']['pos'], len(lines))
        lines = lines[:pos] + g + lines[pos:]
    ex['text1'] = b''.join(lines)
    b, e = min(case['b'], len(lines)), min(case['e'], len(lines))
    ex['b'], ex['e'] = b, e
    ex['t'] = want(lines, b, e)
    if 'del' in case:
        x, y = case['del']
        y = min(y, len(lines))
        x = min(x, y)
        if x >= 1:
            lines = lines[:x - 1] + lines[y:]
            ex['del'] = [x, y]
    ex['f'] = b''.join(lines)
    ex['nfinal'] = len(lines)
    # what the probe must see (it applies `rep` instead of `r`)
    ex['ptext'], ex['pt'] = ex['text1'], ex['t']
    if 'rep' in case:
        l0 = lines_of(content)
        rb, re_ = min(case['rep']['beg'], len(l0)), min(case['rep']['end'], len(l0))
        l1 = l0[:rb] + lines_of(bytes.fromhex(case['rep']['content'])) + l0[re_:]
        ex['ptext'] = ex['pt'] = b''.join(l1)
    if 'reload' in case:
        ex['reload'] = norm(bytes.fromhex(case['reload']))
        ex['f'] = ex['reload']
    return ex


def probe_request(case, ex):
    r = 'rw %s %d %d %s' % (hexchunks(bytes.fromhex(case['content']), case['chunks']), ex['b'], -1 if 'rep' in case else ex['e'],
                            'absent' if case['old'] is None else (case['old'] or '-'))
    if 'rep' in case:
        r += ' %d:%d %s' % (case['rep']['beg'], case['rep']['end'], hexchunks(bytes.fromhex(case['rep']['content']), case['rep']['chunks']))
    elif 'r' in case:
        r += ' %d %s' % (case['r']['pos'], hexchunks(bytes.fromhex(case['r']['content']), case['r']['chunks']))
    return r


def parse_kv(line):
    d = {}
    for part in line.split(' '):
        k, _, v = part.partition('=')
        d[k] = v
    return d


M1, M2 = b'C01qBEGzMARK', b'C01qENDzMARK'


def run_vi_case(exe, case, ex):
    """Runs the real editor; returns {'p':..., 't':..., 'f':..., 'crash':...}."""
    content = bytes.fromhex(case['content'])
    files = {'f': content}
    if case['old'] is not None:
        files['t'] = bytes.fromhex(case['old'])
    sc = []
    if 'reload' in case:
        files['n'] = bytes.fromhex(case['reload'])
        sc.append(b'!cp n f')           # first: `!` refuses while the buffer is modified, and its terminal output is unbuffered
    sc += [b'ec ' + M1, b'%p', b'ec ' + M2]
    if 'r' in case:
        files['g'] = bytes.fromhex(case['r']['content'])
        sc.append(b'%dr g' % case['r']['pos'])
    if ex['e'] > ex['b']:
        sc.append(b'%d,%dw%s t' % (ex['b'] + 1, ex['e'], b'!' if case['old'] is not None else b''))
    if 'del' in ex:
        sc.append(b'%d,%dd' % tuple(ex['del']))
    if 'reload' in case:
        sc += [b'e!', b'w! o', b'w']
    else:
        sc.append(case['final'].encode())
    sc.append(b'q!')
    r = vlib.run_ex(exe, b'\n'.join(sc) + b'\n', files=files, args=['f'], readback=['f', 't', 'o'], timeout=20)
    if r.timed_out:
        r = vlib.run_ex(exe, b'\n'.join(sc) + b'\n', files=files, args=['f'], readback=['f', 't', 'o'], timeout=60)
    out = {'crash': r.crashed(), 'rc': r.rc, 'f': r.files.get('f'), 't': r.files.get('t'), 'o': r.files.get('o'), 'p': None}
    if M1 in r.out and M2 in r.out:
        out['p'] = r.out.split(M1, 1)[1].split(M2, 1)[0]
    return out


def check_vi(case, ex, got):
    """The oracle on the editor's outputs: list of (what, expected, observed)."""
    bad = []
    content = bytes.fromhex(case['content'])
    if got['crash']:
        bad.append(('editor crashed or hung (rc=%s)' % got['rc'], 'normal exit', 'crash'))
        return bad
    if content and got['p'] != ex['text0']:
        bad.append(('%p does not print the file with every line newline-terminated', ex['text0'], got['p']))
    if ex['e'] > ex['b']:
        if got['t'] != ex['t']:
            bad.append(('file written by :%d,%dw is not the concatenation of those lines (previous target: %s)' % (
                ex['b'] + 1, ex['e'], 'absent' if case['old'] is None else '%d bytes' % (len(case['old']) // 2)), ex['t'], got['t']))
    if 'reload' in case:
        if got['o'] != ex['reload']:
            bad.append(('the file was replaced on disk; after :e! the buffer written with :w! is not the new file (%d bytes)' % (len(case['reload']) // 2),
                        ex['reload'], got['o']))
    # the final :w / :wq / :x writes the whole buffer over the file it was read from
    wrote = 'reload' in case or not (case['final'] == 'x' and 'del' not in ex and 'r' not in case)
    exp_f = ex['f'] if wrote else content
    if got['f'] != exp_f:
        bad.append(('after :%s the file is not the buffer text (read-then-write round trip%s)' % (
            case['final'], ', own file was longer' if 'del' in ex else ''), exp_f, got['f']))
    return bad


def clip(b, n=200):
    if b is None:
        return None
    return {'len': len(b), 'head': b[:n].hex(), 'tail': b[-n:].hex()} if len(b) > 2 * n else b.hex()


def first_diff(a, b):
    if a is None or b is None:
        return None
    for i, (x, y) in enumerate(zip(a, b)):
        if x != y:
            return i
    return min(len(a), len(b)) if len(a) != len(b) else None


def run_model(model, reqs, workers=16):
    """Runs the extracted model on the requests, 16 processes in parallel (round-robin split)."""
    def big_stack():
        try:
            resource.setrlimit(resource.RLIMIT_STACK, (resource.RLIM_INFINITY, resource.RLIM_INFINITY))
        except Exception:
            pass

    def one(k):
        sub = reqs[k::workers]
        if not sub:
            return 0, [], ''
        r = subprocess.run([model], input='\n'.join(sub) + '\n', stdout=subprocess.PIPE, stderr=subprocess.PIPE, text=True,
                           timeout=1500, preexec_fn=big_stack)
        return r.returncode, r.stdout.split('\n')[:-1], r.stderr
    parts = vlib.pmap(one, range(workers))
    rc = max(abs(p[0]) for p in parts)
    err = ''.join(p[2] for p in parts)
    out = []
    for i in range(len(reqs)):
        sub = parts[i % workers][1]
        if i // workers >= len(sub):
            return rc or 1, out, err
        out.append(sub[i // workers])
    return rc, out, err


# ------------------------------------------------------------------ short-write stream (write_fully's retry path)
SHORT_CAPS = [1, 2, 100, 777, 1023, 4095, 4096, 4097, 6000]
_shim = []


def build_shim():
    if not _shim:
        so = os.path.join(vlib.tmpdir(), 'faultshim_c01.so')
        r = vlib.sh(['cc', '-shared', '-fPIC', '-O1', '-o', so, os.path.join(vlib.VERIF, 'harness', 'faultshim.c'), '-ldl'])
        if r.returncode != 0:
            raise vlib.BuildError('faultshim.c: ' + r.stdout[-1500:])
        _shim.append(so)
    return _shim[0]


def gen_short(rng, kind):
    """A file, a range and the caps of the first write(2) calls on the target (call 0 is the open)."""
    bodies, last_nl, kind = gen_file(rng, kind)
    content = content_of(bodies, last_nl)
    n = len(lines_of(content))
    b, e = gen_range(rng, n) if rng.chance(1, 3) else (0, n)
    t = rng.below(4)
    if t == 0:
        caps = [rng.choice(SHORT_CAPS)] * 63
    elif t == 1:
        caps = [rng.choice(SHORT_CAPS) for _ in range(63)]
    elif t == 2:
        caps = [rng.choice(SHORT_CAPS)] + [1 << 20] * 3 + [rng.choice(SHORT_CAPS)] * 8      # one short count, full writes, short again
    else:
        caps = [rng.range(1, 5000) for _ in range(rng.range(1, 63))]
    return {'kind': 'shortwrite', 'file_kind': kind, 'content': content.hex(), 'b': b, 'e': e, 'caps': caps}


def run_short(vi, c):
    content = bytes.fromhex(c['content'])
    ls = lines_of(content)
    b, e = max(0, min(c['b'], len(ls))), max(0, min(c['e'], len(ls)))
    exp = want(ls, b, e)
    if e <= b:
        return None
    env = {'LD_PRELOAD': build_shim(), 'NVSHIM_TARGETS': 't',
           'NVSHIM_SCHED': ','.join('%d:short:%d' % (i + 1, k) for i, k in enumerate(c['caps'][:63]))}
    sc = b'%d,%dw! t\nq!\n' % (b + 1, e)
    r = vlib.run_ex(vi, sc, files={'f': content}, args=['f'], readback=['t'], timeout=20, env=env)
    if r.timed_out:
        r = vlib.run_ex(vi, sc, files={'f': content}, args=['f'], readback=['t'], timeout=60, env=env)
    if r.crashed():
        return ('editor crashed or hung while writing under short counts (rc=%s)' % r.rc, exp, b'')
    got = r.files.get('t')
    if got != exp:
        return ('write(2) returned short counts (caps %s...): the file written by :%d,%dw! is not the concatenation of those lines'
                % (c['caps'][:4], b + 1, e), exp, got)
    return None


def shrink_short(vi, c):
    """Fewer lines, then a single cap."""
    content = bytes.fromhex(c['content'])
    ls = lines_of(content)

    def mk(sub, caps):
        return dict(c, content=b''.join(sub).hex(), b=0, e=len(sub), caps=caps)
    try:
        if c['b'] != 0 or c['e'] != len(ls):
            ls = ls[c['b']:c['e']]
        if not run_short(vi, mk(ls, c['caps'])):
            return c
        if len(ls) >= 2:
            ls = vlib.shrink(ls, lambda sub: bool(run_short(vi, mk(sub, c['caps']))), max_steps=40)
        for caps in ([c['caps'][0]], [c['caps'][0]] * 63, c['caps'][:8]):
            if run_short(vi, mk(ls, caps)):
                return mk(ls, caps)
        return mk(ls, c['caps'])
    except Exception:
        return c


def short_stream(ctx, vi, cases):
    res = ctx.res
    bads = vlib.pmap(lambda i: run_short(vi, cases[i]), range(len(cases)))
    for c, bad in zip(cases, bads):
        res.evaluations += 1
        if max(len(l) for l in lines_of(bytes.fromhex(c['content'])) or [b'']) >= 1023 or len(c['content']) // 2 > 4096:
            res.nontriv('short:' + c['content'][:64] + str(c['caps'][:3]) + str(len(c['content'])))
        if bad:
            bad = run_short(vi, c) if bad[0].startswith('editor crashed') else bad        # confirm alone
        if bad:
            what, e, o = bad
            small = c if ctx.replay else shrink_short(vi, c)
            res.violation({'what': what + ' (first difference at byte %s)' % first_diff(e, o or b''), 'input': small,
                           'expected': clip(e), 'observed': clip(o or b'')})
    res.count('short-write cases (faultshim)', len(cases))


def run(ctx):
    res = ctx.res
    rng = ctx.rng
    res.rule = ('one case = one file (line lengths from %s..., line counts from %s, bytes 1..255 in 4 alphabets, last line with/without '
                'newline) x chunking of the read x range x previous target (absent/shorter/equal/longer) x optional :Nr / :x,yd; '
                'non-trivial = a line of >= 1023 bytes, or >= 511 lines, or a byte >= 0x80, or a longer previous target; distinct = distinct case'
                % (LINE_LENS[4:10], COUNTS[4:]))
    probe = vlib.build_probe('io', includes=['lbuf', 'sbuf'])
    probe_asan = vlib.build_probe('io', includes=['lbuf', 'sbuf'], asan=True)
    vi = vlib.build_vi()
    model = ctx.model('io')
    tmp = vlib.tmpdir()
    CHUNK[0] = rd_chunk()
    res.extra['rd_chunk'] = CHUNK[0]

    cases = []
    if ctx.replay:
        rp = json.load(open(ctx.replay))
        inp = rp.get('input')
        if isinstance(inp, dict) and inp.get('kind') == 'shortwrite':
            short_stream(ctx, vi, [inp])
            return
        if isinstance(inp, dict):
            cases.append(inp)
    else:
        cdir = os.path.join(vlib.VERIF, 'corpus')
        for fn in sorted(os.listdir(cdir)):
            if fn.startswith('C01-') and fn.endswith('.json'):
                c = json.load(open(os.path.join(cdir, fn)))
                cases.append(c.get('input', c))
        N = 400 if ctx.quick else 6000
        kinds = ['long', 'batch', 'many', 'small']
        for i in range(N):
            cases.append(gen_case(rng.fork('case%d' % i), kinds[i % 4] if i < 40 else None))
    exs = [expect(c) for c in cases]
    reqs = [probe_request(c, x) for c, x in zip(cases, exs)]
    sb_reqs = []
    if not ctx.replay:
        for i in range(60 if ctx.quick else 600):
            k = rng.range(1, 12)
            sb_reqs.append('sbuf ' + ','.join(str(rng.choice([-1, -1, 0, 1, 2, 126, 127, 128, 129, 255, 256, 1023, 1024, rng.range(0, 5000)])) for _ in range(k)))

    # ---- model
    out_m = None
    if model:
        rc, out_m, err = run_model(model, reqs + sb_reqs)
        if rc != 0 or len(out_m) != len(reqs) + len(sb_reqs):
            res.disagree({'what': 'model driver failed: rc=%d, %d answers for %d requests' % (rc, len(out_m), len(reqs) + len(sb_reqs)), 'stderr': err[-800:]})
            out_m = None

    # ---- probe (plain, ASan)
    def run_probe(exe, what, rq):
        try:
            r = subprocess.run([exe, tmp], input='\n'.join(rq) + '\n', stdout=subprocess.PIPE, stderr=subprocess.PIPE, text=True, timeout=1500,
                               env={'ASAN_OPTIONS': 'detect_leaks=0:exitcode=101', 'UBSAN_OPTIONS': 'halt_on_error=1:exitcode=102:print_stacktrace=1', 'PATH': '/usr/bin:/bin'})
        except subprocess.TimeoutExpired:
            res.violation({'what': what + ' hung', 'input': cases[0] if cases else None})
            return []
        out = r.stdout.split('\n')[:-1]
        if r.returncode != 0:
            k = min(len(out), len(cases) - 1) if cases else 0
            res.violation({'what': '%s died with status %d after %d answers (sanitizer report or crash)' % (what, r.returncode, len(out)),
                           'stderr': r.stderr[-3000:], 'input': cases[k] if k < len(cases) else rq[len(out):len(out) + 1]})
        return out
    out_c = run_probe(probe, 'probe_io', reqs + sb_reqs)
    nas = len(reqs) if ctx.replay else min(len(reqs), 150 if ctx.quick else 1500)
    out_a = run_probe(probe_asan, 'probe_io (ASan/UBSan)', reqs[:nas] + sb_reqs)

    for i, (case, ex) in enumerate(zip(cases, exs)):
        res.evaluations += 1
        content = bytes.fromhex(case['content'])
        res.count('file kind ' + str(case.get('kind')))
        res.count('target ' + ('absent' if case['old'] is None else
                               ('longer' if len(case['old']) // 2 > len(ex['t']) else 'equal' if len(case['old']) // 2 == len(ex['t']) else 'shorter')))
        res.count('last line ' + ('with newline' if content.endswith(b'\n') or not content else 'without newline'))
        if 'r' in case:
            res.count('with :r')
        if 'rep' in case:
            res.count('with lbuf_rd replacing a range (probe)')
        if 'reload' in case:
            res.count('with file replaced on disk + :e!')
        if 'del' in ex:
            res.count('with :d before :w')
        ll = max([len(l) for l in lines_of(content)] or [0])
        if ll >= 1023 or len(lines_of(content)) >= 511 or any(c >= 0x80 for c in content[:4000]) or (case['old'] and len(case['old']) // 2 > len(ex['t'])):
            res.nontriv(i)
        if i >= len(out_c):
            continue
        d = parse_kv(out_c[i])
        if 'file' not in d:
            res.disagree({'what': 'probe_io answered: ' + out_c[i][:200], 'input': case})
            continue
        got_file, got_text = vlib.unhx(d['file']), vlib.unhx(d['text'])
        if got_text != ex['ptext']:
            res.violation({'what': 'lbuf_rd: the buffer text is not the file with every line newline-terminated (first difference at byte %s)' % first_diff(got_text, ex['text1']),
                           'input': case, 'expected': clip(ex['ptext']), 'observed': clip(got_text)})
        if got_file != ex['pt']:
            res.violation({'what': 'lbuf_wr: the file is not the concatenation of lines [%d,%d) (first difference at byte %s; previous target %s)' % (
                ex['b'], ex['e'], first_diff(got_file, ex['pt']), 'absent' if case['old'] is None else '%d bytes' % (len(case['old']) // 2)),
                'input': case, 'expected': clip(ex['pt']), 'observed': clip(got_file)})
        if d.get('cap') != '1':
            res.count('ln_n >= ln_sz after lbuf_replace (logged only: internal capacity, C05 judges memory safety)')
        if out_m is not None:
            m = parse_kv(out_m[i])
            for k in ('n', 'file', 'text'):
                if m.get(k) != d.get(k):
                    res.disagree({'what': 'model and lbuf.c differ in %s' % k, 'input': case, 'implementation': clip(vlib.unhx(d[k])) if k in ('file', 'text') else d.get(k),
                                  'model': clip(vlib.unhx(m[k])) if k in ('file', 'text') and k in m else m.get(k)})
                    break
            if m.get('ovf') != 'false':
                res.disagree({'what': 'model reports a batch overflow', 'input': case})
        if i < nas and i < len(out_a) and out_a[i] != out_c[i]:
            res.violation({'what': 'plain and sanitized builds of lbuf.c answer differently (undefined behaviour)', 'input': case,
                           'plain': out_c[i][:300], 'asan': out_a[i][:300]})
    # sbuf capacity
    for j, rq in enumerate(sb_reqs):
        k = len(reqs) + j
        res.evaluations += 1
        if k < len(out_c):
            d = parse_kv(out_c[k])
            if d.get('room') != '1':
                res.violation({'what': 'sbuf: no room for the terminator after sbuf_mem/sbuf_chr', 'input': rq, 'observed': out_c[k]})
            if out_m is not None and parse_kv(out_m[k]).get('n') != d.get('n'):
                res.disagree({'what': 'model and sbuf.c differ in s_n', 'input': rq, 'implementation': out_c[k], 'model': out_m[k]})
    res.count('sbuf sequences', len(sb_reqs))

    # ---- the real editor
    nvi = len(cases) if (ctx.replay or ctx.quick) else min(len(cases), 3000)

    def one(i):
        return run_vi_case(vi, cases[i], exs[i])
    gots = vlib.pmap(one, range(nvi))
    for i, got in enumerate(gots):
        case, ex = cases[i], exs[i]
        res.evaluations += 1
        if got['crash']:
            got = run_vi_case(vi, case, ex)      # confirm alone
        bad = check_vi(case, ex, got)
        if bad:
            what, e, o = bad[0]
            small = shrink_case(vi, case) if not ctx.replay else case
            res.violation({'what': what + ' (first difference at byte %s)' % first_diff(e, o), 'input': small,
                           'expected': clip(e), 'observed': clip(o), 'unshrunk_kind': case.get('kind')})
            continue
        # model vs editor: the model's file for the same range/old is what :a,bw left in t
        if out_m is not None and ex['e'] > ex['b'] and 'rep' not in case:
            m = parse_kv(out_m[i])
            if 'file' in m and got['t'] is not None and vlib.unhx(m['file']) != got['t']:
                res.disagree({'what': 'model and vi -s -e differ in the file written by :a,bw', 'input': case,
                              'implementation': clip(got['t']), 'model': clip(vlib.unhx(m['file']))})
        if i % 67 == 0:
            res.sample({'kind': case.get('kind'), 'bytes': len(case['content']) // 2, 'lines': len(lines_of(bytes.fromhex(case['content']))),
                        'range': [ex['b'], ex['e']], 'old': None if case['old'] is None else len(case['old']) // 2, 'final': case['final']})
    # ---- short counts from write(2): the retry path of write_fully (tied to the C text by proof in coq/TrWrite.v)
    if not ctx.replay:
        ns = 48 if ctx.quick else 1200
        skinds = ['long', 'batch', 'long', 'batch', 'many', 'small']
        short_stream(ctx, vi, [gen_short(rng.fork('short%d' % i), skinds[i % 6]) for i in range(ns)])
    res.extra['editor_runs'] = nvi
    res.extra['probe_requests'] = len(reqs) + len(sb_reqs)
    res.extra['asan_requests'] = nas + len(sb_reqs)


def shrink_case(vi, case):
    """Delta-debug the lines of the file (ranges are clipped by expect())."""
    content = bytes.fromhex(case['content'])
    ls = lines_of(content)
    last_nl = content.endswith(b'\n')

    def mk(sub):
        c = dict(case)
        body = b''.join(sub)
        if not last_nl and body.endswith(b'\n'):
            body = body[:-1]
        c['content'] = body.hex()
        c['chunks'] = [1] * len(body) if len(body) < 3000 else [CHUNK[0]] * (len(body) // CHUNK[0]) + ([len(body) % CHUNK[0]] if len(body) % CHUNK[0] else [])
        n = len(sub)
        c['b'], c['e'] = min(case['b'], max(0, n - 1)), min(case['e'], n)
        if 'r' in c:
            c['r'] = dict(c['r'], pos=max(1, min(c['r']['pos'], n)))
        if 'del' in c:
            c['del'] = [max(1, min(case['del'][0], n)), max(1, min(case['del'][1], n))]
        return c

    def fails(sub):
        c = mk(sub)
        ex = expect(c)
        return bool(check_vi(c, ex, run_vi_case(vi, c, ex)))
    try:
        if len(ls) >= 2 and fails(ls):
            return mk(vlib.shrink(ls, fails, max_steps=60))
    except Exception:
        pass
    return case
