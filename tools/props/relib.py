"""relib.py -- shared helpers of the regex checks C10 and C11: request/answer protocol of
harness/probe_re.c and ocaml/drv_re.ml, batch running with time limits and crash bisection, the
narrow nullable-loop classifier (KF-EMPTY-LOOP), the invalid-UTF-8 classifier (KF-UTF8-TRUNC), an
independent limit-free backtracking reference matcher with the engine's priorities (greedy,
left-biased), and the structured pattern generator."""
import os, re, subprocess, sys, threading
import vlib

NGRPS = 64
RE_ICASE, RE_NOTBOL, RE_NOTEOL = 1, 2, 4
META = b'.^$[(|)*?+{\\'


def hx(b):
    return b.hex() if b else '-'


def req(flg, nsub, pats, cases, kind='R'):
    return '%s %d %d %s %s' % (kind, flg, nsub, ','.join(hx(p) for p in pats), ','.join('%d:%s' % (f, hx(l)) for f, l in cases))


def parse_answer(line):
    """-> dict(status=rej|big|oob|nofuel|ok|?, n, res, cases=[dict(kind=set|timeout|oob|nofuel, set, g, cut, raw)])"""
    parts = [p.strip() for p in line.split('|')]
    head = parts[0].split()
    d = {'status': head[0] if head else '?', 'raw': line, 'cases': []}
    for w in head[1:]:
        k, _, v = w.partition('=')
        d[k] = v
    for p in parts[1:]:
        c = {'raw': p, 'g': None, 'set': None, 'cut': None}
        ws = p.split()
        c['kind'] = 'set' if ws and ws[0].startswith('set=') else (ws[0] if ws else '?')
        for w in ws:
            k, _, v = w.partition('=')
            if k == 'set':
                c['set'] = int(v)
            elif k == 'cut':
                c['cut'] = int(v)
            elif k == 'g':
                c['g'] = [tuple(int(x) for x in pr.split('.')) if not pr.startswith('-') else _neg(pr) for pr in v.split(',')]
            elif k == 'site':
                c['site'] = v
        d['cases'].append(c)
    return d


def _neg(pr):
    # "-1.-1" or "-1.5"
    m = re.match(r'^(-?\d+)\.(-?\d+)$', pr)
    return (int(m.group(1)), int(m.group(2)))


# ---------------------------------------------------------------------------------------------
# running batches


def run_batch(exe, lines, timeout, env=None):
    """Returns (answers or None, rc, stderr).  rc None = wall-clock timeout."""
    e = dict(os.environ)
    e['ASAN_OPTIONS'] = 'detect_leaks=0:abort_on_error=0:symbolize=%d' % (1 if len(lines) == 1 else 0)
    e['UBSAN_OPTIONS'] = 'print_stacktrace=1'
    if env:
        e.update(env)
    try:
        r = subprocess.run([exe], input='\n'.join(lines) + '\n', stdout=subprocess.PIPE, stderr=subprocess.PIPE,
                           text=True, timeout=timeout, env=e)
    except subprocess.TimeoutExpired:
        return None, None, 'wall-clock timeout'
    out = r.stdout.split('\n')
    if out and out[-1] == '':
        out = out[:-1]
    return out, r.returncode, r.stderr


def run_all(exe, lines, chunk=200, timeout=300, env=None):
    """Run all request lines 16-way in chunks.  Returns list of answers (None where the process
    crashed or hung on exactly that request) and a list of incidents (index, rc, stderr)."""
    chunks = [(i, lines[i:i + chunk]) for i in range(0, len(lines), chunk)]
    answers = [None] * len(lines)
    incidents = []
    lock = threading.Lock()

    def work(item):
        base, ls = item
        todo = [(base, ls)]
        while todo:
            b, l = todo.pop()
            if len(incidents) >= 12:          # enough failing requests isolated: do not bisect the rest
                continue
            out, rc, err = run_batch(exe, l, timeout if len(l) > 1 else max(30, timeout // 4), env)
            if out is not None and rc == 0 and len(out) == len(l):
                for k, a in enumerate(out):
                    answers[b + k] = a
                continue
            if len(l) == 1:
                # confirm once (robustness rule) before reporting
                out2, rc2, err2 = run_batch(exe, l, max(90, timeout // 2), env)
                if out2 is not None and rc2 == 0 and len(out2) == 1:
                    answers[b] = out2[0]
                else:
                    with lock:
                        incidents.append((b, rc2, (err2 or '')[-2500:]))
                continue
            # keep what was answered before the crash, then bisect the rest
            done = 0
            if out is not None and rc != 0:
                done = min(len(out), len(l) - 1)
                # the last printed line may be incomplete
                done = max(0, done - 1)
                for k in range(done):
                    answers[b + k] = out[k]
            rest = l[done:]
            if len(rest) == 1:
                todo.append((b + done, rest))
            else:
                h = max(1, len(rest) // 8) if (rc is not None and rc != 0) else len(rest) // 2
                # crash: the culprit is most likely the first unanswered request
                todo.append((b + done + h, rest[h:]))
                todo.append((b + done, rest[:h]))
    vlib.pmap(work, chunks)
    return answers, incidents


# ---------------------------------------------------------------------------------------------
# trees: ('nil',) ('atom', kind, arg, mn, mx) ('grp', g, mn, mx, child) ('cat', x, y) ('alt', x, y)


def parse_sexp(s):
    toks = s.replace('(', ' ( ').replace(')', ' ) ').split()
    pos = [0]

    def rd():
        t = toks[pos[0]]
        pos[0] += 1
        if t != '(':
            if t == 'nil':
                return ('nil',)
            raise ValueError(t)
        k = toks[pos[0]]
        pos[0] += 1
        if k == 'atom':
            a = toks[pos[0]]
            mn = int(toks[pos[0] + 1])
            mx = int(toks[pos[0] + 2])
            pos[0] += 3
            kind, _, arg = a.partition(':')
            r = ('atom', kind, vlib.unhx(arg) if arg else b'', mn, mx)
        elif k == 'grp':
            g = int(toks[pos[0]])
            mn = int(toks[pos[0] + 1])
            mx = int(toks[pos[0] + 2])
            pos[0] += 3
            r = ('grp', g, mn, mx, rd())
        else:
            x = rd()
            y = rd()
            r = (k, x, y)
        assert toks[pos[0]] == ')'
        pos[0] += 1
        return r
    return rd()


def nullable(t):
    k = t[0]
    if k == 'nil':
        return True
    if k == 'atom':
        return t[3] == 0 or t[1] in ('beg', 'end', 'wbeg', 'wend') or (t[1] == 'chr' and not t[2])
    if k == 'grp':
        return t[2] == 0 or nullable(t[4])
    if k == 'cat':
        return nullable(t[1]) and nullable(t[2])
    return nullable(t[1]) or nullable(t[2])


def nullable_loop(t, inside=False):
    """The narrow classifier of KF-EMPTY-LOOP (empty iterations of a repetition are distinct parses, the engine has
    no empty-iteration check): an unbounded loop (max < 0) whose body can match the empty string, or -- the same root
    cause one level down -- a counted repetition with OPTIONAL copies (min < max) of a nullable body that sits inside
    an unbounded loop: `((a?){2,4}(.+))*X` multiplies the 2^n splits of the outer loop by the ways of taking empty
    optional copies (seed 2 of the quick tier, 12-byte line: > 2 s)."""
    k = t[0]
    if k == 'nil':
        return False
    if k == 'atom':
        anchor = t[1] in ('beg', 'end', 'wbeg', 'wend')
        return anchor and (t[4] < 0 or (inside and 0 <= t[3] < t[4]))
    if k == 'grp':
        mn, mx = t[2], t[3]
        if nullable(t[4]) and (mx < 0 or (inside and 0 <= mn < mx)):
            return True
        return nullable_loop(t[4], inside or mx < 0)
    return nullable_loop(t[1], inside) or nullable_loop(t[2], inside)


def nested_loops(t, inside=False):
    """an unbounded or large repetition inside another one (exponential backtracking possible)"""
    k = t[0]
    if k in ('nil',):
        return False
    if k == 'atom':
        return inside and (t[4] < 0 or t[4] > 3)
    if k == 'grp':
        rep = t[3] < 0 or t[3] > 3
        if inside and rep:
            return True
        return nested_loops(t[4], inside or rep)
    return nested_loops(t[1], inside) or nested_loops(t[2], inside)


# ---------------------------------------------------------------------------------------------
# UTF-8 helpers (the engine's view: regex.c uc_len looks at the lead byte only)


def uclen(c):
    if (c & 0xc0) != 0xc0:
        return 1 if c > 0 else 0
    if not c & 0x20:
        return 2
    if not c & 0x10:
        return 3
    if not c & 0x08:
        return 4
    return 1


def valid_utf8(b):
    try:
        b.decode('utf-8')
        return True
    except UnicodeDecodeError:
        return False


def trunc_utf8(b):
    """KF-UTF8-TRUNC classifier part: some lead byte has fewer bytes after it (before the
    terminator) than its sequence length asks for -- or the string is not valid UTF-8 at all"""
    return not valid_utf8(b)


def boundaries(line):
    out = [0]
    i = 0
    while i < len(line):
        i += max(1, uclen(line[i]))
        out.append(min(i, len(line)))
    return out


# ---------------------------------------------------------------------------------------------
# the reference matcher (independent of the compiled program): enumerates parses in priority order


class Budget(Exception):
    pass


def isword(c):
    return c > 127 or c == 95 or 48 <= c <= 57 or 65 <= c <= 90 or 97 <= c <= 122


def fold(ic, c):
    return c + 32 if ic and 65 <= c <= 90 else c


CLASSES = {
    b':alnum:': b'a-zA-Z0-9', b':alpha:': b'a-zA-Z', b':blank:': b' \t', b':digit:': b'0-9', b':lower:': b'a-z',
    b':print:': b'\x20-\x7e', b':punct:': b'][!"#$%&\'()*+,./:;<=>?@\\^_`{|}~-', b':space:': b' \t\r\n\v\f',
    b':upper:': b'A-Z', b':word:': b'a-zA-Z0-9_', b':xdigit:': b'a-fA-F0-9',
}


def dec_at(b, i):
    """code point at byte i of valid UTF-8 (or the raw byte), and its length"""
    c = b[i]
    n = uclen(c)
    if n == 1 or i + n > len(b):
        return c, 1
    try:
        return ord(b[i:i + n].decode('utf-8')), n
    except UnicodeDecodeError:
        return c, 1


def brk_in(body, c, ic):
    """does the bracket body (text after '[' up to and including the closing ']') contain c --
    including negation"""
    c = fold(ic, c)
    neg = body[:1] == b'^'
    p = 1 if neg else 0
    p0 = p
    hit = False
    while p < len(body) and (p == p0 or body[p] != 0x5d):
        if body[p] == 0x5b and body[p + 1:p + 2] == b':':
            for nm, cls in CLASSES.items():
                if body[p + 1:].startswith(nm) and _cls_has(cls, c, ic):
                    hit = True
            if hit:
                break
            p += brk_len_py(body[p:])
            continue
        beg, n = dec_at(body, p)
        p += n
        end = beg
        if body[p:p + 1] == b'-' and p + 1 < len(body) and body[p + 1] != 0x5d:
            p += 1
            end, n = dec_at(body, p)
            p += n
        if fold(ic, beg) <= c <= fold(ic, end):
            hit = True
            break
    return hit != neg


def brk_len_py(s):
    """port of brk_len: length of the bracket expression that starts at s[0] == '['"""
    g = lambda i: s[i] if i < len(s) else 0
    n = 1
    if g(n) == 0x5e:
        n += 1
    if g(n) == 0x5d:
        n += 1
    while g(n) and g(n) != 0x5d:
        if g(n) == 0x5b and g(n + 1) in (0x3a, 0x3d):
            while g(n) and g(n) != 0x5d:
                n += 1
        if g(n):
            n += 1
    return n + 1 if g(n) == 0x5d else n


def _cls_has(cls, c, ic):
    p = 0
    while p < len(cls) and (p == 0 or cls[p] != 0x5d):
        beg = cls[p]
        p += 1
        end = beg
        if cls[p:p + 1] == b'-' and p + 1 < len(cls) and cls[p + 1] != 0x5d:
            end = cls[p + 1]
            p += 2
        if fold(ic, beg) <= c <= fold(ic, end):
            return True
    return False


class Ref:
    def __init__(self, line, icase, notbol, noteol, budget=400000):
        self.s = line
        self.ic, self.notbol, self.noteol = icase, notbol, noteol
        self.budget = budget

    def prev_word(self, p):
        i = p - 1
        while i > 0 and (self.s[i] & 0xc0) == 0x80:
            i -= 1
        return isword(self.s[i])

    def atom(self, kind, arg, p):
        s = self.s
        n = len(s)
        if kind == 'chr':
            if not self.ic:
                return p + len(arg) if s[p:p + len(arg)] == arg else None
            i = 0
            q = p
            while i < len(arg):
                if q >= n:
                    return None
                c1, l1 = dec_at(arg, i)
                c2, l2 = dec_at(s, q)
                if fold(True, c1) != fold(True, c2):
                    return None
                i += l1
                q += l2
            return q
        if kind == 'any':
            if p >= n or s[p] == 10:
                return None
            return p + dec_at(s, p)[1]
        if kind == 'brk':
            if p >= n:
                return None
            c, l = dec_at(s, p)
            if c == 10:            # fix 86d0c64: under REG_NEWLINE no bracket expression matches the newline
                return None
            return p + l if brk_in(arg[1:], c, self.ic) else None
        if kind == 'beg':
            if p == 0:
                return None if self.notbol else p
            return p if s[p - 1] == 10 and p < n else None
        if kind == 'end':
            if p == n:
                return None if self.noteol else p
            return p if s[p] == 10 else None
        if kind == 'wbeg':
            return p if (p == 0 or not self.prev_word(p)) and p < n and isword(s[p]) else None
        if kind == 'wend':
            return p if p != 0 and self.prev_word(p) and (p == n or not isword(s[p])) else None
        raise ValueError(kind)

    def m(self, t, p, marks):
        """generator of (pos, marks) in priority order"""
        self.budget -= 1
        if self.budget < 0:
            raise Budget()
        k = t[0]
        if k == 'nil':
            yield p, marks
        elif k == 'cat':
            for p1, m1 in self.m(t[1], p, marks):
                yield from self.m(t[2], p1, m1)
        elif k == 'alt':
            yield from self.m(t[1], p, marks)
            yield from self.m(t[2], p, marks)
        elif k == 'atom':
            yield from self.rep(t, t[3], t[4], 0, p, marks)
        else:
            yield from self.rep(t, t[2], t[3], 0, p, marks)

    def body(self, t, p, marks):
        if t[0] == 'atom':
            q = self.atom(t[1], t[2], p)
            if q is not None:
                yield q, marks
        else:
            g = t[1]
            m0 = marks
            if 2 * g < NGRPS:
                m0 = dict(marks)
                m0[2 * g] = p
            for q, m1 in self.m(t[4], p, m0):
                if 2 * g + 1 < NGRPS:
                    m1 = dict(m1)
                    m1[2 * g + 1] = q
                yield q, m1

    def rep(self, t, mn, mx, cnt, p, marks):
        self.budget -= 1
        if self.budget < 0:
            raise Budget()
        if mx < 0 or cnt < mx:
            for q, m1 in self.body(t, p, marks):
                if q == p and cnt >= mn and mx < 0:
                    continue            # an empty iteration of an unbounded loop: never needed, would not end
                yield from self.rep(t, mn, mx, cnt + 1, q, m1)
        if cnt >= mn:
            yield p, marks


def ref_find(trees, line, flg, nsub, icase=False):
    """trees: one tree per pattern of the set, groups numbered as in the combined expression
    (the pattern's own wrapper group first).  Returns (set, [(so,eo)]*nsub) for the leftmost start
    and first pattern / first parse, ignoring the start at len(line); or (-1, None)."""
    r = Ref(line, icase, bool(flg & RE_NOTBOL), bool(flg & RE_NOTEOL))
    for st in (boundaries(line) if line else []):      # regexec tries no start at all on an empty subject
        for i, t in enumerate(trees):
            for q, mk in r.m(t, st, {}):
                return i, st, spans(mk, t[1], nsub)
    return -1, None, None


def spans(mk, g0, nsub):
    return [(mk.get(2 * (g0 + i), -1), mk.get(2 * (g0 + i) + 1, -1)) for i in range(nsub)]


def ref_can(t, line, flg, st, want, nsub, icase):
    """is `want` (list of spans from the pattern's wrapper group on) one of the parses from st?"""
    r = Ref(line, icase, bool(flg & RE_NOTBOL), bool(flg & RE_NOTEOL), budget=300000)
    for q, mk in r.m(t, st, {}):
        if spans(mk, t[1], nsub) == want:
            return True
    return False


def count_groups(t):
    k = t[0]
    if k in ('nil', 'atom'):
        return 0
    if k == 'grp':
        return 1 + count_groups(t[4])
    return count_groups(t[1]) + count_groups(t[2])


def group_parents(t, parent=None, out=None):
    if out is None:
        out = {}
    k = t[0]
    if k == 'grp':
        out[t[1]] = parent
        group_parents(t[4], t[1], out)
    elif k in ('cat', 'alt'):
        group_parents(t[1], parent, out)
        group_parents(t[2], parent, out)
    return out


# ---------------------------------------------------------------------------------------------
# structured generator: builds a tree and its text together (independent of any parser)

CHARS = [b'a', b'b', b'c', b'A', b'B', b'_', b' ', b'1', b'-', 'é'.encode(), 'É'.encode(), '中'.encode(), '\U0001f600'.encode(), b'x']
METALITS = [b'(', b')', b'.', b'*', b'+', b'?', b'[', b'|', b'^', b'$', b'{', b'\\', b'(', b')']
BRKS = [b'[(a]', b'[^)]', b'[ab]', b'[^ab]', b'[a-c]', b'[^a-c_]', b'[[:alpha:]]', b'[[:digit:][:space:]]', b'[^[:alnum:]]', b'[]a]', b'[^]a]', b'[a-]',
        b'[A-Z]', b'[[:upper:]b]', '[à-ÿ]'.encode(), '[^一-鿿]'.encode(), b'[[:word:]]', b'[[:punct:]]', b'[.*]', b'[a\\]',
        b'[b-a]', b'[Z-a]', b'[[:xdigit:]-]', b'[[:lower:]]',
        # shapes of the repaired defect f534655 (rset.c re_groupcount vs brk_len): '[*' and '[=' inside a bracket,
        # a class that comes first in a bracket, parentheses inside brackets
        b'[a[*]', b'[a[*)]', b'[[:space:]()]', b'[[:alpha:](]', b'[^[:digit:])]', b'[])(]', b'[^](]']
# brackets whose text contains a parenthesis or a nested-looking '[' (aimed family of c10.py)
PBRKS = [b'[a[*]', b'[a[*)]', b'[[:space:]()]', b'[[:alpha:](]', b'[^[:digit:])]', b'[])(]', b'[^](]', b'[(a]', b'[^)]']


def esc(lit):
    out = b''
    for c in lit:
        if c in META or c in b'}':
            out += b'\\' + bytes([c]) if c in META else bytes([c])
        else:
            out += bytes([c])
    return out


class Gen:
    """random trees; groups are numbered later by number_groups()"""
    def __init__(self, rng, allow_nullable_loop=False, maxrep=4, chars=None):
        self.rng = rng
        self.chars = chars or CHARS
        self.maxrep = maxrep
        self.allow_nl = allow_nullable_loop

    def lit(self):
        n = self.rng.choice([1, 1, 1, 2, 3])
        # now and then an escaped metacharacter (rendered with a backslash): \( must not count as a group
        return b''.join(self.rng.choice(METALITS) if self.rng.below(7) == 0 else self.rng.choice(self.chars) for _ in range(n))

    def atom(self):
        r = self.rng.below(20)
        if r < 9:
            return ('atom', 'chr', self.lit(), 1, 1)
        if r < 12:
            return ('atom', 'any', b'', 1, 1)
        if r < 16:
            return ('atom', 'brk', self.rng.choice(BRKS), 1, 1)
        return ('atom', self.rng.choice(['beg', 'end', 'wbeg', 'wend']), b'', 1, 1)

    def reps(self):
        r = self.rng.below(12)
        if r < 3:
            return (0, -1)
        if r < 5:
            return (1, -1)
        if r < 7:
            return (0, 1)
        if r < 9:
            a = self.rng.below(self.maxrep)
            return (a, a + self.rng.below(3))
        if r < 10:
            return (self.rng.below(3), -1)
        a = self.rng.below(self.maxrep)
        return (a, a)

    def node(self, depth):
        r = self.rng.below(10)
        if depth <= 0 or r < 3:
            t = self.atom()
        elif r < 6:
            t = ('grp', 0, 1, 1, self.seq(depth - 1) if self.rng.below(12) else ('nil',))
        elif r < 8:
            return ('cat', self.node(depth - 1), self.seq(depth - 1))
        else:
            x = self.seq(depth - 1) if self.rng.below(10) else ('nil',)
            return ('grp', 0, 1, 1, ('alt', x, self.seq(depth - 1)))
        if self.rng.below(5) < 2:
            mn, mx = self.reps()
            if t[0] == 'atom':
                if t[1] == 'chr' and len(t[2]) > 1 and not valid_first_char_only(t[2]):
                    pass
                t = ('atom', t[1], t[2], mn, mx)
            else:
                t = ('grp', 0, mn, mx, t[4])
            if not self.allow_nl and nullable_loop(t):
                t = ('atom', 'chr', b'a', mn, mx)
        return t

    def seq(self, depth):
        n = self.rng.choice([1, 1, 2, 2, 3])
        t = self.node(depth)
        for _ in range(n - 1):
            t = ('cat', t, self.node(depth))
        return normalize(t)

    def top(self, depth=3):
        r = self.rng.below(6)
        t = self.seq(depth)
        if r == 0:
            t = ('alt', t, self.seq(depth))
        return normalize(t)


def valid_first_char_only(b):
    return False


def normalize(t):
    """the shape the engine's parser builds: concatenations and alternations nest to the right,
    adjacent plain literals merge (the parser reads a run of ordinary characters as one literal,
    except that the character before a repetition operator stands alone)."""
    k = t[0]
    if k == 'cat':
        items = flat(t, 'cat')
        items = [normalize(x) if x[0] != 'cat' else x for x in items]
        merged = []
        for x in items:
            if merged and plain_lit(merged[-1]) and x[0] == 'atom' and x[1] == 'chr':
                if x[3] == 1 and x[4] == 1:
                    merged[-1] = ('atom', 'chr', merged[-1][2] + x[2], 1, 1)
                    continue
                # x carries a repetition: only its last character is repeated
                cs = split_chars(x[2])
                if len(cs) > 1:
                    merged[-1] = ('atom', 'chr', merged[-1][2] + b''.join(cs[:-1]), 1, 1)
                    merged.append(('atom', 'chr', cs[-1], x[3], x[4]))
                    continue
                merged.append(x)
                continue
            if x[0] == 'atom' and x[1] == 'chr' and not (x[3] == 1 and x[4] == 1):
                cs = split_chars(x[2])
                if len(cs) > 1:
                    merged.append(('atom', 'chr', b''.join(cs[:-1]), 1, 1))
                    merged.append(('atom', 'chr', cs[-1], x[3], x[4]))
                    continue
            merged.append(x)
        r = merged[-1]
        for x in reversed(merged[:-1]):
            r = ('cat', x, r)
        return r
    if k == 'alt':
        items = flat(t, 'alt')
        items = [normalize(x) for x in items]
        r = items[-1]
        for x in reversed(items[:-1]):
            r = ('alt', x, r)
        return r
    if k == 'grp':
        return ('grp', t[1], t[2], t[3], normalize(t[4]))
    if k == 'atom' and t[1] == 'chr' and not (t[3] == 1 and t[4] == 1):
        cs = split_chars(t[2])
        if len(cs) > 1:
            return ('cat', ('atom', 'chr', b''.join(cs[:-1]), 1, 1), ('atom', 'chr', cs[-1], t[3], t[4]))
    return t


def plain_lit(x):
    return x[0] == 'atom' and x[1] == 'chr' and x[3] == 1 and x[4] == 1


def split_chars(b):
    out = []
    i = 0
    while i < len(b):
        n = max(1, uclen(b[i]))
        out.append(b[i:i + n])
        i += n
    return out


def flat(t, k):
    if t[0] == k:
        return flat(t[1], k) + flat(t[2], k)
    return [t]


def render(t, top=True):
    k = t[0]
    if k == 'nil':
        return b''
    if k == 'cat':
        return render(t[1], False) + render(t[2], False)
    if k == 'alt':
        return render(t[1], False) + b'|' + render(t[2], False)
    if k == 'atom':
        kind = t[1]
        s = {'any': b'.', 'beg': b'^', 'end': b'$', 'wbeg': b'\\<', 'wend': b'\\>'}.get(kind)
        if kind == 'chr':
            s = esc(t[2])
        elif kind == 'brk':
            s = t[2]
        return s + repstr(t[3], t[4])
    return b'(' + render(t[4], False) + b')' + repstr(t[2], t[3])


def repstr(mn, mx):
    if (mn, mx) == (1, 1):
        return b''
    if (mn, mx) == (0, -1):
        return b'*'
    if (mn, mx) == (1, -1):
        return b'+'
    if (mn, mx) == (0, 1):
        return b'?'
    if mx < 0:
        return b'{%d,}' % mn
    if mn == mx:
        return b'{%d}' % mn
    return b'{%d,%d}' % (mn, mx)


def number_groups(t, num):
    """pre-order numbering from num; returns (tree, count)"""
    k = t[0]
    if k in ('nil', 'atom'):
        return t, 0
    if k == 'grp':
        x, c = number_groups(t[4], num + 1)
        return ('grp', num, t[2], t[3], x), 1 + c
    x, c1 = number_groups(t[1], num)
    y, c2 = number_groups(t[2], num + c1)
    return (k, x, y), c1 + c2


def wrap_set(trees):
    """group numbers of the combined expression "(" "(p0)" "|" "(p1)" ... ")": returns the list of
    per-pattern trees ('grp', g_i, 1, 1, p_i) numbered as regcomp numbers them"""
    out = []
    num = 2
    for t in trees:
        x, c = number_groups(t, num + 1)
        out.append(('grp', num, 1, 1, x))
        num += 1 + c
    return out


def gen_line(rng, pats_text, long_ok=False):
    """a line that has a fair chance to match: pieces of the pattern's literals and alphabet"""
    pool = [b'a', b'b', b'c', b'ab', b'A', b'B', b'_', b' ', b'1', b'-', 'é'.encode(), 'É'.encode(), '中'.encode(),
            '\U0001f600'.encode(), b'x', b'aa', b'\t', b'.', b']', b'(', b')', b'*', b'(a)']
    n = rng.choice([0, 1, 2, 3, 4, 5, 6, 8, 12])
    s = b''.join(rng.choice(pool) for _ in range(n))
    if rng.below(4):
        s += b'\n'
    return s


# ---------------------------------------------------------------------------------------------
# SEQUENCES of calls inside one process (request Q of probe_re.c / drv_re.ml).
# regex.c keeps file-scope state between calls (the flag re_bad); the model threads it explicitly
# (coq/ReStateDefs.v) and proves that every call answers as the pure function of its own arguments.
# On the implementation side the same claim is checked directly: every operation of a session must be
# answered exactly as the same operation in a FRESH process (PROBE_RE_FORK=1), and as the threaded model
# answers it.
#   op:  ('M', flg, [pattern bytes or None, ...])     rset_make into the next slot
#        ('G', pattern bytes)                         bare regcomp + regfree
#        ('F', slot, nsub, eflags, line bytes)        rset_find with the set of that slot

# malformed fragments, by the exit they take (regex.c regcomp / rset.c rset_make)
BAD_COUNT = [b'{2,1}', b'{129}', b'{200}', b'{1,129}', b'{3,2}', b'{99999999999}', b'{128,127}']      # closed interval, bad count
BAD_OPEN = [b'{2', b'{1,', b'{1,2', b'{2x', b'{x}', b'{', b'{,2']                                        # interval not closed by '}'
BAD_GROUP = [b'(|)', b'(||)', b'((|))', b'(|)*']                                                        # group with nothing inside
BAD_PAREN = [b'(', b')', b'(a', b'a)', b'a)(b', b'((a)', b'(a))']                                       # not self-contained (rset) / unclosed, unmatched (regcomp)
BAD_BRK = [b'[a', b'[', b'[^', b'[[:alpha:]', b'[]']                                                    # bracket not closed (rset level)
BAD_BIG = [b'((a{128}){128}){128}', b'(((a|b){128}){128}){128}']                                         # reservation >= NINST
BAD_ATOMS = [b'a', b'(ab)', b'[a-c]', b'.', b'(a|b)', 'é'.encode(), b'\\)', b'[)]']


def gen_bad_pattern(rng, valid_texts):
    """a pattern that is (almost always) malformed: a malformed fragment in a random context.  The
    checks never rely on it being rejected -- only on every answer being the same as in a fresh process"""
    cls = rng.below(12)
    pre = rng.choice([b'', b'', b'b', b'x', rng.choice(valid_texts) if valid_texts else b'c'])
    post = rng.choice([b'', b'', b'b', b'|c', rng.choice(valid_texts) if valid_texts else b'c'])
    if cls < 4:
        core = rng.choice(BAD_ATOMS) + rng.choice(BAD_COUNT)
    elif cls < 7:
        core = rng.choice(BAD_ATOMS) + rng.choice(BAD_OPEN)
        if rng.below(2):
            post = b''
    elif cls < 9:
        core = rng.choice(BAD_GROUP)
    elif cls == 9:
        core = rng.choice(BAD_PAREN)
    elif cls == 10:
        core = rng.choice(BAD_BRK)
        post = b''
    else:
        return rng.choice(BAD_BIG)
    p = pre + core + post
    w = rng.below(6)
    if w == 0:
        p = b'(' + p + b')'
    elif w == 1:
        p = b'(x|' + p + b')'
    return p


def q_op(op):
    if op[0] == 'M':
        return 'M%d:%s' % (op[1], ','.join('~' if p is None else hx(p) for p in op[2]))
    if op[0] == 'G':
        return 'G:' + hx(op[1])
    return 'F%d:%d:%d:%s' % (op[1], op[2], op[3], hx(op[4]))


def q_line(ops):
    return 'Q ' + ' '.join(q_op(o) for o in ops)


def q_text(ops):
    out = []
    for o in ops:
        if o[0] == 'M':
            out.append('rset_make flags=%d %s' % (o[1], [None if p is None else p.decode('utf-8', 'replace') for p in o[2]]))
        elif o[0] == 'G':
            out.append('regcomp %r' % o[1].decode('utf-8', 'replace'))
        else:
            out.append('rset_find slot=%d nsub=%d flags=%d line=%r' % (o[1], o[2], o[3], o[4].decode('utf-8', 'replace')))
    return out


def q_parse_line(line):
    """inverse of q_line (for replay files)"""
    ops = []
    for w in line.split()[1:]:
        if w[0] == 'M':
            f, _, ps = w[1:].partition(':')
            ops.append(('M', int(f), [None if x == '~' else vlib.unhx(x) for x in ps.split(',') if x != '']))
        elif w[0] == 'G':
            ops.append(('G', vlib.unhx(w[2:])))
        else:
            a = w[1:].split(':')
            ops.append(('F', int(a[0]), int(a[1]), int(a[2]), vlib.unhx(a[3])))
    return ops


def q_split(a, n):
    if a is None:
        return None
    parts = [x.strip() for x in a.split(' ; ')]
    return parts if len(parts) == n else None


def q_units(ops):
    """the operations of a session as independent units: a compilation together with the matches that use its
    slot (renumbered to slot 0), or a bare regcomp.  -> list of (unit ops, indices into ops)"""
    units = []
    slot_unit = []
    for i, o in enumerate(ops):
        if o[0] == 'M':
            slot_unit.append(len(units))
            units.append(([o], [i]))
        elif o[0] == 'G':
            units.append(([o], [i]))
        else:
            if 0 <= o[1] < len(slot_unit):
                u = units[slot_unit[o[1]]]
                u[0].append(('F', 0, o[2], o[3], o[4]))
                u[1].append(i)
            else:
                units.append(([o], [i]))
    return units


def q_inp(ops):
    return {'session': q_line(ops), 'calls': q_text(ops)}


def check_sessions(res, probes, model, sessions, env=None, chunk=25, must_reject=(), must_accept=(), max_report=6):
    """probes: [(name, exe)], the first one is the plain probe.  Returns the per-session answer lists of the
    first probe (None where it crashed).  Reports:
      * violation: an operation answered differently in the session than in a fresh process (any probe);
      * violation: crash / sanitizer report / hang of a probe on a session;
      * violation: a must_reject set accepted / a must_accept set rejected inside a session;
      * disagreement: session answers differ from the threaded model."""
    env = dict(env or {})
    lines = [q_line(s) for s in sessions]
    unit_of = []          # per session: list of (unit line, idxs)
    ulines = {}
    for s in sessions:
        us = []
        for uops, idxs in q_units(s):
            ul = q_line(uops)
            ulines.setdefault(ul, len(ulines))
            us.append((ul, idxs))
        unit_of.append(us)
    ulist = sorted(ulines, key=lambda k: ulines[k])
    mset_rej = set(q_op(('M', 0, list(ps))) for ps in must_reject)
    mset_acc = set(q_op(('M', 0, list(ps))) for ps in must_accept)
    first = None
    reported = 0
    mans = None
    if model:
        mans, minc = run_all(model, lines, chunk=chunk, timeout=600, env=env)
        for (j, rc, err) in minc[:3]:
            res.disagree({'what': 'model driver crashed or hung on this session (rc=%s)' % rc, 'input': [q_inp(sessions[j])], 'stderr': (err or '')[-500:]})
    res.extra['session_units_distinct'] = len(ulist)
    for pname, exe in probes:
        ans, inc = run_all(exe, lines, chunk=chunk, timeout=600, env=env)
        for (j, rc, err) in inc[:4]:
            res.violation({'what': '%s: crash, sanitizer report or hang during a sequence of compilations and matches in one process (rc=%s)' % (pname, rc),
                           'input': [q_inp(sessions[j])], 'observed': (err or '')[-1500:], 'expected': 'every call rejects cleanly or compiles; bounded matching'})
        fenv = dict(env, PROBE_RE_FORK='1')
        uans, uinc = run_all(exe, ulist, chunk=400, timeout=600, env=fenv)
        iso = dict(zip(ulist, uans))
        split = []
        nmust = 0
        reported = 0
        for j, s in enumerate(sessions):
            got = q_split(ans[j], len(s))
            split.append(got)
            if got is None:
                continue
            for ul, idxs in unit_of[j]:
                ia = q_split(iso.get(ul), len(idxs))
                if ia is None:
                    continue
                for k, i in enumerate(idxs):
                    res.evaluations += 1
                    if got[i] == ia[k] or 'timeout' in got[i] or 'timeout' in ia[k] or 'crash' in ia[k]:
                        continue
                    if reported >= max_report:
                        res.count('further operations answered differently in a session than alone (not reported one by one)')
                        continue
                    reported += 1
                    # shrink the calls in front of the unit that is answered differently
                    unit_ops = q_parse_line(ul)
                    upto = idxs[0]
                    # the calls in front of it: those of this session and of the sessions answered before it by the same process
                    before_units = []
                    for j0 in range((j // chunk) * chunk, j):
                        before_units += q_units(sessions[j0])
                    before_units += q_units(s[:upto])

                    def fails(sub, unit_ops=unit_ops, ia=ia, exe=exe, k=k):
                        pre = [o for (uops, _) in sub for o in uops]
                        # renumber: every kept unit gets its own slot in order
                        ops2 = []
                        nslot = 0
                        for (uops, _) in sub:
                            for o in uops:
                                ops2.append(o if o[0] != 'F' else ('F', nslot - 1, o[2], o[3], o[4]))
                                if o[0] == 'M':
                                    nslot += 1
                        tail = [(o if o[0] != 'F' else ('F', nslot, o[2], o[3], o[4])) for o in unit_ops]
                        out, rc, err = run_batch(exe, [q_line(ops2 + tail)], 60, env)
                        g = q_split(out[0], len(ops2) + len(tail)) if out else None
                        return g is not None and g[len(ops2) + k] != ia[k]
                    small = q_units(s[:upto])
                    repro = False
                    try:
                        if before_units and fails(before_units):
                            repro = True
                            small = vlib.shrink(before_units, fails, max_steps=150)
                    except Exception:
                        pass
                    ops2, nslot = [], 0
                    for (uops, _) in small:
                        for o in uops:
                            ops2.append(o if o[0] != 'F' else ('F', nslot - 1, o[2], o[3], o[4]))
                            if o[0] == 'M':
                                nslot += 1
                    tail = [(o if o[0] != 'F' else ('F', nslot, o[2], o[3], o[4])) for o in unit_ops]
                    o = s[i]
                    what = ('the answer of the matcher depends on what was compiled earlier in the same process: %s is answered "%s" here and "%s" in a fresh process'
                            % (q_text([o])[0], got[i][:80], ia[k][:80]))
                    if ia[k].startswith('ok') and got[i].startswith('rej'):
                        what = 'a pattern (set) that compiles in a fresh process is rejected after an earlier compilation in the same process (existing matches are missed): ' + what
                    elif ia[k].startswith('set=') and not ia[k].startswith('set=-1') and (got[i] == 'none' or got[i].startswith('set=-1')):
                        what = 'an existing match is missed: ' + what
                    res.violation({'what': '%s: %s' % (pname, what), 'input': [q_inp(ops2 + tail)], 'original_session': q_inp(s),
                                   'reproduced_alone': repro, 'expected': ia[k], 'observed': got[i],
                                   'replay_note': 'python3 tools/check.py <ID> --replay <this file>'})
            for i, o in enumerate(s):
                if o[0] == 'M' and nmust < 3:
                    key = q_op(('M', 0, o[2]))
                    if (key in mset_rej and not got[i].startswith('rej')) or (key in mset_acc and not got[i].startswith('ok')):
                        nmust += 1
                    if key in mset_rej and not got[i].startswith('rej'):
                        res.violation({'what': '%s: a malformed pattern (set) is accepted instead of rejected (inside a sequence of compilations)' % pname,
                                       'input': [q_inp(s[:i + 1])], 'expected': 'rej', 'observed': got[i]})
                    if key in mset_acc and not got[i].startswith('ok'):
                        res.violation({'what': '%s: a valid pattern (set) is rejected (inside a sequence of compilations)' % pname,
                                       'input': [q_inp(s[:i + 1])], 'expected': 'ok ...', 'observed': got[i]})
        if first is None:
            first = split
        if mans is not None:
            nd = 0
            for j, s in enumerate(sessions):
                if ans[j] is not None and mans[j] is not None and ans[j] != mans[j] and 'timeout' not in ans[j]:
                    nd += 1
                    if nd <= 5:
                        res.disagree({'what': '%s and the threaded model (ReStateDefs.session_gen) differ on a sequence of calls' % pname,
                                      'input': [q_inp(s)], 'implementation': ans[j][:800], 'model': mans[j][:800]})
            res.extra['session_model_differences_' + pname.replace(' ', '_')] = nd
    return first


# ---------------------------------------------------------------------------------------------
# the same through the real editor: `vi -s -e` scripts in which commands with rejected patterns are
# followed by commands with valid ones.
#   command: ('s', lineno, pat)   N s<d>pat<d>X<d>           first match on line N replaced by X
#            ('g', pat)           g<d>pat<d>s/$/ G/          every matching line gets " G" appended
#            ('a', lineno, pat)   N  then  /pat/s/$/ A/      the first matching line AFTER line N gets " A" appended
# Oracle 1 (implementation only): the final buffer equals that of the script without the commands whose
# pattern a fresh probe process rejects (a rejected command does nothing, and nothing of it survives).
# Oracle 2 (model): the final buffer predicted from the model's answers for each pattern ALONE.
DELIMS = b'/,;:!#%&@~=_'


def ex_cmd_bytes(c):
    pat = c[-1]
    d = next((bytes([x]) for x in DELIMS if x not in pat), None)
    if d is None or b'\n' in pat or pat.endswith(b'\\') or pat == b'':
        return None
    if c[0] == 's':
        return b'%d' % c[1] + b's' + d + pat + d + b'X' + d + b'\n'
    if c[0] == 'g':
        return b'g' + d + pat + d + b's/$/ G/\n'
    if b'/' in pat or c[1] < 1:
        return None
    return b'%d\n/' % c[1] + pat + b'/s/$/ A/\n'


def ex_script(ic, cmds):
    return (b'se ic\n' if ic else b'se noic\n') + b''.join(ex_cmd_bytes(c) for c in cmds) + b'w\nq!\n'


def ex_predict(lines, cmds, find):
    """find(pat, line) -> (set, so, eo) from the model's answer for the pattern alone (None = rejected)"""
    buf = list(lines)
    for c in cmds:
        pat = c[-1]
        if c[0] == 's':
            n = c[1] - 1
            if 0 <= n < len(buf):
                r = find(pat, buf[n])
                if r is not None and r[0] >= 0:
                    buf[n] = buf[n][:r[1]] + b'X' + buf[n][r[2]:]
        elif c[0] == 'g':
            for n in range(len(buf)):
                r = find(pat, buf[n])
                if r is not None and r[0] >= 0:
                    buf[n] = buf[n][:-1] + b' G\n'
        else:
            for n in range(c[1], len(buf)):
                r = find(pat, buf[n])
                if r is None:
                    break
                if r[0] >= 0:
                    buf[n] = buf[n][:-1] + b' A\n'
                    break
    return b''.join(buf)


SIMPLE_RE = re.compile(rb'^\^?(\\<)?[^\\.*+?\[\]{}()$|^]*(\\>)?\$?$')


def ex_model_predictions(model, scripts, env=None):
    """the final buffer of every script predicted from the model's answers (every pattern compiled alone); None where a
    plain word is involved (rstr.c handles those without the regex engine: property C12) or the model fails"""
    cache = {}

    def ask(batch):
        reqs = [req(ic, 1, [p], [(0, l)]) for (ic, p, l) in batch]
        ans, _ = run_all(model, reqs, chunk=400, timeout=300, env=env)
        for k, a in zip(batch, ans):
            if a is None:
                cache[k] = 'err'
                continue
            d = parse_answer(a)
            if d['status'] != 'ok' or not d['cases'] or d['cases'][0]['kind'] != 'set':
                cache[k] = None if d['status'] == 'rej' else 'err'
            else:
                c = d['cases'][0]
                cache[k] = (c['set'], c['g'][0][0], c['g'][0][1]) if c['set'] >= 0 else (-1, -1, -1)
    # iterate to a fixed point: predicting needs answers on the evolving buffer
    preds = [None] * len(scripts)
    for _round in range(12):
        missing = set()
        for j, sc in enumerate(scripts):
            if any(SIMPLE_RE.match(c[-1]) for c in sc['cmds']):
                continue

            def find(p, l, ic=sc['ic']):
                k = (ic, p, l)
                if k not in cache:
                    missing.add(k)
                    return None
                v = cache[k]
                if v == 'err':
                    raise KeyError
                return v
            try:
                preds[j] = ex_predict(sc['lines'], sc['cmds'], find)
            except KeyError:
                preds[j] = None
        if not missing:
            break
        ask(sorted(missing))
    return preds


def check_ex_utf8(res, vi, model, scripts, env=None):
    """scripts: dict(ic, lines, cmds, cont=bool).  Valid UTF-8 buffers, :s / :g with ASCII replacement text.
      * cont (every pattern's first mandatory literal begins with a continuation byte): nothing can match, the buffer
        must come back unchanged;
      * valid UTF-8 patterns: the buffer must still be valid UTF-8 (match offsets are character boundaries);
      * model prediction (correspondence)."""
    def work(sc):
        r = vlib.run_ex(vi, ex_script(sc['ic'], sc['cmds']), files={'f': b''.join(sc['lines'])}, args=['f'], readback=['f'], timeout=20)
        if r.timed_out:
            r = vlib.run_ex(vi, ex_script(sc['ic'], sc['cmds']), files={'f': b''.join(sc['lines'])}, args=['f'], readback=['f'], timeout=60)
        return r
    outs = vlib.pmap(work, scripts)
    preds = ex_model_predictions(model, scripts, env) if model else [None] * len(scripts)
    nv = nd = 0
    for sc, r, pr in zip(scripts, outs, preds):
        res.evaluations += 1
        res.count('ex scripts: ill-formed pattern bytes / multi-byte repetition on valid UTF-8 buffers')
        inp = {'ic': sc['ic'], 'file': hx(b''.join(sc['lines'])), 'ex_script': hx(ex_script(sc['ic'], sc['cmds'])),
               'script_text': ex_script(sc['ic'], sc['cmds']).decode('utf-8', 'replace'), 'file_text': b''.join(sc['lines']).decode('utf-8', 'replace'),
               'oracle': 'unchanged' if sc.get('cont') else 'valid-utf8'}
        if r.crashed():
            res.violation({'what': 'the editor crashed or hung on an ex script (rc=%s)' % r.rc, 'input': [inp], 'observed': r.err[-1200:].decode('utf-8', 'replace')})
            continue
        got = r.files.get('f')
        orig = b''.join(sc['lines'])
        bad = None
        if sc.get('cont') and got != orig:
            bad = ('vi -s -e: a pattern whose first literal begins with a UTF-8 continuation byte matched inside a multi-byte character of a valid '
                   'UTF-8 line (matches start at character starts; nothing can match)')
        elif got is not None and valid_utf8(orig) and all(valid_utf8(c[-1]) for c in sc['cmds']) and not valid_utf8(got):
            bad = ('vi -s -e: a valid UTF-8 buffer becomes invalid UTF-8 under :s with a valid UTF-8 pattern and an ASCII replacement '
                   '(a match offset fell inside a character)')
        if bad and nv < 4:
            nv += 1
            res.violation({'what': bad, 'input': [inp], 'expected': (orig if sc.get('cont') else (pr or b'')).decode('utf-8', 'replace'),
                           'observed': (got or b'').decode('utf-8', 'replace'), 'observed_hex': hx(got or b'')})
        if pr is not None and got != pr:
            nd += 1
            if nd <= 3:
                res.disagree({'what': 'vi -s -e and the buffer predicted from the model differ (ill-formed pattern bytes / multi-byte repetition)',
                              'input': [inp], 'implementation': hx(got or b''), 'model': hx(pr)})
    res.extra['ex_utf8_scripts'] = len(scripts)
    res.extra['ex_utf8_model_differences'] = nd


def gen_ex_utf8(rng, n):
    out = []
    for e in gen_stray(rng, n):
        if not e['cont']:
            continue
        lines = [l if l.endswith(b'\n') else l + b'\n' for l in e['lines']]
        p = e['pats'][0]
        cmds = [('s', 1 + rng.below(len(lines)), p), ('g', p)] if rng.below(2) else [('g', p), ('s', 1 + rng.below(len(lines)), p)]
        cmds = [c for c in cmds if ex_cmd_bytes(c) is not None]
        if cmds:
            out.append({'ic': 1 if rng.below(5) == 0 else 0, 'lines': lines, 'cmds': cmds, 'cont': True})
    for e in gen_mbrep(rng, n):
        lines = [l if l.endswith(b'\n') else l + b'\n' for l in e['lines']]
        p = e['pats'][0]
        cmds = [('s', k + 1, p) for k in range(len(lines))]
        cmds = [c for c in cmds if ex_cmd_bytes(c) is not None]
        if cmds:
            out.append({'ic': rng.below(2), 'lines': lines, 'cmds': cmds, 'cont': False})
    return out


def check_ex_sequences(res, vi, probe, model, scripts, env=None, max_report=4):
    """scripts: list of dict(ic=0|1, lines=[bytes ending in \\n], cmds=[...]).  Commands that cannot be written as
    an ex command (no free delimiter, trailing backslash) must have been dropped by the caller (ex_cmd_bytes)."""
    env = dict(env or {})
    # which patterns are rejected: a fresh process per pattern (implementation only)
    pats = {}
    for sc in scripts:
        for c in sc['cmds']:
            pats.setdefault((sc['ic'], c[-1]), None)
    keys = list(pats)
    ul = [q_line([('M', ic, [p])]) for ic, p in keys]
    uans, _ = run_all(probe, ul, chunk=400, timeout=300, env=dict(env, PROBE_RE_FORK='1'))
    rejected = {k: (a is not None and a.startswith('rej')) for k, a in zip(keys, uans)}

    def run1(sc, cmds):
        r = vlib.run_ex(vi, ex_script(sc['ic'], cmds), files={'f': b''.join(sc['lines'])}, args=['f'], readback=['f'], timeout=20)
        if r.timed_out:
            r = vlib.run_ex(vi, ex_script(sc['ic'], cmds), files={'f': b''.join(sc['lines'])}, args=['f'], readback=['f'], timeout=60)
        return r

    def work(sc):
        full = run1(sc, sc['cmds'])
        kept = [c for c in sc['cmds'] if not rejected.get((sc['ic'], c[-1]))]
        ref = run1(sc, kept) if len(kept) != len(sc['cmds']) else full
        return full, ref, kept
    outs = vlib.pmap(work, scripts)
    # model predictions: one R request per (pattern, line) pair actually needed -- ask for all lines of the script's buffer as it evolves
    reported = 0
    npred = 0

    def text(sc, cmds):
        return ex_script(sc['ic'], cmds).decode('utf-8', 'replace')
    for sc, (full, ref, kept) in zip(scripts, outs):
        res.evaluations += 1
        res.count('ex scripts with rejected patterns followed by valid ones')
        if full.crashed():
            res.violation({'what': 'the editor crashed or hung on an ex script with rejected and valid patterns (rc=%s)' % full.rc,
                           'input': [{'ex_script': hx(ex_script(sc['ic'], sc['cmds'])), 'file': hx(b''.join(sc['lines'])), 'script_text': text(sc, sc['cmds'])}],
                           'observed': full.err[-1200:].decode('utf-8', 'replace')})
            continue
        if full.files.get('f') != ref.files.get('f') and reported < max_report:
            reported += 1
            # shrink the command list (the rejected commands are decided by fresh processes, so fails() is deterministic)
            def fails(cmds, sc=sc):
                a = run1(sc, cmds)
                k = [c for c in cmds if not rejected.get((sc['ic'], c[-1]))]
                b = run1(sc, k)
                return a.files.get('f') != b.files.get('f')
            small = sc['cmds']
            try:
                small = vlib.shrink(sc['cmds'], fails, max_steps=40)
            except Exception:
                pass
            a = run1(sc, small)
            k = [c for c in small if not rejected.get((sc['ic'], c[-1]))]
            b = run1(sc, k)
            res.violation({'what': 'vi -s -e: commands with valid patterns behave differently when commands with rejected patterns were run before them in the same '
                                   'editor session (an existing match is missed or a different one reported)',
                           'input': [{'ic': sc['ic'], 'file': hx(b''.join(sc['lines'])), 'ex_script': hx(ex_script(sc['ic'], small)),
                                      'script_text': text(sc, small), 'without_rejected_commands': text(sc, k),
                                      'oracle': 'same-as', 'ex_script_reference': hx(ex_script(sc['ic'], k))}],
                           'expected': (b.files.get('f') or b'').decode('utf-8', 'replace'), 'observed': (a.files.get('f') or b'').decode('utf-8', 'replace')})
    # oracle 2: the model's prediction (each pattern alone)
    if model:
        preds = ex_model_predictions(model, scripts, env)
        nd = 0
        for j, sc in enumerate(scripts):
            if preds[j] is None or outs[j][0].crashed():
                continue
            npred += 1
            got = outs[j][0].files.get('f')
            if got != preds[j]:
                nd += 1
                if nd <= 3:
                    res.disagree({'what': 'vi -s -e and the buffer predicted from the model (every pattern compiled alone) differ',
                                  'input': [{'ic': sc['ic'], 'file': hx(b''.join(sc['lines'])), 'ex_script': hx(ex_script(sc['ic'], sc['cmds'])), 'script_text': text(sc, sc['cmds'])}],
                                  'implementation': (got or b'').decode('utf-8', 'replace'), 'model': preds[j].decode('utf-8', 'replace')})
        res.extra['ex_scripts_predicted_by_model'] = npred
        res.extra['ex_script_model_differences'] = nd
    res.extra['ex_scripts'] = len(scripts)
    res.extra['ex_patterns_rejected_in_fresh_process'] = sum(1 for v in rejected.values() if v)


# ---------------------------------------------------------------------------------------------
# ill-formed PATTERN bytes against VALID multi-byte lines: regexec tries only character starts (uc_len steps:
# `tried` of C10_sound / C10_leftmost_priority, C11_match_starts_on_boundary), so a pattern whose first mandatory
# literal begins with a UTF-8 continuation byte can never match a valid line, and a pattern that begins with a
# truncated lead byte can only match at the start of a character.
MB_CHARS = ['é', 'è', 'É', 'à', 'ü', '中', '丮', '€', '₭', '😀', '😭']
# ... and multi-byte literals directly in front of a repetition operator (the operator binds to the last CHARACTER)
MB_REP = ['*', '+', '?', '{0,2}', '{2}', '{1,}', '{1,2}']


def gen_stray(rng, n):
    """-> list of dict(pats, lines, cont): cont = the first mandatory literal begins with a continuation byte"""
    out = []
    for _ in range(n):
        c = rng.choice(MB_CHARS).encode()
        k = 1 + rng.below(len(c) - 1)
        cont = rng.below(4) != 0
        S = c[k:] if cont else c[:k]
        nxt = rng.choice([b't', b'y', b'_'])
        form = rng.below(10)
        p = [S + b'+', b'(' + S + b'){1,2}', S + b'+' + nxt, S + b'[' + nxt + b'x]', b'(' + S + b')', S + b'{1,3}', S + b'.', b'((' + S + b')+)' + nxt + b'?',
             S + nxt + b'*', S + b'(' + nxt + b'|x)'][form]
        sib = [x.encode() for x in MB_CHARS if x.encode()[:1] == c[:1] and x.encode() != c]
        d = rng.choice(sib) if sib and rng.below(2) else c
        lines = [b'x' + c + nxt, c + c + nxt + b'\n', b'caf' + c + nxt + b' ' + d + b'\n', d + nxt + c + nxt, c + b'\n', b'a' + d + c + c + nxt + b'\n']
        out.append({'pats': [p], 'lines': lines, 'cont': cont})
    return out


def gen_mbrep(rng, n):
    """valid UTF-8 patterns: a multi-byte literal directly before * + ? {m,n}; lines with characters that share the
    lead byte(s) of the pattern character.  -> list of dict(pats, lines)"""
    out = []
    for _ in range(n):
        c = rng.choice(MB_CHARS).encode()
        sib = [x.encode() for x in MB_CHARS if x.encode()[:1] == c[:1] and x.encode() != c]
        d = rng.choice(sib) if sib else c
        pre = rng.choice([b'x', b'', b'ab', c, b'p'])
        post = rng.choice([b'', b'', b'b', b'$', b'y'])
        p = pre + c + rng.choice(MB_REP).encode() + post
        lines = [pre + d + post.replace(b'$', b'') + b'\n', pre + c + c + post.replace(b'$', b'') + b'\n', b'z' + pre + c + d + b'\n', pre + b'\n', pre + d, d + pre + c + c + d + b'\n']
        out.append({'pats': [p], 'lines': lines})
    return out


def replay_ex_item(res, vi, r):
    """re-run an ex script of a replay file and evaluate the oracle recorded with it"""
    f0 = vlib.unhx(r['file'])
    out = vlib.run_ex(vi, vlib.unhx(r['ex_script']), files={'f': f0}, args=['f'], readback=['f'], timeout=60)
    res.evaluations += 1
    got = out.files.get('f')
    inp = dict(r)
    if out.crashed():
        res.violation({'what': 'the editor crashed or hung on a replayed ex script (rc=%s)' % out.rc, 'input': [inp], 'observed': out.err[-1200:].decode('utf-8', 'replace')})
        return
    o = r.get('oracle')
    if o == 'same-as':
        ref = vlib.run_ex(vi, vlib.unhx(r['ex_script_reference']), files={'f': f0}, args=['f'], readback=['f'], timeout=60)
        if ref.files.get('f') != got:
            res.violation({'what': 'vi -s -e: commands with valid patterns behave differently when commands with rejected patterns were run before them in the same editor session',
                           'input': [inp], 'expected': (ref.files.get('f') or b'').decode('utf-8', 'replace'), 'observed': (got or b'').decode('utf-8', 'replace')})
    elif o == 'unchanged':
        if got != f0:
            res.violation({'what': 'vi -s -e: a pattern whose first literal begins with a UTF-8 continuation byte matched inside a multi-byte character of a valid UTF-8 line',
                           'input': [inp], 'expected': f0.decode('utf-8', 'replace'), 'observed': (got or b'').decode('utf-8', 'replace')})
    elif o == 'valid-utf8':
        if got is not None and valid_utf8(f0) and not valid_utf8(got):
            res.violation({'what': 'vi -s -e: a valid UTF-8 buffer becomes invalid UTF-8 under :s with a valid UTF-8 pattern and an ASCII replacement',
                           'input': [inp], 'observed_hex': hx(got)})
    res.sample({'replayed_ex_script': r.get('script_text'), 'buffer': (got or b'').decode('utf-8', 'replace')})
