"""C17 -- screen-column layout is a gap-free tiling; cursor/column mapping round-trips.

Correspondence: harness/probe_ren.c (compiled against /repo's ren.c, dir.c, uc.c; statics reached
by textual inclusion) versus the extracted Coq model (coq/RenDefs.v, DirDefs.v) on (i) lines over
ASCII, tabs at every column 0..17, wide, zero-width, placeholder, control and right-to-left
characters x order in {0,1,2} x textdirection in {-2..2} x linelimit in {0,3,256}, (ii) random
lines, (iii) lines around the line limit, (iv) a malformed byte stream (model vs code only),
(v) the width class of EVERY code point.  The pattern matcher of dir.c is not modelled: the probe
records what rset_find answered and the model replays those answers.
Oracle (the property itself on the implementation's arrays): tiling in visual order with the widths
the generated tables list, column<->offset round trip, right/left neighbour, last cell, and table
membership of every code point.
"""
import json
import vlib
from props import ren_common as rc

GROUP = 'ren'
TRUSTED = ['tools/c2clite.py + clang -ast-dump=json (syntax printer of find/uc_isdw/uc_iszw/uc_wid/uc_isbell/uc_acomb, uc_chop, pos_next/pos_prev, ren_noeol/ren_off/ren_pos/ren_next/ren_cursor, ren_cwid/ren_placeholder/conf_placeholder/ren_position, of the range tables and of the placeholder table with its string literals) and the C semantics fixed in coq/CLite.v (incl. malloc/free)',
           'the recorded answers of rset_find (dir.c marks) are replayed to the model as its matcher oracle; the regex engine itself is outside C17',
           'tools/props/ren_common.py parses the generated Coq tables for the Python oracle']

NL = 10
# character classes used by the generators
ASCII = [0x61, 0x62, 0x7a, 0x41, 0x30, 0x39, 0x5f, 0x20, 0x2d, 0x2e, 0x24, 0x5c, 0x7b, 0x7d, 0x5b, 0x5d, 0x2a]
WIDE = [0x4e2d, 0x1100, 0xff21, 0x3042, 0x20000, 0xac00]
ZERO = [0x301, 0x300, 0x200b, 0x5b0, 0x20d0]
PLACE = [0x200c, 0x200d, 0x64b, 0x651, 0x670]
RTL = [0x627, 0x628, 0x644, 0x645, 0x6cc, 0x6a9, 0x633, 0x61f]
CTRL = [0x01, 0x1b, 0x7f, 0x85, 0xad, 0x9f]
OTHER = [0xe9, 0x20ac, 0x5d0, 0x1f600, 0x10ffff, 0x2028]
ALL = ASCII + WIDE + ZERO + PLACE + RTL + CTRL + OTHER + [9]
OPTS = [(o, td, lim) for o in (0, 1, 2) for td in (-2, -1, 0, 1, 2) for lim in (0, 3, 256)]


def req(cs, opt):
    b = rc.enc(cs) if not isinstance(cs, (bytes, bytearray)) else bytes(cs)
    return 'ren %s %d %d %d' % (vlib.hx(b), opt[0], opt[1], opt[2])


def oracle(cl, cs, opt, o):
    """cs: code points of a valid line; opt: (order, td, lim); o: parsed observables of the
    implementation.  Returns None or (what, expected, observed)."""
    n = len(cs)
    blen = len(rc.enc(cs))
    pos = rc.ilist(o['pos'])
    if len(pos) != n + 1:
        return ('the column array has %d entries for %d characters' % (len(pos), n), n + 1, len(pos))
    ord_ = rc.ilist(o['ord'])
    total = pos[n]
    # --- tiling in visual order, with the width the tables list for each character
    vis = sorted(range(n), key=lambda i: pos[i])
    col = 0
    for k, i in enumerate(vis):
        if pos[i] != col:
            return ('tiling: the %d-th character in visual order (offset %d, U+%04X) starts in column %d, the previous one ended in %d'
                    % (k, i, cs[i], pos[i], col), col, pos[i])
        col += cl.cwid(cs[i], col)
    if total != col:
        return ('tiling: total width %d, the last character ends in column %d' % (total, col), col, total)
    if int(o['wid']) != total:
        return ('ren_wid %s differs from pos[n] %d' % (o['wid'], total), total, o['wid'])
    reorder = n <= opt[2] and (opt[0] == 2 or (opt[0] == 1 and n < blen))
    if reorder and opt[0] != 0:
        want = sorted(range(n), key=lambda i: ord_[i]) if sorted(ord_) == list(range(n)) else None
        if want is not None and want != vis:
            return ('visual order of the columns %s is not the order computed by dir_reorder %s' % (vis, want), want, vis)
    elif vis != list(range(n)):
        return ('without reordering the visual order must be the logical one, got %s' % vis, list(range(n)), vis)
    if n and cs[-1] == NL and vis[-1] != n - 1:
        return ('the line terminator is not displayed last', n - 1, vis[-1])
    start = [pos[i] for i in vis]              # increasing
    wid = [cl.cwid(cs[i], pos[i]) for i in vis]
    # --- ren_pos
    rpos = rc.ilist(o['rpos'])
    for off in range(n + 2):
        want = pos[off] if off < n else 0
        if rpos[off] != want:
            return ('ren_pos(%d) = %d, column table says %d' % (off, rpos[off], want), want, rpos[off])
    # --- ren_noeol
    ne = rc.ilist(o['noeol'])
    for k, off in enumerate(range(-1, n + 2)):
        w = off if off < n else max(0, n - 1)
        if w > 0 and cs[w] == NL:
            w -= 1
        if ne[k] != w:
            return ('ren_noeol(%d) = %d, expected %d' % (off, ne[k], w), w, ne[k])
    colsd = rc.cols(o['cols'])

    def cover(p):      # visual index of the character whose cells contain column p (last character beyond the end)
        k = -1
        for j in range(n):
            if start[j] <= p:
                k = j
        return k

    for p, (off, cur, nxr, nxl, pn0, pn1, pp0, pp1) in sorted(colsd.items()):
        # nearest-start searches
        gt = [x for x in start if x > p]
        ge = [x for x in start if x >= p]
        lt = [x for x in start if x < p]
        le = [x for x in start if x <= p]
        want = (min(gt) if gt else -1, min(ge) if ge else -1, max(lt) if lt else -1, max(le) if le else -1)
        if (pn0, pn1, pp0, pp1) != want:
            return ('pos_next/pos_prev at column %d: got next %d/%d prev %d/%d (strict/inclusive), expected %d/%d %d/%d'
                    % ((p, pn0, pn1, pp0, pp1) + want), want, (pn0, pn1, pp0, pp1))
        if p < 0 or n == 0:
            continue
        k = cover(p)
        # column -> offset: the character covering the column
        if off != vis[k]:
            return ('ren_off(%d) = %d, but column %d lies in the cells [%d,%d) of character %d (U+%04X)'
                    % (p, off, p, start[k], start[k] + wid[k], vis[k], cs[vis[k]]), vis[k], off)
        # right / left neighbour
        r = k + 1
        want_r = start[r] if r < n and cs[vis[r]] != NL else -1
        l = k - 1
        want_l = start[l] if l >= 0 and cs[vis[l]] != NL else -1
        if nxr != want_r:
            return ('ren_next(%d, +1) = %d, the character displayed immediately to the right starts in %d' % (p, nxr, want_r), want_r, nxr)
        if nxl != want_l:
            return ('ren_next(%d, -1) = %d, the character displayed immediately to the left starts in %d' % (p, nxl, want_l), want_l, nxl)
        # cursor: last cell of the character (of the one before the terminator)
        kc = k
        if cs[vis[kc]] == NL:
            kc -= 1
        want_c = start[kc] + wid[kc] - 1 if kc >= 0 else 0
        if cur != want_c:
            return ('ren_cursor(%d) = %d, the last cell of the character there is %d' % (p, cur, want_c), want_c, cur)
    # --- round trip for every character
    for i in range(n):
        if pos[i] in colsd and colsd[pos[i]][0] != i:
            return ('round trip: character %d (U+%04X) is in column %d, ren_off(%d) = %d' % (i, cs[i], pos[i], pos[i], colsd[pos[i]][0]), i, colsd[pos[i]][0])
    return None


def gen_lines(ctx):
    rng = ctx.rng
    structured = []
    # tabs at every column 0..17, preceded by narrow and by wide characters, two tabs
    for k in range(0, 18):
        structured.append([0x61] * k + [9, 0x62, NL])
    for k in range(0, 9):
        structured.append([0x4e2d] * k + [9, 0x62])
        structured.append([0x61] * k + [9, 9, 0x4e2d, 9, NL])
        structured.append([0x627] * k + [9, 0x628, 0x61, 9, NL])
    structured += [[], [NL], [9], [9, NL], [0x61], [0x4e2d], [0x301], [0x200c], [0x627], [0x01]]
    structured += [[0x61, 0x4e2d, 0x62, NL], [0x4e2d, 0x4e2d], [0x61, 0x301, 0x62, NL], [0x65, 0x301, 0x200b, 0x78],
                   [0x644, 0x64e, 0x627, NL], [0x61, 0x200c, 0x62], [0x01, 0x61, 0x7f, 0x85, NL],
                   [0x61, 0x20, 0x633, 0x644, 0x627, 0x645, 0x20, 0x62, NL], [0x633, 0x644, 0x627, 0x645, 0x20, 0x61, 0x62, 0x20, 0x645, NL],
                   [0x61, 0x24, 0x633, 0x644, 0x24, 0x62], [0x5c, 0x2a, 0x5b, 0x633, 0x61, 0x5d, 0x20, 0x645, 0x644, NL],
                   [0x5c, 0x66, 0x7b, 0x628, 0x9, 0x4e2d, 0x7d, NL], [0x627, 0x9, 0x4e2d, 0x628, 0x61, NL],
                   [0x61, 0x62, 0x63], [0x627, 0x628, 0x644], [0x61, 0x62, 0x627], [0x61, 0x62, 0x63, 0x64], [0x627, 0x628, 0x644, 0x645],
                   [0xe9, 0x62], [0xe9, 0x62, 0x63], [0xe9, 0x62, 0x63, NL]]
    cases = []
    for cs in structured:
        for opt in OPTS:
            if ctx.quick:
                # quick tier: settings that cannot differ from a kept one are left out -- linelimit only enters as
                # `n <= xlim` (3 is a boundary only for lines of 2..4 characters, otherwise it acts like 0), and with
                # order=0 the text direction reaches none of the column functions (dir_context/dir_reorder alone,
                # which the linelimit does not touch); the thorough tier runs all 45 settings on every line
                if opt[2] == 3 and not 2 <= len(cs) <= 4:
                    continue
                if opt[0] == 0 and opt[1] != 0 and opt[2] != 256:
                    continue
            cases.append((cs, opt))
    # every alphabet character alone, after a tab and at column 7 (tab right after it)
    for c in ALL:
        for cs in ([c], [9, c, 9], [0x61] * 7 + [c, 9, c, NL]):
            for opt in ((0, 0, 256), (1, 0, 256), (2, -1, 256)):
                cases.append((cs, opt))
    # random lines
    nrand = 700 if ctx.quick else 12000
    for _ in range(nrand):
        n = rng.choice([1, 2, 3, 4, 5, 8, 12, 17, 25])
        kind = rng.below(5)
        cs = []
        for _j in range(n):
            t = rng.below(12)
            if kind == 0:
                pool = ASCII + [9, 9]
            elif kind == 1:
                pool = RTL + [0x20, 0x61, 0x30, 9] + PLACE[:3]
            else:
                pool = [ASCII, ASCII, WIDE, ZERO, PLACE, RTL, RTL, CTRL, OTHER, [9], [9], ASCII][t]
            cs.append(rng.choice(pool))
        if rng.chance(2, 3):
            cs.append(NL)
        cases.append((cs, rng.choice(OPTS)))
    # lines around the limits: lim = 3 with 2..4 characters (above), lim = 256 with 255..257
    for n in (255, 256, 257):
        for base in ([0x61], [0x61, 0x627, 0x20]) if ctx.quick else ([0x61], [0x627], [0x61, 0x627, 0x20], [0x4e2d, 9, 0x628]):
            cs = (base * n)[:n - 1] + [NL]
            for opt in ((1, 0, 256), (2, 0, 256), (1, -1, 256)) if ctx.quick else ((1, 0, 256), (2, 0, 256), (1, -1, 256), (0, 0, 256)):
                cases.append((cs, opt))
    # lines around linelimit counted in characters AND in bytes, each with a run that reordering must reverse (shared with
    # C18: ren_common.gen_limit_lines; limits 8, 16 and the default 256).  The lines above hold no such run, so their
    # visual order is the logical one on both paths of ren_position.  A sample here (the model's column functions need
    # 0.2 .. 0.6 s on a 16-character line, seconds on 256 characters); C18 runs all of them for the order array alone.
    lim = rc.gen_limit_lines(rng.fork('limit'), ctx.quick)
    small = [c for c in lim if len(c[0]) <= 64]
    big = [c for c in lim if len(c[0]) > 64]
    cases += small[::7] if ctx.quick else small
    cases += big[::12] if ctx.quick else big[::3]
    return cases


def gen_malformed(ctx):
    rng = ctx.rng
    out = []
    for _ in range(250 if ctx.quick else 4000):
        n = rng.range(1, 10)
        b = bytes(rng.choice([rng.range(1, 255), rng.range(0x80, 0xbf), rng.range(0xc0, 0xf4), 0x61, 9, 0xd8, 0xa7]) for _ in range(n))
        # keep every decodable code below 0x110000 and the lead bytes complete enough that uc_code stays inside the padding
        out.append((b, rng.choice(OPTS)))
    return out


def expected_class(cl, c, bits):
    """the width-class answers the generated tables list for code point c (bits: 1 dwchars, 2 zwchars,
    4 bchars, 8 acomb_ranges); same text as the probe's wclass_of"""
    dw, zw, bc, ac = bits & 1, (bits >> 1) & 1, (bits >> 2) & 1, (bits >> 3) & 1
    pa = cl.plain_ascii(c)
    bell = 1 if (not pa) and (zw or bc) else 0
    w = 0 if zw else 2 if dw else 1
    comb = 1 if (not pa) and ac else 0
    if c == 9:
        cw0, cw5 = 8, 3
    elif c in cl.ph:
        cw0 = cw5 = cl.ph[c][1]
    elif bell:
        cw0 = cw5 = 1
    else:
        cw0 = cw5 = w
    ph = vlib.hx(cl.ph[c][0]) if c in cl.ph else ('efbfbd' if bell else 'x')
    return '%d %d %d %d %d %d %d %d %s' % (dw, zw, bc, w, bell, comb, cw0, cw5, ph)


def expected_runs(cl, lo, hi):
    """maximal runs (start, end, class text) of expected_class over lo..hi; table membership of EVERY
    code point is computed (one byte per code point, linear over the table rows -- no order assumed)"""
    t = cl.t
    size = hi + 2
    comb = 0
    for k, name in enumerate(('dwchars', 'zwchars', 'bchars', 'acomb_ranges')):
        m = bytearray(size)
        for a, b in t[name]:
            a, b = max(a, 0), min(b, hi)
            if a <= b:
                m[a:b + 1] = b'\x01' * (b - a + 1)
        comb |= int.from_bytes(bytes(m), 'little') << k      # every byte holds 0/1: the shift stays inside the byte
    bits = comb.to_bytes(size, 'little')
    special = set(range(0, 0x101)) | set(cl.ph) | set(c + 1 for c in cl.ph)
    runs = []
    import re as _re
    for m in _re.finditer(rb'(?s)(.)\1*', bits[lo:hi + 1]):
        s0, e0 = lo + m.start(), lo + m.end() - 1
        cuts = sorted(x for x in special if s0 < x <= e0)
        for s1, e1 in zip([s0] + cuts, [x - 1 for x in cuts] + [e0]):
            v = expected_class(cl, s1, bits[s1])
            if runs and runs[-1][2] == v:
                runs[-1] = (runs[-1][0], e1, v)
            else:
                runs.append((s1, e1, v))
    return runs


def parse_runs(line):
    out = []
    for e in line.split(';'):
        if e:
            rng, _c, v = e.partition(':')
            a, _d, b = rng.partition('-')
            out.append((int(a), int(b), v))
    return out


def first_diff(r1, r2):
    """first code point where two run lists (covering the same interval) answer differently"""
    i = j = 0
    while i < len(r1) and j < len(r2):
        a, b = r1[i], r2[j]
        if a[2] != b[2]:
            return max(a[0], b[0]), a[2], b[2]
        if a[1] <= b[1]:
            i += 1
        if b[1] <= a[1]:
            j += 1
    return None


def sweep(ctx, cl, probe, model, lo=1, hi=0x10ffff):
    """width class of every code point.  The implementation is evaluated at EVERY code point (the probe
    compresses equal neighbours into runs); the oracle is table membership of every code point, compressed
    the same way; the extracted model prints its runs from evaluations at the ends and the middle of every
    piece between two table bounds (all code points of a dense sample and, in the thorough tier, all
    code points one by one as well)."""
    res = ctx.res
    rq = 'wclass %d %d' % (lo, hi)
    dense = (lo, min(hi, 0x0fff)) if ctx.quick and hi > 0x0fff else (lo, hi)
    step = (dense[1] - dense[0] + 16) // 16
    parts = [(a, min(dense[1], a + step - 1)) for a in range(dense[0], dense[1] + 1, step)]
    jobs = [('probe', rq), ('model', rq), ('expected', None)] + [('dense', p) for p in parts]

    def one(job):
        kind, arg = job
        if kind == 'probe':
            return vlib.run_lines(probe, [arg], timeout=1200)
        if kind == 'model':
            return vlib.run_lines(model, [arg], timeout=1200) if model else None
        if kind == 'expected':
            return expected_runs(cl, lo, hi)
        r1 = vlib.run_lines(probe, ['wsweep %d %d' % arg], timeout=1200)
        r2 = vlib.run_lines(model, ['wsweep %d %d' % arg], timeout=2400) if model else None
        return r1, r2

    out = vlib.pmap(one, jobs)
    (rc1, out1, err1), r2, want = out[0], out[1], out[2]
    if rc1 != 0 or len(out1) != 1:
        res.violation({'what': 'probe_ren wclass failed: rc=%d, %d lines' % (rc1, len(out1)), 'input': [rq], 'stderr': err1[-2000:]})
        return
    got = parse_runs(out1[0])
    if not got or got[0][0] != lo or got[-1][1] != hi or any(got[i][1] + 1 != got[i + 1][0] for i in range(len(got) - 1)):
        res.violation({'what': 'probe_ren wclass: the runs do not cover %d..%d' % (lo, hi), 'input': [rq], 'observed': out1[0][:600]})
        return
    res.evaluations += hi - lo + 1
    # oracle: the answers of the implementation are what the tables list, for every code point
    nbad = 0
    w = want
    while nbad < 3:
        d = first_diff(got, w)
        if d is None:
            break
        c, a, b = d
        nbad += 1
        res.violation({'what': 'U+%04X: the width class is not the one the tables list (fields: isdw iszw inbchars wid isbell iscomb cwid@0 cwid@5 placeholder)' % c,
                       'input': ['wsweep %d %d' % (c, c)], 'expected': b, 'observed': a})
        # continue after c: cut both lists
        got = [(max(s0, c + 1), e0, v) for s0, e0, v in got if e0 > c]
        w = [(max(s0, c + 1), e0, v) for s0, e0, v in w if e0 > c]
    got = parse_runs(out1[0])
    # correspondence: model vs implementation
    if r2 is not None:
        rc2, out2, err2 = r2
        mruns = parse_runs(out2[0]) if rc2 == 0 and len(out2) == 1 else None
        if not mruns or mruns[0][0] != lo or mruns[-1][1] != hi:
            res.disagree({'what': 'model wclass failed: rc=%d, %d lines: %s' % (rc2, len(out2), err2[-600:]), 'input': [rq]})
        elif mruns != got:
            d = first_diff(got, mruns)
            c = d[0] if d else lo
            res.disagree({'what': 'width class: model and implementation differ', 'input': ['wsweep %d %d' % (c, c)],
                          'implementation': d[1] if d else None, 'model': d[2] if d else None})
    for (kind, p), r in zip(jobs[3:], out[3:]):
        (rc1, o1, err1), r2 = r
        if rc1 != 0 or len(o1) != p[1] - p[0] + 1:
            res.violation({'what': 'probe_ren wsweep failed: rc=%d, %d lines' % (rc1, len(o1)), 'input': ['wsweep %d %d' % p], 'stderr': err1[-2000:]})
            continue
        if r2 is not None:
            rc2, o2, err2 = r2
            if rc2 != 0 or len(o2) != len(o1):
                res.disagree({'what': 'model wsweep failed: rc=%d, %d lines' % (rc2, len(o2)), 'input': ['wsweep %d %d' % p]})
            elif o1 != o2:
                for a, b in zip(o1, o2):
                    if a != b:
                        c = a.split()[0]
                        res.disagree({'what': 'width class: model and implementation differ', 'input': ['wsweep %s %s' % (c, c)], 'implementation': a, 'model': b})
                        break
    res.count('code points (width class, exhaustive on the implementation and the tables)', hi - lo + 1)
    res.count('code points evaluated one by one by the model', dense[1] - dense[0] + 1)
    res.extra['width_class_runs'] = len(got)
    for k in ('sweep:double', 'sweep:zero', 'sweep:bell', 'sweep:placeholder', 'sweep:tab'):
        res.nontriv(k)
    res.extra['exhaustive_code_points'] = True


# ---------------------------------------------------------------------------------------------
# the real binary: cursor after N| / counted h l / 0 / $ (vi -v), observed by replacing the character
# under the cursor with a marker and writing the buffer

MARK = 0x51            # 'Q' -- not in any alphabet of the generators


def vi_layout(cl, sp, line, opt, pobs):
    """Expected layout of `line` (code points, terminator included) computed WITHOUT ren.c: visual order
    = logical order on the fast path / the order dir_reorder answered (C18's subject) on the reordering
    path; columns = tiling with the widths the generated tables list.  Returns (vis, start, ctx) or None."""
    n = len(line)
    blen = len(rc.enc(line))
    reorder = n <= opt[2] and (opt[0] == 2 or (opt[0] == 1 and n < blen))
    vis = list(range(n))
    if reorder:
        ord_ = rc.ilist(pobs['ord'])
        if sorted(ord_) != list(range(n)):
            return None
        vis = sorted(range(n), key=lambda i: ord_[i])
    start, col = [], 0
    for i in vis:
        start.append(col)
        col += cl.cwid(line[i], col)
    ctx = sp.context(line, opt[1]) if sp is not None and sp.ok else int(pobs['dctx'])
    return vis, start, ctx


def vi_plan(line, lay, rng):
    """[(keys, expected offset, text)]: the property's sentences about N|, h and l on this line"""
    vis, start, ctx = lay
    n = len(line)
    visidx = {i: k for k, i in enumerate(vis)}
    total = start[-1] + 1                   # the terminator is one cell wide and displayed last

    def noeol(o):
        if o >= n:
            o = max(0, n - 1)
        return o - 1 if o > 0 and line[o] == NL else o

    def cover(p):
        k = 0
        for j in range(n):
            if start[j] <= p:
                k = j
        return vis[k]

    def move(off, key, cnt):
        d = (1 if key == 'l' else -1) * (1 if ctx >= 0 else -1)      # a right-to-left line is displayed mirrored
        k = visidx[off]
        for _ in range(cnt):
            k2 = k + d
            if k2 < 0 or k2 >= n or line[vis[k2]] == NL:
                break
            k = k2
        return noeol(vis[k])

    plan = []
    cols = list(range(1, total + 3)) if total <= 40 else list(range(1, 12)) + sorted(set(rng.range(12, total) for _ in range(16))) + list(range(total - 4, total + 3))
    for N in cols:
        plan.append(('%d|' % N, noeol(cover(N - 1)), '%d| lands on the character covering column %d' % (N, N - 1)))
    offs = list(range(n - 1)) if n <= 14 else sorted(set([0, 1, n - 3, n - 2] + [rng.below(n - 1) for _ in range(8)]))
    for s0 in offs:
        at = s0
        for key in 'lh':
            for cnt in (1, 2, n + 3):
                plan.append(('%d|%s%s' % (start[visidx[s0]] + 1, '' if cnt == 1 else str(cnt), key), move(at, key, cnt),
                             '%d%s from character %d: the character displayed %d to the %s, stopping at the line end'
                             % (cnt, key, at, cnt, 'right' if key == 'l' else 'left')))
    for pre, at in (('0', 0), ('$', noeol(n - 1))):
        for key in 'lh':
            for cnt in (1, 3):
                plan.append(('%s%d%s' % (pre, cnt, key), move(at, key, cnt), '%s then %d%s' % (pre, cnt, key)))
    return plan


def vi_observe(vi, block, tgt, opt, plan, timeout=40):
    """one editor run: the lines of `block` once per planned motion, the motion starts on the first line of its
    copy and must end on line `tgt` of it; returns the list of observed offsets there (-1: no single marker in
    that line or another line changed) or a text"""
    data = b''.join(rc.enc(ln) for ln in block) * len(plan)
    keys = b':se order=%d\n:se td=%d\n:se lim=%d\n' % opt
    for j, (k, _e, _t) in enumerate(plan):
        keys += b'%dG%sr%c' % (j * len(block) + 1, k.encode(), MARK)
    keys += b':w! out\n:q!\n'
    r = vlib.run_vi(vi, keys, files={'t': data}, args=['t'], readback=['out'], timeout=timeout)
    if r.timed_out:
        r = vlib.run_vi(vi, keys, files={'t': data}, args=['t'], readback=['out'], timeout=3 * timeout)     # confirm alone
        if r.timed_out:
            return 'the editor hung'
    if r.crashed():
        r2 = vlib.run_vi(vi, keys, files={'t': data}, args=['t'], readback=['out'], timeout=3 * timeout)
        if r2.crashed():
            return 'the editor crashed (rc=%s): %s' % (r2.rc, r2.err[-300:].decode('latin-1'))
        r = r2
    out = r.files.get('out')
    if out is None:
        return 'the editor did not write the buffer'
    rows = out.split(b'\n')[:-1]
    if len(rows) != len(plan) * len(block):
        return 'the written buffer has %d lines instead of %d' % (len(rows), len(plan) * len(block))
    obs = []
    for j in range(len(plan)):
        got = -1
        ok = True
        for i, ln in enumerate(block):
            row = rows[j * len(block) + i]
            if i != tgt:
                ok = ok and row + b'\n' == rc.enc(ln)
                continue
            try:
                u = [ord(ch) for ch in row.decode('utf-8')]
            except UnicodeDecodeError:
                continue
            if u.count(MARK) == 1 and len(u) == len(ln) - 1:
                got = u.index(MARK)
        obs.append(got if ok else -1)
    return obs


def vi_req(line, opt):
    return 'vi %s %d %d %d' % (vlib.hx(rc.enc(line)), opt[0], opt[1], opt[2])


def vi_one(cl, sp, probe, vi, line, opt, seed):
    """None, or (what, expected, observed, keys) for the first sentence that fails on this line"""
    o, _m, _q, e = rc.run_ren(probe, None, [req(line, opt)], chunks=1)
    if e or o[0] is None:
        return None                      # the probe-level stream reports crashes of ren.c
    lay = vi_layout(cl, sp, line, opt, rc.parse_obs(o[0]))
    if lay is None or len(line) < 2:
        return None
    plan = vi_plan(line, lay, vlib.Rng(seed))
    obs = vi_observe(vi, [line], 0, opt, plan)
    if isinstance(obs, str):
        return (obs, None, None, None, len(plan))
    for (k, want, text), got in zip(plan, obs):
        if got != want:
            return ('vi -v: %s; the cursor is on character %d, expected %d' % (text, got, want), want, got, k, len(plan))
    return (None, None, None, None, len(plan))


def vi_pair_plan(la, lb, laya, layb, rng):
    """motions on line A followed by j: the cursor keeps its column -- the column asked for by N|, the column of the
    character reached by h / l -- and lands on the character of line B that covers it"""
    visa, starta, ctxa = laya
    visb, startb, _ctxb = layb
    na, nb = len(la), len(lb)
    posa = {i: starta[k] for k, i in enumerate(visa)}
    visidx = {i: k for k, i in enumerate(visa)}

    def noeol(line, o):
        n = len(line)
        if o >= n:
            o = max(0, n - 1)
        return o - 1 if o > 0 and line[o] == NL else o

    def cover(vis, start, p):
        k = 0
        for j in range(len(vis)):
            if start[j] <= p:
                k = j
        return vis[k]

    def move(off, key, cnt):
        d = (1 if key == 'l' else -1) * (1 if ctxa >= 0 else -1)
        k = visidx[off]
        for _ in range(cnt):
            k2 = k + d
            if k2 < 0 or k2 >= na or la[visa[k2]] == NL:
                break
            k = k2
        return noeol(la, visa[k])
    plan = []
    top = max(starta[-1], startb[-1]) + 3
    cols = list(range(1, top + 1)) if top <= 40 else list(range(1, 12)) + sorted(set(rng.range(12, top) for _ in range(16)))
    for N in cols:
        plan.append(('%d|j' % N, noeol(lb, cover(visb, startb, N - 1)), '%d| then j: the character of the next line covering column %d' % (N, N - 1)))
    offs = list(range(na - 1)) if na <= 10 else sorted(set([0, na - 2] + [rng.below(na - 1) for _ in range(6)]))
    for s0 in offs:
        for key in 'lh':
            at = move(s0, key, 1)
            plan.append(('%d|%sj' % (posa[s0] + 1, key), noeol(lb, cover(visb, startb, posa[at])),
                         '%s from character %d then j: the character of the next line covering column %d (where character %d starts)' % (key, s0, posa[at], at)))
    return plan


def vi_pair_one(cl, sp, probe, vi, la, lb, opt, seed):
    o, _m, _q, e = rc.run_ren(probe, None, [req(la, opt), req(lb, opt)], chunks=1)
    if e or o[0] is None or o[1] is None or len(la) < 2 or len(lb) < 2:
        return None
    laya = vi_layout(cl, sp, la, opt, rc.parse_obs(o[0]))
    layb = vi_layout(cl, sp, lb, opt, rc.parse_obs(o[1]))
    if laya is None or layb is None:
        return None
    plan = vi_pair_plan(la, lb, laya, layb, vlib.Rng(seed))
    obs = vi_observe(vi, [la, lb], 1, opt, plan)
    if isinstance(obs, str):
        return (obs, None, None, None, len(plan))
    for (k, want, text), got in zip(plan, obs):
        if got != want:
            return ('vi -v: %s; the cursor is on character %d of it, expected %d' % (text, got, want), want, got, k, len(plan))
    return (None, None, None, None, len(plan))


def vi2_req(la, lb, opt):
    return 'vi2 %s %s %d %d %d' % (vlib.hx(rc.enc(la)), vlib.hx(rc.enc(lb)), opt[0], opt[1], opt[2])


def gen_vi(ctx):
    rng = ctx.rng.fork('vi')
    A, B, W, T = 0x61, 0x62, 0x4e2d, 9
    AR = [0x633, 0x644, 0x627, 0x645]
    lines = []
    for k in range(0, 10):
        lines.append([A] * k + [T, B])                       # a tab at every column
    for k in range(1, 5):
        lines.append([W] * k + [T, B])                       # ... after wide characters (multi-byte: reordering path with order=1)
        lines.append([A] * k + [T, T, W, T, B])
        lines.append([0x627] * k + [T, 0x628, A, T])
    lines += [[W, T, A, 0x627, 0x628, T, B], [0x627, T, W, 0x628, A], [A, T, W, T, 0x301, B], [T, T, 0xe9], [0xe9, T, T, A],
              [A, W, B], [W, W], [A, 0x301, B], [0x65, 0x301, 0x200b, 0x78], [0x644, 0x64e, 0x627], [A, 0x200c, B], [A, 0x200d, 0x651, B],
              [0x01, A, 0x7f, 0x85], [A, 0x20] + AR + [0x20, B], AR + [0x20, A, B, 0x20, 0x645], [A, B, 0x20] + AR + [0x20, 0x30, 0x39, 0x20] + AR,
              AR + [0x20] + AR, [A, 0x24] + AR[:2] + [0x24, B], [0x5c, 0x2a, 0x5b, 0x633, A, 0x5d, 0x20, 0x645, 0x644],
              [0x5c, 0x66, 0x7b, 0x628, T, W, 0x7d], [A, B, 0x627], [0x627, A, B], [0x20, 0x627, 0x628], [A], [0x627], [T], [W],
              [A] * 30 + AR + [T, W] * 6 + AR + [B] * 30]
    cases = []
    std = [(1, 0, 256), (2, -1, 256), (2, 1, 256), (1, -2, 256), (0, 0, 256), (1, 2, 256), (2, 0, 3), (1, -1, 0), (2, -2, 256), (0, -1, 256)]
    for j, ln in enumerate(lines):
        k = 4 if ctx.quick else len(std)
        for opt in [std[(j + i) % len(std)] for i in range(k)] if ctx.quick else std:
            cases.append((ln, opt))
        if ctx.quick and any(c == T for c in ln):
            for opt in ((1, 0, 256), (2, 1, 256)):
                if (ln, opt) not in cases:
                    cases.append((ln, opt))
    for _ in range(120 if ctx.quick else 1500):
        n = rng.choice([2, 3, 4, 6, 9, 13])
        kind = rng.below(4)
        cs = []
        for _j in range(n):
            if kind == 0:
                pool = [A, B, T, T, W, 0x20]
            elif kind == 1:
                pool = RTL[:5] + [0x20, A, 0x30, T, W] + PLACE[:3]
            else:
                pool = rng.choice([ASCII, WIDE, ZERO, PLACE, RTL, RTL, CTRL, [T], [T], ASCII])
            cs.append(rng.choice(pool))
        cases.append((cs, rng.choice(OPTS)))
    return [(cs + [NL], opt) for cs, opt in cases]


def vi_stream(ctx, cl, probe, vi, cases, pairs=None, vi_asan=None):
    res = ctx.res
    try:
        from props import c18
        sp = c18.Spec(cl.t)
    except Exception:
        sp = None
    import hashlib
    seeds = [int(hashlib.sha256(vi_req(ln, opt).encode()).hexdigest()[:12], 16) for ln, opt in cases]     # replayable from the request alone
    outs = vlib.pmap(lambda a: vi_one(cl, sp, probe, vi, a[0][0], a[0][1], a[1]), list(zip(cases, seeds)))
    nviol = 0
    for (line, opt), seed, r in zip(cases, seeds, outs):
        if r is None:
            continue
        res.evaluations += r[4]
        res.count('vi -v motions (N| h l 0 $ on the real binary)', r[4])
        res.count('vi -v lines')
        res.nontriv(vi_req(line, opt))
        if r[0] is None:
            continue
        nviol += 1
        if nviol > 3:
            continue

        def fails(sub, opt=opt, seed=seed):
            if not sub or sub[-1] != NL or NL in sub[:-1]:
                return False
            r2 = vi_one(cl, sp, probe, vi, sub, opt, seed)
            return r2 is not None and r2[0] is not None
        small = vlib.shrink(line, fails, max_steps=60)
        r2 = vi_one(cl, sp, probe, vi, small, opt, seed)
        if r2 is None or r2[0] is None:
            small, r2 = line, r
        res.violation({'what': r2[0], 'input': [vi_req(small, opt)], 'line_code_points': ['U+%04X' % c for c in small],
                       'options': {'order': opt[0], 'td': opt[1], 'lim': opt[2]}, 'keys': r2[3], 'expected': r2[1], 'observed': r2[2],
                       })
    for (line, opt) in cases[:400:97]:
        res.sample({'request': vi_req(line, opt)})
    # the sanitized build of the editor on a part of the same lines: memory errors / undefined behaviour on the way
    if vi_asan:
        sub = list(zip(cases, seeds))[::3 if ctx.quick else 1]
        aouts = vlib.pmap(lambda a: vi_one(cl, sp, probe, vi_asan, a[0][0], a[0][1], a[1]), sub)
        nbad = 0
        for ((line, opt), _seed), r in zip(sub, aouts):
            if r is None or r[0] is None:
                continue
            nbad += 1
            if nbad <= 2:
                res.violation({'what': 'sanitized build of the editor: ' + r[0], 'input': [vi_req(line, opt)], 'keys': r[3], 'expected': r[1], 'observed': r[2]})
        res.count('vi -v lines repeated with the ASan/UBSan build', len(sub))
    # two different lines: the column survives j
    pairs = pairs or []
    pseeds = [int(hashlib.sha256(vi2_req(a, b, opt).encode()).hexdigest()[:12], 16) for a, b, opt in pairs]
    outs = vlib.pmap(lambda a: vi_pair_one(cl, sp, probe, vi, a[0][0], a[0][1], a[0][2], a[1]), list(zip(pairs, pseeds)))
    nviol = 0
    for (la, lb, opt), seed, r in zip(pairs, pseeds, outs):
        if r is None:
            continue
        res.evaluations += r[4]
        res.count('vi -v motions followed by j (column kept between two lines)', r[4])
        res.nontriv(vi2_req(la, lb, opt))
        if r[0] is None:
            continue
        nviol += 1
        if nviol > 3:
            continue
        best = (la, lb, r)
        for which in (0, 1):                   # shrink one line, then the other

            def fails(sub, which=which):
                if not sub or sub[-1] != NL or NL in sub[:-1]:
                    return False
                a, b = (sub, best[1]) if which == 0 else (best[0], sub)
                r2 = vi_pair_one(cl, sp, probe, vi, a, b, opt, seed)
                return r2 is not None and r2[0] is not None
            small = vlib.shrink(best[which], fails, max_steps=40)
            a, b = (small, best[1]) if which == 0 else (best[0], small)
            r2 = vi_pair_one(cl, sp, probe, vi, a, b, opt, seed)
            if r2 is not None and r2[0] is not None:
                best = (a, b, r2)
        a, b, r2 = best
        res.violation({'what': r2[0], 'input': [vi2_req(a, b, opt)], 'line_code_points': [['U+%04X' % c for c in a], ['U+%04X' % c for c in b]],
                       'options': {'order': opt[0], 'td': opt[1], 'lim': opt[2]}, 'keys': r2[3], 'expected': r2[1], 'observed': r2[2]})


def run(ctx):
    import time
    res = ctx.res
    t0 = time.time()
    tm = res.extra.setdefault('wall_seconds_by_phase', {})

    def lap(name):
        nonlocal t0
        tm[name] = round(time.time() - t0, 1)
        t0 = time.time()
    cl = rc.Classes(rc.tables())
    probe, probe_asan, model, vi, vi_asan = rc.build(model=lambda: ctx.model('ren'), vi='asan')
    res.rule = ('one evaluation = one line x option setting through ren_position, ren_pos, ren_off, ren_cursor, ren_next (both ways), ren_noeol, '
                'ren_wid, pos_next, pos_prev at every offset and every column (both ends for lines wider than 80), or one code point of the '
                'exhaustive width-class sweep, or one cursor motion (N|, counted h / l, after 0 / $) of vi -v on a line; non-trivial = the line contains a tab, a wide, zero-width, placeholder, control or right-to-left '
                'character; distinct = distinct (line, options)')
    if ctx.replay:
        rp = json.load(open(ctx.replay))
        cases, mal, vcases, vpairs = [], [], [], []
        for r in rp.get('input', []):
            w = r.split()
            if w[0] == 'vi2':
                vpairs.append(([ord(ch) for ch in vlib.unhx(w[1]).decode('utf-8')], [ord(ch) for ch in vlib.unhx(w[2]).decode('utf-8')],
                               (int(w[3]), int(w[4]), int(w[5]))))
            elif w[0] == 'vi':
                vcases.append(([ord(ch) for ch in vlib.unhx(w[1]).decode('utf-8')], (int(w[2]), int(w[3]), int(w[4]))))
            elif w[0] == 'ren':
                b = vlib.unhx(w[1])
                opt = (int(w[2]), int(w[3]), int(w[4]))
                try:
                    cases.append(([ord(ch) for ch in b.decode('utf-8')], opt))
                except UnicodeDecodeError:
                    mal.append((b, opt))
            elif w[0] == 'wsweep':
                sweep(ctx, cl, probe, model, int(w[1]), int(w[2]))
    else:
        # corpus first
        cases, mal, corpus_vi, corpus_vi2 = [], [], [], []
        import glob, os
        for f in sorted(glob.glob(os.path.join(vlib.VERIF, 'corpus', 'C17-*.json'))):
            for r in json.load(open(f)).get('input', []):
                w = r.split()
                if w and w[0] == 'vi2':
                    corpus_vi2.append(([ord(ch) for ch in vlib.unhx(w[1]).decode('utf-8')], [ord(ch) for ch in vlib.unhx(w[2]).decode('utf-8')],
                                       (int(w[3]), int(w[4]), int(w[5]))))
                if w and w[0] == 'vi':
                    corpus_vi.append(([ord(ch) for ch in vlib.unhx(w[1]).decode('utf-8')], (int(w[2]), int(w[3]), int(w[4]))))
                if w and w[0] == 'ren':
                    try:
                        cases.append(([ord(ch) for ch in vlib.unhx(w[1]).decode('utf-8')], (int(w[2]), int(w[3]), int(w[4]))))
                    except UnicodeDecodeError:
                        mal.append((vlib.unhx(w[1]), (int(w[2]), int(w[3]), int(w[4]))))
        cases += gen_lines(ctx)
        mal += gen_malformed(ctx)
        vcases = corpus_vi + gen_vi(ctx)
        vpairs = corpus_vi2 + [(vcases[i][0], vcases[(i * 7 + 3) % len(vcases)][0], vcases[i][1]) for i in range(0, len(vcases), 2 if ctx.quick else 1)]
    lap('build probes, model, vi')
    reqs = [req(cs, opt) for cs, opt in cases] + [req(b, opt) for b, opt in mal]
    obs, mo, mreq, errs = rc.run_ren(probe, model, reqs)
    lap('ren requests: probe and model')
    for e, part in errs or []:
        if e.startswith('probe'):
            res.violation({'what': 'the implementation crashed or hung: ' + e[:300], 'input': part[:40]})
        else:
            res.disagree({'what': e[:600], 'input': part[:10]})
    # correspondence
    for r, a, b in zip(reqs, obs, mo):
        if a is None or b is None:
            continue
        if a != b:
            res.disagree({'what': 'ren: model and implementation differ', 'input': [r], 'implementation': a[:1500], 'model': b[:1500]})
    # sanitized build must agree with the plain one on the valid stream
    vreqs = reqs[:len(cases)]
    aobs, _m, _q, aerrs = rc.run_ren(probe_asan, None, vreqs[::3] if ctx.quick else vreqs)
    for e, part in aerrs or []:
        for r1 in part:                     # narrow down to one request
            _o1, _a, _b, e1 = rc.run_ren(probe_asan, None, [r1], chunks=1)
            if e1:
                res.violation({'what': 'sanitized build of ren.c/dir.c/uc.c reports an error or crashes: ' + e1[0][0][-1500:], 'input': [r1]})
                break
        else:
            res.violation({'what': 'sanitized build of ren.c/dir.c/uc.c reports an error or crashes: ' + e[-1200:], 'input': part[:40]})
    for r, a, b in zip(vreqs[::3] if ctx.quick else vreqs, obs[::3] if ctx.quick else obs, aobs):
        if a is not None and b is not None and a != b:
            res.violation({'what': 'plain and sanitized builds answer differently (undefined behaviour)', 'input': [r], 'plain': a[:800], 'asan': b[:800]})
            break
    # the property itself on the implementation's answers
    nviol = 0
    for (cs, opt), r, a in zip(cases, reqs, obs):
        if a is None:
            continue
        res.evaluations += 1
        res.count('valid lines')
        special = [c for c in cs if c == 9 or c > 0x7e or c < 0x20 and c != NL]
        if special:
            res.nontriv(r)
        res.count('order=%d' % opt[0])
        try:
            bad = oracle(cl, cs, opt, rc.parse_obs(a))
        except Exception as e:
            bad = ('oracle could not read the answer: %r' % e, None, a[:300])
        if bad:
            nviol += 1
            if nviol > 3:
                continue

            def fails(sub, opt=opt):
                o2, _m2, _q2, e2 = rc.run_ren(probe, None, [req(sub, opt)], chunks=1)
                if e2 or o2[0] is None:
                    return False
                try:
                    return oracle(cl, sub, opt, rc.parse_obs(o2[0])) is not None
                except Exception:
                    return False
            small = vlib.shrink(cs, fails, max_steps=120)
            o2, _m2, _q2, _e2 = rc.run_ren(probe, None, [req(small, opt)], chunks=1)
            b2 = oracle(cl, small, opt, rc.parse_obs(o2[0])) or bad
            res.violation({'what': b2[0], 'input': [req(small, opt)], 'line_code_points': ['U+%04X' % c for c in small],
                           'options': {'order': opt[0], 'td': opt[1], 'lim': opt[2]}, 'expected': b2[1], 'observed': b2[2],
                           'answer': o2[0][:1200]})
    res.count('malformed lines (model vs code only)', len(mal))
    res.evaluations += len(mal)
    for (cs, opt), r, a in list(zip(cases, reqs, obs))[:2000:331]:
        res.sample({'request': r, 'answer': (a or '')[:300]})
    lap('sanitized probe, oracle')
    vi_stream(ctx, cl, probe, vi, vcases, vpairs, vi_asan)
    lap('vi -v stream')
    if not ctx.replay:
        sweep(ctx, cl, probe, model)
        lap('width-class sweep')
