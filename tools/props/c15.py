"""C15 -- the global command runs its command list once per matching line, undone as one step.

Implementation side: the real binary `vi -s -e f < script`: <range>g/pat/<command list> (text blocks supplied once per
execution), then %p, u, %p.  Model side: the extracted Coq model (coq/ExDefs.v: ec_glob, glob_loop, glob_scan over
the lbuf model with ln_glob bits travelling with the lines) on the same bytes.  Oracle: GlobRef below, written
from the property text by tracking line identities: every line of the original range that still exists is
visited exactly once in increasing order, never an inserted line; the body runs iff the line matches (does
not match for g!/v) at the time of the visit; one undo restores the text from before the global.
"""
import json, os, re, glob as _glob
import vlib
from props import c06

GROUP = 'ex'
TRUSTED = ['tools/props/c15.py GlobRef + tools/props/c06.py RefEd: the Python reference (property text; conventions in design.d/C15.md)',
           "Python's re module on the generated loop-free patterns (literals, ., [set], ^, $; IGNORECASE)"]

PATS = ['a', 'b', 'a[34]', '[ab]', 'x', '^a', '3$', 'a.', 'nomatch', '[1-4]', 'V', 'b[2-6]']


def r_cmd(c):
    k = c['cmd']
    if k == 's':
        return [c06.r_addr(c.get('addr', [])) + 's/%s/%s/%s' % (c['pat'], c['rep'], 'g' if c.get('g') else '')]
    if k == 'g':
        heads = []
        tail = []
        for x in c['body']:
            l = r_cmd(x)
            heads.append(l[0])
            tail += l[1:]
        return [c06.r_addr(c.get('addr', [])) + c.get('spell', 'g') + '/' + c['pat'] + '/' + '|'.join(heads)] + tail
    return c06.r_cmd(c)


def body_blocks(body):
    """text-block lines one execution of the body consumes"""
    out = []
    for x in body:
        if x['cmd'] in ('a', 'i', 'c'):
            out += list(x['text']) + ['.']
        if x['cmd'] == 'g':
            pass
    return out


class GlobRef(c06.RefEd):
    """the reference editor with substitute and global; strict = the property, low = ec_glob's scan rule
    (restart the search for the next marked line at min(i, current line))"""
    def __init__(self, file_lines, files, low=False):
        super().__init__(file_lines, files)
        self.low = low
        self.visits = []            # (identity, ran the body?)
        self.execs = 0
        self.low_events = 0         # a still-unvisited original line ended up above min(i, current line)
        self.depth = 0
        self.last_ok = True

    def run(self, c):
        k = c['cmd']
        if k == 's':
            try:
                b, e, zero = self.resolve(c.get('addr', []))
            except c06.Reject:
                return False
            if zero:
                return True             # convention: ec_substitute takes address 0 as an empty range and succeeds
            rx = re.compile(c['pat'], re.I)
            for i in range(b, e):
                t = self.lines[i][1]
                nt = rx.sub(lambda m: c['rep'], t, count=0 if c.get('g') else 1)
                if nt != t or rx.search(t):
                    self.lines[i][1] = nt
            return True
        if k == 'g':
            return self.glob(c)
        return super().run(c)

    def glob(self, c):
        a = c.get('addr', [])
        if a == [] and self.depth == 0:
            a = '%'
        try:
            b, e, zero = self.resolve(a)
        except c06.Reject:
            return False
        neg = c.get('spell', 'g') in ('g!', 'v')
        rx = re.compile(c['pat'], re.I)
        todo = [l[0] for l in self.lines[b:e]]
        if zero:
            return False
        if not todo:
            if b >= len(self.lines):
                return True
            todo = [self.lines[b][0]]           # convention (backwards-by-one range such as 3,2): the row is still looked at
        self.depth += 1
        top = self.depth == 1
        pending = list(todo[1:])
        cur_id = todo[0]
        i = b
        while cur_id is not None:
            idx = [j for j, l in enumerate(self.lines) if l[0] == cur_id]
            if not idx:
                break
            i = idx[0]
            hit = rx.search(self.lines[i][1]) is not None
            runit = hit != neg
            if top:
                self.visits.append((cur_id, runit))
            ok = True
            if runit:
                self.cur = i
                if top:
                    self.execs += 1
                for x in c['body']:
                    ok = self.run(x)
                if not ok:
                    break
            present = [l[0] for l in self.lines]
            pending = [p for p in pending if p in present]
            lim = min(i, self.cur) if runit else i
            below = [p for p in pending if present.index(p) < lim]
            if below and top:
                self.low_events += 1
            if self.low:
                cand = [p for p in pending if present.index(p) >= lim]
                cand.sort(key=present.index)
                cur_id = cand[0] if cand else None
                # ec_glob never comes back to the skipped ones unless a later body moves the scan start up again
            else:
                pend_sorted = sorted(pending, key=lambda p: todo.index(p))
                cur_id = pend_sorted[0] if pend_sorted else None
            if cur_id is not None:
                pending.remove(cur_id)
        self.depth -= 1
        return True


# ---------------------------------------------------------------------------------------------

def build_script(case):
    lines = ['ec @A0@']
    for step in case.get('pre', []):
        for c in step:
            lines += r_cmd(c)
    g = case['glob']
    gl = r_cmd(g)
    lines.append('ec @B@')
    lines.append(gl[0])
    lines += body_blocks(g['body']) * case['nblocks']
    lines += ['ec @C@', '%p', 'ec @D@', 'u', 'ec @E@', '%p', 'ec @F@', 'q!']
    return ('\n'.join(lines) + '\n').encode()


MARK_RE = re.compile(rb'@(A0|B|C|D|E|F)@')


def parse_out(out):
    i = out.find(b'@A0@')
    if i < 0:
        return None
    toks = MARK_RE.split(out[i:])
    names = toks[1::2]
    if [n.decode() for n in names] != ['A0', 'B', 'C', 'D', 'E', 'F']:
        return None
    texts = toks[2::2]
    return {'during': c06.clean(texts[1]), 'after': c06.clean(texts[2]), 'undone': c06.clean(texts[4])}


def reference(case, low=False):
    ed = GlobRef(case['file'], {}, low=low)
    ed.lenient = True
    for step in case.get('pre', []):
        for c in step:
            ed.run(c)
    before = [l[1] for l in ed.lines]
    ed.out = []
    ed.run(case['glob'])
    during = [x[1] if x[0] != 'N' else str(x[1]) for x in ed.out if x[0] != 'E']
    return {'during': during, 'after': [l[1] for l in ed.lines], 'undone': before}, ed


def gen_body_cmd(rng, nested_ok=True):
    t = rng.below(24)
    rel = lambda: [({'base': None, 'offs': [rng.choice([1, -1, 2, -2, 1, -1])]}, None)]
    rel2 = lambda: [({'base': None, 'offs': [rng.choice([-2, -1, 0, 1])]}, ','), ({'base': None, 'offs': [rng.choice([-1, 0, 1, 2])]}, None)]
    addr = rng.choice([[], [], [], rel(), rel(), rel2(), [({'base': ('$',), 'offs': []}, None)], [({'base': ('n', 1), 'offs': []}, None)]])
    if t < 5:
        return {'cmd': 'd', 'addr': addr}
    if t < 11:
        return {'cmd': 's', 'addr': rng.choice([[], [], addr]), 'pat': rng.choice(['$', '$', '^', 'a', '[0-9]', 'b']), 'rep': rng.choice([' V', ' V', 'W', 'zz', '']),
                'g': rng.chance(1, 4)}
    if t < 13:
        return {'cmd': 'pu', 'addr': addr, 'reg': 'r'}
    if t < 17:
        k = rng.choice('aic')
        return {'cmd': k, 'addr': addr, 'text': [rng.choice(['New', 'Na9 ins', 'Nb0 ins', 'Nx']) + str(rng.below(10)) for _ in range(rng.choice([0, 1, 1, 2]))]}
    if t < 20:
        return {'cmd': 'p', 'addr': addr}
    if t < 22 and nested_ok:
        return {'cmd': 'g', 'addr': rng.choice([[], [], rel2()]), 'spell': rng.choice(['g', 'g', 'v']), 'pat': rng.choice(PATS),
                'body': [gen_body_cmd(rng, False)]}
    return {'cmd': 's', 'pat': '$', 'rep': ' V'}


def has_text(body):
    return any(x['cmd'] in ('a', 'i', 'c') or (x['cmd'] == 'g' and has_text(x['body'])) for x in body)


def gen_case(rng):
    n = rng.choice([1, 2, 3, 4, 5, 6, 8, 8])
    letters = 'ab'
    flines = [rng.choice(letters) + str(i + 1) for i in range(n)]
    pre = [[{'cmd': 'rs', 'reg': 'r', 'text': ['r1'] + (['r2'] if rng.chance(1, 2) else [])}]]
    rt = rng.below(10)
    if rt < 5:
        addr = []
    elif rt < 7:
        addr = '%'
    else:
        lo = rng.range(1, n)
        addr = [({'base': ('n', lo), 'offs': []}, ','), ({'base': ('n', rng.range(lo, n)), 'offs': []}, None)]
    for _ in range(20):
        body = [gen_body_cmd(rng) for _ in range(rng.choice([1, 1, 1, 2, 2, 3]))]
        body = [x for x in body[:-1] if x['cmd'] != 'g'] + body[-1:]      # a nested global takes the rest of the line: only last
        if rng.chance(1, 25):       # bodies that delete lines above and then move the current line down (tracks_low at risk)
            body = [{'cmd': 's', 'pat': '$', 'rep': ' V'},
                    {'cmd': 'd', 'addr': [({'base': None, 'offs': [-2]}, ','), ({'base': None, 'offs': [-1]}, None)]},
                    {'cmd': 'p', 'addr': [({'base': rng.choice([('$',), None]), 'offs': [] if rng.chance(1, 2) else [1]}, None)]}]
            if body[2]['addr'][0][0]['base'] is None and not body[2]['addr'][0][0]['offs']:
                body[2]['addr'][0][0]['offs'] = [2]
        g = {'cmd': 'g', 'addr': addr, 'spell': rng.choice(['g', 'g', 'g', 'g!', 'v']), 'pat': rng.choice(PATS), 'body': body}
        case = {'file': flines, 'pre': pre, 'glob': g, 'nblocks': 0}
        if any(x['cmd'] == 'g' and has_text(x['body']) for x in body):
            continue            # text blocks inside a nested global: the count per outer execution is not static
        try:
            _, e1 = reference(case, low=False)
            _, e2 = reference(case, low=True)
        except Exception:
            continue
        if has_text(body) and e1.execs != e2.execs:
            continue
        case['nblocks'] = e1.execs
        return case
    return {'file': flines, 'pre': pre, 'glob': {'cmd': 'g', 'addr': addr, 'spell': 'g', 'pat': 'a', 'body': [{'cmd': 's', 'pat': '$', 'rep': ' V'}]}, 'nblocks': 0}


def model_request(case):
    return 'run 1 %s %s' % (vlib.hx(''.join(l + '\n' for l in case['file']).encode()), build_script(case).hex())


def check_case(vi, case, mans):
    files = {'f': ''.join(l + '\n' for l in case['file']).encode()}
    sc = build_script(case)
    r = vlib.run_ex(vi, sc, files=files, args=['f'], timeout=20)
    if r.timed_out:
        r = vlib.run_ex(vi, sc, files=files, args=['f'], timeout=60)
    elif r.crashed():
        r = vlib.run_ex(vi, sc, files=files, args=['f'], timeout=20)
    if r.crashed():
        return 'crash', {'what': 'the editor crashed or hung on a global command (rc=%s, timed out=%s)' % (r.rc, r.timed_out), 'stderr': r.err[-500:].decode('latin-1')}
    obs = parse_out(r.out)
    if obs is None:
        return 'violation', {'what': 'probe markers damaged (a text block was consumed a different number of times than the reference predicts?)',
                             'observed': r.out[-300:].decode('latin-1')}
    want, ed = reference(case)
    res = ('ok', None)
    for key, what in (('during', 'lines printed by the executions (order and set of visited lines)'),
                      ('after', 'buffer after the global: each original-range line that still exists is visited exactly once, in increasing order, inserted lines never'),
                      ('undone', 'buffer after ONE undo must equal the text before the global')):
        if obs[key] != want[key]:
            det = {'what': what, 'expected': want[key], 'observed': obs[key], 'visits(reference)': ed.visits}
            kf = None
            try:
                w2, e2 = reference(case, low=True)
                if e2.low_events and all(obs[k] == w2[k] for k in ('during', 'after', 'undone')):
                    kf = 'KF-GLOB-LOW'
            except Exception:
                pass
            det['kf'] = kf
            res = ('violation', det)
            break
    if mans is not None and res[0] == 'ok':
        d, ms = c06.model_stream(mans)
        if int(d.get('F', '0')) & 3:
            return 'disagree', {'what': 'model left its fragment (flags=%s)' % d.get('F')}
        mobs = parse_out(ms)
        if mobs != obs:
            return 'disagree', {'what': 'model and implementation differ', 'implementation': obs, 'model': mobs}
    return res


def fix_json(case):
    def fa(a):
        if a == '%' or a is None:
            return a
        return [({'base': (tuple(t['base']) if t['base'] is not None else None), 'offs': t['offs']}, sep) for t, sep in a]

    def fc(x):
        if 'addr' in x:
            x['addr'] = fa(x['addr'])
        for y in x.get('body', []):
            fc(y)
    for step in case.get('pre', []):
        for x in step:
            fc(x)
    fc(case['glob'])


def corpus_cases():
    out = []
    for p in sorted(_glob.glob(os.path.join(vlib.VERIF, 'corpus', 'C15-*.json'))):
        c = json.load(open(p))
        fix_json(c)
        out.append(c)
    return out


def case_input(case):
    return dict(case, script=build_script(case).decode('latin-1'))


def run(ctx):
    res = ctx.res
    rng = ctx.rng
    vi = vlib.build_vi(asan=False)
    model = ctx.model('ex')
    res.rule = ('one case = one global command (pattern x range x command list from d, s, pu, a/i/c with text, p, relative addresses, nested g/v) '
                'on a buffer of 1..8 distinct lines through the real `vi -s -e`, the extracted model and the identity-tracking reference; '
                'compared: lines printed during the global, %p after it, %p after one undo.  non-trivial = the reference executes the body at least once '
                'and the body changes the number of lines or uses a relative address; distinct = distinct script')
    if ctx.replay:
        rp = json.load(open(ctx.replay))
        c = rp.get('input', rp)
        c.pop('script', None)
        fix_json(c)
        cases = [c]
    else:
        cases = corpus_cases()
        for i in range(2500 if ctx.quick else 60000):
            cases.append(gen_case(rng.fork('g%d' % i)))
    mans = [None] * len(cases)
    if model:
        rc, outm, err = vlib.run_lines(model, [model_request(c) for c in cases], timeout=3000)
        if rc != 0 or len(outm) != len(cases):
            res.disagree({'what': 'model driver: rc=%d, %d answers for %d requests' % (rc, len(outm), len(cases)), 'stderr': err[-800:]})
        else:
            mans = outm
    results = vlib.pmap(lambda cm: check_case(vi, cm[0], cm[1]), list(zip(cases, mans)))
    nshr = 0
    for case, (kind, det) in zip(cases, results):
        res.evaluations += 1
        g = case['glob']
        for x in g['body']:
            res.count('body ' + x['cmd'])
        res.count('form ' + g.get('spell', 'g'))
        try:
            _, ed = reference(case)
            res.count('executions %d' % min(ed.execs, 5))
            if ed.execs and any(x['cmd'] in ('d', 'pu', 'a', 'i', 'c', 'g') or x.get('addr') for x in g['body']):
                res.nontriv(build_script(case))
            if ed.low_events:
                res.count('tracks_low broken by the body (KF-GLOB-LOW territory)')
        except Exception:
            pass
        if kind == 'ok':
            continue
        if kind == 'disagree':
            res.disagree(dict(det, input=case_input(case)))
            continue
        kf = (det or {}).get('kf')
        if kf is None and kind == 'violation' and nshr < 3 and len(g['body']) > 1:
            nshr += 1
            for drop in range(len(g['body'])):
                b2 = g['body'][:drop] + g['body'][drop + 1:]
                c2 = dict(case, glob=dict(g, body=b2))
                try:
                    _, e1 = reference(c2)
                    c2['nblocks'] = e1.execs
                    k2, d2 = check_case(vi, c2, None)
                except Exception:
                    continue
                if k2 == 'violation' and not d2.get('kf'):
                    case, det = c2, d2
                    break
        if kf:
            det = dict(det, what='a multi-command body moved a still-unvisited line above min(i, current line); ec_glob restarts its scan there and never visits it: ' + det['what'])
        res.violation(dict(det, input=case_input(case)), kf=kf)
    for c in cases[:300:61]:
        res.sample({'script': build_script(c).decode('latin-1')[:400]})
