"""C15 -- the global command runs its command list once per matching line, undone as one step.

Implementation side: the real binary `vi -s -e f < script`: <range>g/pat/<command list> (text blocks supplied once per
execution), then %p, u, %p.  Model side: the extracted Coq model (coq/ExDefs.v: ec_glob, glob_loop, glob_scan over
the lbuf model with ln_glob bits travelling with the lines) on the same bytes.  Oracle: GlobRef below, written
from the property text by tracking line identities: every line of the original range that still exists is
visited exactly once in increasing order, never an inserted line; the body runs iff the line matches (does
not match for g!/v) at the time of the visit; one undo restores the text from before the global.

Three streams of cases: (1) one global on a buffer of 1..8 lines; (2) "hist": histories of two to four successive
globals in one script on 3..10 lines, where earlier ones often ABORT (their command list inserts/deletes and then
fails on an unset mark, a failed search or an address out of range) -- every later global must visit only lines of
ITS OWN range (no stale ln_glob mark may survive an aborted global); (3) "big": buffers of 260..2051 lines sitting on
the growth boundaries of lbuf's line table (512, 1024, 2048) with command lists that insert 1..3 lines per visit, so
that the table (and ln_glob with it) is re-allocated DURING the scan while marks are pending.
Later streams: "minus1" (command lists leaving the current line at -1), "deep" (globals nested 2..9 levels with %g inner ranges:
ln_glob[] has one bit per level, the eighth level is refused -- /repo daf82c9 -- with a message, and nothing deeper runs), "lead"
(the global is preceded / followed DIRECTLY by a command line that modifies the buffer and then fails; u, redo, u u afterwards: the
global is one undo step of its own, not merged with its neighbours).
"""
import json, os, re, glob as _glob
import vlib
from props import c06

GROUP = 'ex'
TRUSTED = ['tools/props/c15.py GlobRef + tools/props/c06.py RefEd: the Python reference (property text; conventions in design.d/C15.md)',
           "Python's re module on the generated loop-free patterns (literals, ., [set], ^, $; IGNORECASE)"]

MODEL_MAX_LINES = 1100
NEST_MAX = 7        # deepest nesting level of a global (ex.c ec_glob: `if (xgdep >= 7)`; one bit of the char ln_glob[i] per level)

PATS = ['a', 'b', 'a[34]', '[ab]', 'x', '^a', '3$', 'a.', 'nomatch', '[1-4]', 'V', 'b[2-6]']


def r_cmd(c):
    k = c['cmd']
    if k == 's':
        return [c06.r_addr(c.get('addr', [])) + 's/%s/%s/%s' % (c['pat'], c['rep'], 'g' if c.get('g') else '')]
    if k == 'g':
        heads = []
        tail = []
        for x in c['body']:
            l = r_cmd(x)
            heads.append(l[0])
            tail += l[1:]
        return [c06.r_addr(c.get('addr', [])) + c.get('spell', 'g') + '/' + c['pat'] + '/' + '|'.join(heads)] + tail
    return c06.r_cmd(c)


def body_blocks(body):
    """text-block lines one execution of the body consumes"""
    out = []
    for x in body:
        if x['cmd'] in ('a', 'i', 'c'):
            out += list(x['text']) + ['.']
        if x['cmd'] == 'g':
            pass
    return out


def cap_of(n):
    """capacity of lbuf's line table after the buffer has held at most n lines (512, 1024, ...; grows when len >= capacity)"""
    c = 512
    while n >= c:
        c *= 2
    return c


class GlobRef(c06.RefEd):
    """the reference editor with substitute and global; strict = the property, low = ec_glob's scan rule
    (restart the search for the next marked line at min(i, current line)).  Surviving lines never change their
    relative order (no command of the fragment moves a line), so `pending` (original order) is also in row order."""
    def __init__(self, file_lines, files, low=False):
        super().__init__(file_lines, files)
        self.low = low
        self.visits = []            # (identity, ran the body?)
        self.execs = 0
        self.low_events = 0         # a still-unvisited original line ended up above min(i, current line)
        self.depth = 0
        self.last_ok = True
        self.hw = len(file_lines)   # most lines the buffer ever held (decides the capacity of the line table)
        self.grow_pending = 0       # the table grew during a scan while original lines were still to be visited
        self.aborts = 0             # top-level globals ended by a failing command list
        self.edits = 0
        self.refused = 0            # globals refused because they were nested deeper than NEST_MAX levels
        self._pv = -1
        self._pm = {}

    def splice(self, b, e, texts):
        super().splice(b, e, texts)
        self.edits += 1
        if len(self.lines) > self.hw:
            self.hw = len(self.lines)

    def posmap(self):
        if self._pv != self.version:
            self._pm = {l[0]: j for j, l in enumerate(self.lines)}
            self._pv = self.version
        return self._pm

    def run(self, c):
        k = c['cmd']
        if k == 's':
            try:
                b, e, zero = self.resolve(c.get('addr', []))
            except c06.Reject:
                return False
            if zero:
                return True             # convention: ec_substitute takes address 0 as an empty range and succeeds
            rx = re.compile(c['pat'], re.I)
            for i in range(b, e):
                t = self.lines[i][1]
                nt = rx.sub(lambda m: c['rep'], t, count=0 if c.get('g') else 1)
                if nt != t or rx.search(t):
                    self.lines[i][1] = nt
                    self.edits += 1
            return True
        if k == 'g':
            return self.glob(c)
        if k == '' and self.cur + 1 < len(self.lines):
            self.cur += 1               # ec_null (ex mode) steps to the next line BEFORE it resolves its address -- also when that fails
        return super().run(c)

    def glob(self, c):
        if self.depth >= NEST_MAX:
            self.refused += 1       # convention (ex.c since daf82c9): the eighth level fails like a bad address and shows a message
            return False
        a = c.get('addr', [])
        if a == [] and self.depth == 0:
            a = '%'
        try:
            b, e, zero = self.resolve(a)
        except c06.Reject:
            return False
        neg = c.get('spell', 'g') in ('g!', 'v')
        rx = re.compile(c['pat'], re.I)
        todo = [l[0] for l in self.lines[b:e]]
        if zero:
            return False
        if not todo:
            if b >= len(self.lines):
                return True
            todo = [self.lines[b][0]]           # convention (backwards-by-one range such as 3,2): the row is still looked at
        self.depth += 1
        top = self.depth == 1
        pending = list(todo[1:])
        cur_id = todo[0]
        skipped = False                          # low mode only: a pending line lies above the scan start
        while cur_id is not None:
            i = self.posmap().get(cur_id)
            if i is None:
                break
            v0 = self.version
            hw0 = self.hw
            hit = rx.search(self.lines[i][1]) is not None
            runit = hit != neg
            if top:
                self.visits.append((cur_id, runit))
            ok = True
            if runit:
                self.cur = i
                if top:
                    self.execs += 1
                for x in c['body']:
                    ok = self.run(x)
                if not ok:
                    if top:
                        self.aborts += 1
                    break
            if not runit and self.version == v0 and not skipped:
                cur_id = pending.pop(0) if pending else None        # nothing moved: the next pending line is the next marked row
                continue
            pm = self.posmap()
            pending = [p for p in pending if p in pm]
            if top and pending and cap_of(self.hw) != cap_of(hw0):
                self.grow_pending += 1
            lim = min(i, self.cur) if runit else i
            below = [p for p in pending if pm[p] < lim]
            if below and top:
                self.low_events += 1
            if self.low:
                skipped = bool(below)
                cand = [p for p in pending if pm[p] >= lim]
                cur_id = cand[0] if cand else None
                # ec_glob never comes back to the skipped ones unless a later body moves the scan start up again
            else:
                cur_id = pending[0] if pending else None
            if cur_id is not None:
                pending.remove(cur_id)
        self.depth -= 1
        return True


# ---------------------------------------------------------------------------------------------

def ed_last_ok(case):
    """does the last command of the lead line succeed (reference)?  memo-free, small cases only"""
    ed = GlobRef(case['file'], {k: list(v) for k, v in case.get('files', {}).items()})
    ed.lenient = True
    for step in case.get('pre', []):
        for c in step:
            ed.run(c)
    ok = True
    for c in case.get('lead') or []:
        ok = ed.run(c)
    return ok


def globs_of(case):
    return case['globs'] if 'globs' in case else [case['glob']]


def nblocks_of(case):
    nb = case.get('nblocks', 0)
    return list(nb) if isinstance(nb, list) else [nb]


def one_line(cmds):
    """several commands on one line (none of them carries a text block)"""
    return '|'.join(r_cmd(c)[0] for c in cmds)


def has_tail(case):
    return case.get('kind') == 'lead'


def build_script(case, for_model=False):
    """`lead` / `post` (stream "lead"): a command line DIRECTLY before / after the global -- no probe marker in between, a marker is a
    successful command and would end the undo step.  The tail (redo, u u) is not part of the model's fragment: for_model leaves it out."""
    lines = ['ec @A0@']
    for step in case.get('pre', []):
        for c in step:
            lines += r_cmd(c)
    for g, nb in zip(globs_of(case), nblocks_of(case)):
        gl = r_cmd(g)
        lines.append('ec @B@')
        if case.get('lead'):
            lines.append(one_line(case['lead']))
        lines.append(gl[0])
        lines += body_blocks(g['body']) * nb
        if case.get('post'):
            lines.append(one_line(case['post']))
        lines += ['ec @C@', '%p']
    lines += ['ec @D@', 'u', 'ec @E@', '%p', 'ec @F@']
    if has_tail(case) and not for_model:
        lines += ['redo', 'ec @G@', '%p', 'ec @H@', 'u', 'u', 'ec @I@', '%p', 'ec @J@']
    lines.append('q!')
    return ('\n'.join(lines) + '\n').encode()


MARK_RE = re.compile(rb'@(A0|B|C|D|E|F|G|H|I|J)@')


def residue(tok):
    """what a region holds behind its last newline: message text (ex_show prints no newline)"""
    return tok.split(b'\n')[-1]


def parse_out(out, nglobs=1, tail=False):
    i = out.find(b'@A0@')
    if i < 0:
        return None
    toks = MARK_RE.split(out[i:])
    names = toks[1::2]
    if [n.decode() for n in names] != ['A0'] + ['B', 'C'] * nglobs + ['D', 'E', 'F'] + (['G', 'H', 'I', 'J'] if tail else []):
        return None
    texts = toks[2::2]
    d = {'during': [c06.clean(texts[1 + 2 * k]) for k in range(nglobs)],
         'after': [c06.clean(texts[2 + 2 * k]) for k in range(nglobs)],
         'undone': c06.clean(texts[2 * nglobs + 2]),
         'msg': [bool(residue(texts[1 + 2 * k]).strip()) for k in range(nglobs)]}
    if tail:
        d['redone'] = c06.clean(texts[2 * nglobs + 4])
        d['undone2'] = c06.clean(texts[2 * nglobs + 6])
    return d


_REF_MEMO = {}


def reference(case, low=False):
    """-> (expected observables, the reference editor after the run).  Memoised for the big cases (the oracle is
    O(lines) per executed command list)."""
    key = (id(case), low)
    m = _REF_MEMO.get(key)
    if m is not None and m[0] is case:
        return m[1], m[2]
    ed = GlobRef(case['file'], {k: list(v) for k, v in case.get('files', {}).items()}, low=low)
    ed.lenient = True
    for step in case.get('pre', []):
        for c in step:
            ed.run(c)
    pre_edits = ed.edits
    want = {'during': [], 'after': [], 'undone': None}
    ed.per = []
    before = None
    text = lambda: [l[1] for l in ed.lines]
    steps = [text()]            # the buffer at the boundaries of the command lines that edited it (= the undo steps), stream "lead"
    for g in globs_of(case):
        ed.out = []
        if case.get('lead'):
            e0 = ed.edits
            for c in case['lead']:
                ed.run(c)
            if ed.edits > e0:
                steps.append(text())
        before = text()
        v0, x0, e0, r0 = len(ed.visits), ed.execs, ed.edits, ed.refused
        ed.run(g)
        ed.per.append({'visits': ed.visits[v0:], 'execs': ed.execs - x0, 'edits': ed.edits - e0, 'refused': ed.refused - r0})
        if ed.edits > e0:
            steps.append(text())
        if case.get('post'):
            e0 = ed.edits
            for c in case['post']:
                ed.run(c)
            if ed.edits > e0:
                steps.append(text())
        want['during'].append([x[1] if x[0] != 'N' else str(x[1]) for x in ed.out if x[0] != 'E'])
        want['after'].append(text())
    want['undone'] = before
    ed.steps = steps
    # `u` takes back the most recent step that edited the buffer: when the last global made no edit and something
    # before it did, the property does not say what `u` restores -> that observable is then not judged by the oracle
    ed.undo_defined = ed.per[-1]['edits'] > 0 or (pre_edits == 0 and len(ed.per) == 1)
    if has_tail(case):
        # u takes back the last command line that edited, redo gives it back, u u takes back the last two -- each command line
        # (the failing list in front of the global, the global, the failing list behind it) is a step of its own
        ed.undo_defined = len(steps) >= 2 and pre_edits == 0
        want['undone'] = steps[-2] if len(steps) >= 2 else None
        want['redone'] = steps[-1] if ed.undo_defined else None
        want['undone2'] = steps[-3] if len(steps) >= 3 and pre_edits == 0 else None
    if len(case['file']) > 64:
        _REF_MEMO[key] = (case, want, ed)
    return want, ed


# ---------------------------------------------------------------------------------------------
# generators

def gen_body_cmd(rng, nested_ok=True):
    t = rng.below(24)
    rel = lambda: [({'base': None, 'offs': [rng.choice([1, -1, 2, -2, 1, -1])]}, None)]
    rel2 = lambda: [({'base': None, 'offs': [rng.choice([-2, -1, 0, 1])]}, ','), ({'base': None, 'offs': [rng.choice([-1, 0, 1, 2])]}, None)]
    addr = rng.choice([[], [], [], rel(), rel(), rel2(), [({'base': ('$',), 'offs': []}, None)], [({'base': ('n', 1), 'offs': []}, None)]])
    if t < 5:
        return {'cmd': 'd', 'addr': addr}
    if t < 11:
        return {'cmd': 's', 'addr': rng.choice([[], [], addr]), 'pat': rng.choice(['$', '$', '^', 'a', '[0-9]', 'b']), 'rep': rng.choice([' V', ' V', 'W', 'zz', '']),
                'g': rng.chance(1, 4)}
    if t < 13:
        return {'cmd': 'pu', 'addr': addr, 'reg': 'r'}
    if t < 17:
        k = rng.choice('aic')
        return {'cmd': k, 'addr': addr, 'text': [rng.choice(['New', 'Na9 ins', 'Nb0 ins', 'Nx']) + str(rng.below(10)) for _ in range(rng.choice([0, 1, 1, 2]))]}
    if t < 20:
        return {'cmd': 'p', 'addr': addr}
    if t < 22 and nested_ok:
        return {'cmd': 'g', 'addr': rng.choice([[], [], rel2()]), 'spell': rng.choice(['g', 'g', 'v']), 'pat': rng.choice(PATS),
                'body': [gen_body_cmd(rng, False)]}
    return {'cmd': 's', 'pat': '$', 'rep': ' V'}


def gen_fail_cmd(rng):
    """a command whose address does not resolve: unset mark, failed search, line past the end, line before the first"""
    t = rng.below(6)
    if t < 2:
        a = [({'base': ('m', rng.choice('zy')), 'offs': []}, None)]
    elif t < 3:
        a = [({'base': (rng.choice('/?'), 'nomatch'), 'offs': []}, None)]
    elif t < 4:
        a = [({'base': ('$',), 'offs': [rng.choice([1, 1, 2])]}, None)]
    elif t < 5:
        a = [({'base': ('n', rng.choice([99, 40, 1000])), 'offs': []}, None)]
    else:
        a = [({'base': ('n', 1), 'offs': [-2]}, None)]
    k = rng.below(5)
    if k < 3:
        return {'cmd': 'p', 'addr': a}
    if k < 4:
        return {'cmd': 'd', 'addr': a}
    return {'cmd': 's', 'addr': a, 'pat': '$', 'rep': ' V'}


def gen_abort_body(rng):
    """insert and/or delete (often ABOVE the current line or at the ends, so that marked lines move), then fail"""
    absaddr = lambda: rng.choice([[({'base': ('n', 0), 'offs': []}, None)], [({'base': ('n', 1), 'offs': []}, None)],
                                  [({'base': ('n', 1), 'offs': []}, ','), ({'base': ('n', 2), 'offs': []}, None)],
                                  [({'base': ('$',), 'offs': []}, None)], [], [({'base': None, 'offs': [-1]}, None)],
                                  [({'base': ('n', 2), 'offs': []}, None)]])
    body = []
    for _ in range(rng.choice([1, 1, 2, 3])):
        t = rng.below(10)
        a = absaddr()
        zero = bool(a) and a[-1][0]['base'] == ('n', 0)
        if t < 3:
            body.append({'cmd': 'pu', 'addr': a, 'reg': 'r'})
        elif t < 5:
            body += [{'cmd': 'y'}, {'cmd': 'pu', 'addr': a}]
        elif t < 7:
            k = rng.choice('ai') if zero else rng.choice('aic')
            body.append({'cmd': k, 'addr': a, 'text': ['Na9 top' + str(rng.below(10)) for _ in range(rng.choice([1, 1, 2]))]})
        elif t < 9:
            body.append({'cmd': 'd', 'addr': [] if zero else a})
        else:
            body.append({'cmd': 's', 'pat': '$', 'rep': ' W'})
    body.append(gen_fail_cmd(rng))
    return body


def has_text(body):
    return any(x['cmd'] in ('a', 'i', 'c') or (x['cmd'] == 'g' and has_text(x['body'])) for x in body)


def nested_text(body):
    return any(x['cmd'] == 'g' and has_text(x['body']) for x in body)


def gen_plain_body(rng):
    body = [gen_body_cmd(rng) for _ in range(rng.choice([1, 1, 1, 2, 2, 3]))]
    body = [x for x in body[:-1] if x['cmd'] != 'g'] + body[-1:]      # a nested global takes the rest of the line: only last
    if rng.chance(1, 25):       # bodies that delete lines above and then move the current line down (tracks_low at risk)
        body = [{'cmd': 's', 'pat': '$', 'rep': ' V'},
                {'cmd': 'd', 'addr': [({'base': None, 'offs': [-2]}, ','), ({'base': None, 'offs': [-1]}, None)]},
                {'cmd': 'p', 'addr': [({'base': rng.choice([('$',), None]), 'offs': [] if rng.chance(1, 2) else [1]}, None)]}]
        if body[2]['addr'][0][0]['base'] is None and not body[2]['addr'][0][0]['offs']:
            body[2]['addr'][0][0]['offs'] = [2]
    return body


def settle(case):
    """fill in the number of text blocks each global consumes; None when the reference cannot predict it"""
    try:
        _, e1 = reference(case, low=False)
        _, e2 = reference(case, low=True)
    except Exception:
        return None
    globs = globs_of(case)
    if any(has_text(g['body']) for g in globs) and [p['execs'] for p in e1.per] != [p['execs'] for p in e2.per]:
        return None
    nb = [p['execs'] for p in e1.per]
    case['nblocks'] = nb if 'globs' in case else nb[0]
    return case


def gen_case(rng):
    n = rng.choice([1, 2, 3, 4, 5, 6, 8, 8])
    letters = 'ab'
    flines = [rng.choice(letters) + str(i + 1) for i in range(n)]
    pre = [[{'cmd': 'rs', 'reg': 'r', 'text': ['r1'] + (['r2'] if rng.chance(1, 2) else [])}]]
    rt = rng.below(10)
    if rt < 5:
        addr = []
    elif rt < 7:
        addr = '%'
    else:
        lo = rng.range(1, n)
        addr = [({'base': ('n', lo), 'offs': []}, ','), ({'base': ('n', rng.range(lo, n)), 'offs': []}, None)]
    for _ in range(20):
        body = gen_plain_body(rng)
        if rng.chance(1, 12):
            body = [x for x in body[:2] if x['cmd'] != 'g'] + [gen_fail_cmd(rng)]
            if rng.chance(1, 2):
                body.append({'cmd': 's', 'pat': '$', 'rep': ' V'})      # a failing command that is not the last does not end the global
        g = {'cmd': 'g', 'addr': addr, 'spell': rng.choice(['g', 'g', 'g', 'g!', 'v']), 'pat': rng.choice(PATS), 'body': body}
        case = {'file': flines, 'pre': pre, 'glob': g, 'nblocks': 0}
        if nested_text(body):
            continue            # text blocks inside a nested global: the count per outer execution is not static
        if settle(case) is None:
            continue
        return case
    return {'file': flines, 'pre': pre, 'glob': {'cmd': 'g', 'addr': addr, 'spell': 'g', 'pat': 'a', 'body': [{'cmd': 's', 'pat': '$', 'rep': ' V'}]}, 'nblocks': 0}


def gen_minus1(rng):
    """command lists that leave the current line at -1 and still succeed: `0;<unresolvable>` fails after `;` moved the current line, a
    later command with an absolute address succeeds without touching it.  ec_glob must restart its scan at MAX(0, MIN(i, xrow))
    (fixed: /repo 5d2c325; before, it indexed ln_glob[-1] -- visible only to the ASan run below)"""
    n = rng.choice([1, 2, 3, 4, 6, 8])
    flines = [rng.choice('ab') + str(i + 1) for i in range(n)]
    zero_semi = lambda: [({'base': ('n', 0), 'offs': []}, ';'), rng.choice([({'base': ('n', rng.choice([99, 40])), 'offs': []}, None),
                                                                             ({'base': ('m', 'z'), 'offs': []}, None),
                                                                             ({'base': ('/', 'nomatch'), 'offs': []}, None)])]
    for _ in range(20):
        body = []
        if rng.chance(2, 3):
            body.append({'cmd': 'p', 'addr': []})
        if rng.chance(1, 3):
            body.append(rng.choice([{'cmd': 's', 'pat': '$', 'rep': ' V'}, {'cmd': 'pu', 'addr': [({'base': ('n', 0), 'offs': []}, None)], 'reg': 'r'},
                                    {'cmd': 'd', 'addr': [({'base': None, 'offs': [-1]}, None)]}]))
        body.append({'cmd': rng.choice(['p', 'p', 'd', 'y']), 'addr': zero_semi()})
        body.append({'cmd': 'y', 'addr': [({'base': rng.choice([('n', 1), ('$',)]), 'offs': []}, None)]})
        g = {'cmd': 'g', 'addr': '%' if rng.chance(1, 2) else [], 'spell': rng.choice(['g', 'g', 'v']), 'pat': rng.choice(PATS), 'body': body}
        case = {'file': flines, 'pre': [[{'cmd': 'rs', 'reg': 'r', 'text': ['r1']}]], 'glob': g, 'nblocks': 0}
        if settle(case) is not None:
            return case
    return None


DEEP_LEVELS = [('g', 'a'), ('g', '[ab]'), ('g', '[ab]'), ('g', '[0-9]'), ('v', 'x'), ('g', 'a'), ('g', 'a[1-3]'), ('g', 'b'), ('v', 'b')]


DEEP_SURE = [('g', 'a'), ('g', '[ab]'), ('g', '[0-9]'), ('v', 'x'), ('g', '^a')]


def gen_deep(rng):
    """globals nested 2..9 levels, the inner ones with their own ranges (`%g`: marks of several depths are pending on the same
    lines at once).  ln_glob[] has one bit per level: levels 1..7 work, the eighth is refused with a message (and is the LAST command
    of the seventh level's list, which therefore ends after its first execution), nothing deeper ever runs.  From depth 8 on only the
    innermost list prints (a message has no newline and would glue to a printed line)."""
    n = rng.choice([1, 2, 3, 4, 4])
    flines = [rng.choice('aaab') + str(i + 1) for i in range(n)]
    if rng.chance(1, 2):
        flines = ['a' + str(i + 1) for i in range(n)]
    for _ in range(10):
        D = rng.choice([2, 3, 4, 5, 6, 7, 7, 8, 8, 8, 9, 9])
        sure = rng.chance(2, 3)         # every level matches every line: the nesting really gets D levels deep
        prod = 1
        levels = []
        for lev in range(1, D + 1):
            if lev == 1:
                addr = rng.choice([[], '%', gen_range(rng, n)])
                size = n
            elif (rng.chance(1, 3) or (lev >= D - 1 and rng.chance(2, 3))) and prod * n <= 300:
                addr, size = '%', n
            elif rng.chance(1, 8) and prod * 2 <= 300:
                addr, size = [({'base': None, 'offs': [rng.choice([-1, 0])]}, ','), ({'base': None, 'offs': [rng.choice([0, 1])]}, None)], 2
            else:
                addr, size = [], 1
            prod *= size
            spell, pat = rng.choice(DEEP_SURE if sure else DEEP_LEVELS)
            levels.append({'cmd': 'g', 'addr': addr, 'spell': spell, 'pat': pat, 'body': []})
        t = rng.below(10)
        inner = ([{'cmd': 'p'}] if t < 5 else [{'cmd': 's', 'pat': '$', 'rep': ' V'}] if t < 8 else
                 [{'cmd': 'p'}, {'cmd': 's', 'pat': '$', 'rep': ' V'}] if t < 9 else [{'cmd': 'd'}])
        levels[-1]['body'] = inner
        for lev in range(D - 1, 0, -1):
            extra = []
            if rng.chance(1, 5):
                extra = [{'cmd': 's', 'pat': '$', 'rep': ' L%d' % lev}] if D > NEST_MAX or rng.chance(1, 2) else [{'cmd': 'p'}]
            levels[lev - 1]['body'] = extra + [levels[lev]]
        case = {'kind': 'deep', 'depth': D, 'file': flines, 'pre': [], 'glob': levels[0], 'nblocks': 0}
        if settle(case) is not None:
            return case
    return None


def gen_lead(rng):
    """the global is preceded DIRECTLY (no probe in between) by a command line that modifies the buffer and whose LAST command then
    fails -- ex_exec reports the status of the last command only, ex_command must end the undo step all the same -- and sometimes
    followed by one; controls: a lead that succeeds, one that fails without modifying, one that fails first and modifies after."""
    n = rng.choice([3, 4, 5, 6, 8])
    flines = [rng.choice('ab') + str(i + 1) for i in range(n)]
    pre = [[{'cmd': 'rs', 'reg': 'r', 'text': ['r1'] + (['r2'] if rng.chance(1, 2) else [])}]]
    num = lambda v: [({'base': ('n', v), 'offs': []}, None)]

    def mods():
        out = []
        for _ in range(rng.choice([1, 1, 2])):
            a = rng.choice([num(1), num(2), num(rng.range(1, n)), [], [({'base': ('$',), 'offs': []}, None)],
                            [({'base': ('n', 1), 'offs': []}, ','), ({'base': ('n', 2), 'offs': []}, None)]])
            t = rng.below(9)
            if t < 4:
                out.append({'cmd': 'd', 'addr': a})
            elif t < 6:
                out.append({'cmd': 's', 'addr': a, 'pat': rng.choice(['$', '^', '[0-9]']), 'rep': rng.choice([' W', 'zz'])})
            elif t < 7:
                out.append({'cmd': 'pu', 'addr': a, 'reg': 'r'})
            else:
                out += [{'cmd': 'y', 'addr': a}, {'cmd': 'pu', 'addr': rng.choice([[], num(0), num(1)])}]
        return out

    def fail():
        f = gen_fail_cmd(rng)
        if rng.chance(1, 3):
            f = {'cmd': '', 'addr': f['addr']}          # a bare address that does not resolve: `2d|/nosuch/`
        return f
    for att in range(20):
        shape = rng.below(10)
        lead = mods() + [fail()] if shape < 7 else mods() if shape < 8 else [fail()] if shape < 9 else [fail()] + mods()
        post = (mods() + [fail()]) if rng.chance(1, 3) else None
        t = rng.below(10)
        body = ([{'cmd': 's', 'pat': '$', 'rep': ' V'}] if t < 4 else [{'cmd': 'd'}] if t < 6 else gen_plain_body(rng) if t < 9 else gen_abort_body(rng))
        if nested_text(body):
            continue
        g = {'cmd': 'g', 'addr': rng.choice([[], '%', gen_range(rng, n)]), 'spell': rng.choice(['g', 'g', 'g', 'v']),
             'pat': rng.choice(['a', 'b', '[ab]', '[ab]', '[1-4]', 'x']), 'body': body}
        case = {'kind': 'lead', 'file': flines, 'pre': pre, 'lead': lead, 'globs': [g], 'nblocks': [0]}
        if post:
            case['post'] = post
        if settle(case) is None:
            continue
        _, ed = reference(case)
        if len(ed.steps) >= 3 or att >= 3:        # mostly: the lead edits AND the global edits
            return case
    return None


def gen_range(rng, n):
    rt = rng.below(10)
    if rt < 2:
        return []
    if rt < 3:
        return '%'
    lo = rng.range(1, n) if rng.chance(1, 2) else min(n, rng.choice([1, 1, 2, 2, 3]))
    hi = rng.range(lo, n) if rng.chance(2, 3) else min(n, lo + rng.below(3))
    return [({'base': ('n', lo), 'offs': []}, ','), ({'base': ('n', hi), 'offs': []}, None)]


def gen_hist(rng):
    """two to four successive globals; the earlier ones mostly abort after having inserted or deleted lines"""
    n = rng.choice([3, 4, 5, 6, 7, 8, 10])
    flines = [rng.choice('ab') + str(i + 1) for i in range(n)]
    pre = [[{'cmd': 'rs', 'reg': 'r', 'text': ['r1'] + (['r2'] if rng.chance(1, 2) else [])}]]
    for _ in range(20):
        k = rng.choice([2, 2, 2, 3, 4])
        globs = []
        for j in range(k):
            last = j == k - 1
            if (not last and rng.chance(3, 4)) or (last and rng.chance(1, 8)):
                body = gen_abort_body(rng)
            else:
                body = gen_plain_body(rng)
                if last and rng.chance(1, 2):
                    body = [rng.choice([{'cmd': 's', 'pat': '$', 'rep': ' V'}, {'cmd': 'p'}, {'cmd': 'd'}])]
            pat = rng.choice(PATS[:4] + ['[ab]', '[ab]']) if not last else rng.choice(PATS + ['[ab]', '[0-9]'])
            globs.append({'cmd': 'g', 'addr': gen_range(rng, n), 'spell': rng.choice(['g', 'g', 'g', 'g!', 'v']), 'pat': pat, 'body': body})
        if any(nested_text(g['body']) for g in globs):
            continue
        case = {'kind': 'hist', 'file': flines, 'pre': pre, 'globs': globs, 'nblocks': [0] * k}
        if settle(case) is None:
            continue
        return case
    g = {'cmd': 'g', 'addr': '%', 'spell': 'g', 'pat': 'a', 'body': [{'cmd': 's', 'pat': '$', 'rep': ' V'}]}
    return {'kind': 'hist', 'file': flines, 'pre': pre, 'globs': [g, dict(g)], 'nblocks': [0, 0]}


BIG_DENSE = ['^l', '[0-9]', 'l', '^[lm]']
BIG_SPARSE = ['7$', '[27]$', '^m', '77$', '0[0-9]$', '^l5', '9.$']


def gen_big_body(rng):
    """command lists that insert 1..3 lines per visit (the line count climbs through the capacity of the line table)"""
    num = lambda v: [({'base': ('n', v), 'offs': []}, None)]
    where = rng.choice([[], [], [], [], [({'base': None, 'offs': [-1]}, None)], [({'base': ('$',), 'offs': []}, None)], num(0), num(1),
                        [({'base': None, 'offs': [1]}, None)]])
    zero = bool(where) and where[-1][0]['base'] == ('n', 0)
    text = lambda: [rng.choice(['New', 'Nl7 ins', 'Nm77', 'Nx']) + str(rng.below(10)) for _ in range(rng.choice([1, 1, 2, 3]))]
    t = rng.below(12)
    if t < 3:
        body = [{'cmd': 'y'}, {'cmd': 'pu', 'addr': where}]
    elif t < 4:
        body = [{'cmd': 'y', 'reg': 'a'}, {'cmd': 'pu', 'addr': where, 'reg': 'a'}, {'cmd': 'pu', 'reg': 'a'}]
    elif t < 6:
        body = [{'cmd': 'pu', 'addr': where, 'reg': 'r'}]
    elif t < 9:
        k = rng.choice('ai') if zero else rng.choice('aaiic')
        body = [{'cmd': k, 'addr': where, 'text': text()}]
        if k == 'c' and len(body[0]['text']) < 2:
            body[0]['text'].append('Nc2')
    elif t < 11:
        return [{'cmd': 'r', 'addr': where, 'path': 'g'}]           # prints a message: nothing else in this command list
    else:
        body = [{'cmd': 'a', 'text': text()}, {'cmd': 'pu', 'addr': where, 'reg': 'r'}]
    if rng.chance(1, 4):
        body.insert(0, {'cmd': 's', 'pat': '$', 'rep': ' V'})
    if rng.chance(1, 6):
        body.append({'cmd': 'p'})
    if rng.chance(1, 10):
        body.append({'cmd': 'd', 'addr': [({'base': None, 'offs': [rng.choice([-1, 1])]}, None)]})
    return body


def gen_big(rng, allow_2048):
    """buffers on the growth boundaries of the line table; most cases make the table grow while marks are pending"""
    best = None
    for att in range(8):
        shape = rng.below(16)
        dense = rng.chance(1, 3)
        if shape < 7:
            bound = 512
        elif shape < 13:
            bound = 1024
        elif allow_2048:
            bound, dense = 2048, False
        else:
            bound = 512
        if shape == 0 or shape == 7:
            n = rng.range(bound // 2 + 4, bound - 12)          # crossing in the middle of a dense scan
            dense = True
        else:
            n = rng.range(bound - 7, bound + 3)                # 505..515, 1017..1027, 2041..2051
        flines = [('m' if (i * 7 + att) % 8 == 3 else 'l') + str(i + 1) for i in range(n)]
        files = {'g': ['Ng%d' % j for j in range(rng.range(1, 3))]}
        pre = [[{'cmd': 'rs', 'reg': 'r', 'text': ['r%d' % j for j in range(rng.range(1, 3))]}]]
        pk = rng.below(10)
        if pk == 0:         # lines deleted before the global: the capacity is that of the larger buffer (control: no growth at this size)
            pre.append([{'cmd': 'd', 'addr': [({'base': ('n', 1), 'offs': []}, ','), ({'base': ('n', rng.range(1, 12)), 'offs': []}, None)]}])
        elif pk == 1:       # lines added before the global
            pre.append([{'cmd': 'pu', 'addr': [({'base': ('$',), 'offs': []}, None)], 'reg': 'r'}])
        pat = rng.choice(BIG_DENSE if dense else BIG_SPARSE)
        rt = rng.below(8)
        if rt < 5:
            addr = []
        elif rt < 6:
            lo = rng.range(1, 20)
            addr = [({'base': ('n', lo), 'offs': []}, ','), ({'base': ('$',), 'offs': []}, None)]
        else:
            lo = rng.range(1, n - 40)
            addr = [({'base': ('n', lo), 'offs': []}, ','), ({'base': ('n', rng.range(lo + 20, n - 8)), 'offs': []}, None)]
        g = {'cmd': 'g', 'addr': addr, 'spell': 'g' if not rng.chance(1, 10) else 'v', 'pat': pat, 'body': gen_big_body(rng)}
        case = {'kind': 'big', 'file': flines, 'files': files, 'pre': pre, 'globs': [g], 'nblocks': [0]}
        if rng.chance(1, 5):    # a second global right behind: stale or lost marks of the first would show here
            case['globs'].append({'cmd': 'g', 'addr': [({'base': ('n', 2), 'offs': []}, ','), ({'base': ('n', 9), 'offs': []}, None)], 'spell': 'g', 'pat': '[0-9]',
                                  'body': [{'cmd': 's', 'pat': '$', 'rep': ' W'}]})
            case['nblocks'].append(0)
        if settle(case) is None:
            continue
        _, ed = reference(case)
        if ed.grow_pending:
            return case
        if best is None:
            best = case
        if att >= 2 and rng.chance(1, 3):
            break               # keep some cases without growth as controls
    return best


def model_request(case):
    extra = ' '.join('%s=%s' % (nme.encode().hex(), vlib.hx(''.join(l + '\n' for l in ls).encode()))
                     for nme, ls in sorted(case.get('files', {}).items()))
    return ('run 1 %s %s %s' % (vlib.hx(''.join(l + '\n' for l in case['file']).encode()), build_script(case, for_model=True).hex(), extra)).rstrip()


# ---------------------------------------------------------------------------------------------

def brief(exp, obs):
    """long listings: the neighbourhood of the first difference"""
    if len(exp) <= 40 and len(obs) <= 40:
        return exp, obs
    k = 0
    while k < min(len(exp), len(obs)) and exp[k] == obs[k]:
        k += 1
    lo = max(0, k - 3)
    return ({'lines': len(exp), 'first difference at index': k, 'window': exp[lo:k + 6]},
            {'lines': len(obs), 'first difference at index': k, 'window': obs[lo:k + 6]})


def check_case(vi, case, mans):
    files = {'f': ''.join(l + '\n' for l in case['file']).encode()}
    for nme, ls in case.get('files', {}).items():
        files[nme] = ''.join(l + '\n' for l in ls).encode()
    sc = build_script(case)
    big = len(case['file']) > 64
    t0 = 60 if big else 10 if case.get('kind') == 'deep' else 20
    r = vlib.run_ex(vi, sc, files=files, args=['f'], timeout=t0)
    if r.timed_out:
        r = vlib.run_ex(vi, sc, files=files, args=['f'], timeout=3 * t0)
    elif r.crashed():
        r = vlib.run_ex(vi, sc, files=files, args=['f'], timeout=t0)
    if r.crashed():
        return 'crash', {'what': 'the editor crashed or hung on a global command (rc=%s, timed out=%s)' % (r.rc, r.timed_out), 'stderr': r.err[-500:].decode('latin-1')}
    ng = len(globs_of(case))
    obs = parse_out(r.out, ng, has_tail(case))
    if obs is None:
        return 'violation', {'what': 'probe markers damaged (a text block was consumed a different number of times than the reference predicts?)',
                             'observed': r.out[-300:].decode('latin-1')}
    want, ed = reference(case)
    res = ('ok', None)
    checks = []
    for k in range(ng):
        tag = '' if ng == 1 else ' (global %d of %d in this script)' % (k + 1, ng)
        checks.append(('during', k, 'lines printed by the executions (order and set of visited lines)' + tag))
        checks.append(('after', k, 'buffer after the global: each original-range line that still exists is visited exactly once, in increasing order, '
                                   'inserted lines and lines outside the range never' + tag))
    if ed.undo_defined and not has_tail(case):
        checks.append(('undone', None, 'buffer after ONE undo must equal the text before the %sglobal' % ('' if ng == 1 else 'last ')))
    if has_tail(case) and ed.undo_defined:
        what = ('the global is ONE undo step OF ITS OWN -- not merged with the command line directly before / behind it (a list that edited the '
                'buffer and whose last command then failed): ')
        checks.append(('undone', None, what + 'buffer after one `u` = the text before the last command line that edited'))
        checks.append(('redone', None, what + 'buffer after `u`, `redo` = the text after it'))
        if want.get('undone2') is not None:
            checks.append(('undone2', None, what + 'buffer after `u`, `redo`, `u`, `u` = the text before the last TWO command lines that edited'))
    for k in range(ng):
        if ed.per[k].get('refused'):
            want.setdefault('msg', [False] * ng)[k] = True
            checks.append(('msg', k, 'a global nested deeper than %d levels is refused: a message is shown (and its command list never runs)' % NEST_MAX))
    for key, k, what in checks:
        o = obs[key] if k is None else obs[key][k]
        w = want[key] if k is None else want[key][k]
        if o != w:
            bw, bo = brief(w, o) if key != 'msg' else (w, o)
            det = {'what': what, 'expected': bw, 'observed': bo, 'visits(reference)': ed.per[k if k is not None else -1]['visits'][:60]}
            kf = None
            try:
                w2, e2 = reference(case, low=True)
                if key != 'msg' and e2.low_events and all(obs[kk] == w2[kk] for kk in ('during', 'after')) and (obs['undone'] == w2['undone'] or not e2.undo_defined):
                    kf = 'KF-GLOB-LOW'
            except Exception:
                pass
            det['kf'] = kf
            res = ('violation', det)
            break
    if mans is not None and res[0] == 'ok':
        d, ms = c06.model_stream(mans)
        if int(d.get('F', '0')) & 3:
            return 'disagree', {'what': 'model left its fragment (flags=%s)' % d.get('F')}
        mobs = parse_out(ms, ng)
        if mobs is not None and not any(p.get('refused') for p in ed.per):
            mobs['msg'] = obs['msg']            # message text is compared only where the property's reference expects the refusal
        if mobs != {k: v for k, v in obs.items() if k not in ('redone', 'undone2')}:
            det = {'what': 'model and implementation differ'}
            if mobs is None:
                det['model'] = None
            else:
                for key in ('during', 'after'):
                    for k in range(ng):
                        if mobs[key][k] != obs[key][k] and 'model' not in det:
                            det['observable'] = '%s[%d]' % (key, k)
                            det['model'], det['implementation'] = brief(mobs[key][k], obs[key][k])
                if 'model' not in det and mobs['msg'] != obs['msg']:
                    det['observable'] = 'message shown'
                    det['model'], det['implementation'] = mobs['msg'], obs['msg']
                if 'model' not in det:
                    det['observable'] = 'undone'
                    det['model'], det['implementation'] = brief(mobs['undone'], obs['undone'])
            return 'disagree', det
    return res


def fix_json(case):
    def fa(a):
        if a == '%' or a is None:
            return a
        return [({'base': (tuple(t['base']) if t['base'] is not None else None), 'offs': t['offs']}, sep) for t, sep in a]

    def fc(x):
        if 'addr' in x:
            x['addr'] = fa(x['addr'])
        for y in x.get('body', []):
            fc(y)
    for step in case.get('pre', []):
        for x in step:
            fc(x)
    for g in globs_of(case):
        fc(g)
    for key in ('lead', 'post'):
        for x in case.get(key) or []:
            fc(x)


def corpus_cases():
    out = []
    for p in sorted(_glob.glob(os.path.join(vlib.VERIF, 'corpus', 'C15-*.json'))):
        c = json.load(open(p))
        c.pop('comment', None)
        fix_json(c)
        out.append(c)
    return out


def case_input(case):
    d = dict(case, script=build_script(case).decode('latin-1'))
    if len(d['script']) > 3000:
        d['script'] = d['script'][:1500] + '\n...\n' + d['script'][-600:]
    return d


def simpler(case):
    """candidate simplifications of a failing case: drop one global, drop one command of a command list"""
    globs = globs_of(case)
    out = []
    if case.get('post'):
        out.append({k: v for k, v in case.items() if k != 'post'})
    for key in ('lead', 'post'):
        if len(case.get(key) or []) > 2:
            for drop in range(len(case[key]) - 1):
                out.append(dict(case, **{key: case[key][:drop] + case[key][drop + 1:]}))
    if len(globs) > 1:
        for j in range(len(globs)):
            out.append(dict(case, globs=globs[:j] + globs[j + 1:], nblocks=[0] * (len(globs) - 1)))
    for j, g in enumerate(globs):
        if len(g['body']) > 1:
            for drop in range(len(g['body'])):
                g2 = dict(g, body=g['body'][:drop] + g['body'][drop + 1:])
                if 'globs' in case:
                    out.append(dict(case, globs=globs[:j] + [g2] + globs[j + 1:]))
                else:
                    out.append(dict(case, glob=g2))
    return out


def shrink_case(vi, case, det):
    for _ in range(6):
        for c2 in simpler(case):
            try:
                if settle(c2) is None:
                    continue
                k2, d2 = check_case(vi, c2, None)
            except Exception:
                continue
            if k2 == 'violation' and not d2.get('kf') and 'markers' not in d2['what']:
                case, det = c2, d2
                break
        else:
            break
    return case, det


def run(ctx):
    res = ctx.res
    rng = ctx.rng
    vi = vlib.build_vi(asan=False)
    model = ctx.model('ex')
    res.rule = ('one case = one script of one or more global commands (pattern x range x command list from d, s, y, pu, r, a/i/c with text, p, relative '
                'addresses, failing addresses, nested g/v) through the real `vi -s -e`, the extracted model and the identity-tracking reference; '
                'streams: single global on 1..8 lines; histories of 2..4 globals where earlier ones abort after inserting/deleting; buffers of 260..2051 '
                'lines on the growth boundaries of the line table with inserting command lists; command lists leaving the current line at -1; globals '
                'nested 2..9 levels with %g inner ranges (the eighth level is refused with a message); a global directly preceded / followed by a '
                'command line that edits and then fails, with u, redo, u u behind.  Compared: lines printed during each global, %p after '
                'each, %p after one undo (after redo and two undos in the last stream), message shown where a refusal is expected.  non-trivial = the reference executes a command list at least once and it changes the number of lines or '
                'uses an address; distinct = distinct script + file length')
    if ctx.replay:
        rp = json.load(open(ctx.replay))
        c = rp.get('input', rp)
        c.pop('script', None)
        fix_json(c)
        cases = [c]
    else:
        cases = corpus_cases()
        for i in range(2500 if ctx.quick else 60000):
            cases.append(gen_case(rng.fork('g%d' % i)))
        for i in range(900 if ctx.quick else 20000):
            cases.append(gen_hist(rng.fork('h%d' % i)))
        for i in range(56 if ctx.quick else 700):
            c = gen_big(rng.fork('b%d' % i), allow_2048=(not ctx.quick) or i % 8 == 0)
            if c is not None:
                cases.append(c)
        for i in range(60 if ctx.quick else 1500):
            c = gen_minus1(rng.fork('m%d' % i))
            if c is not None:
                c['kind'] = 'minus1'
                cases.append(c)
        for i in range(120 if ctx.quick else 3000):
            c = gen_deep(rng.fork('d%d' % i))
            if c is not None:
                cases.append(c)
        for i in range(300 if ctx.quick else 8000):
            c = gen_lead(rng.fork('l%d' % i))
            if c is not None:
                cases.append(c)
    mans = [None] * len(cases)
    if model:
        # the extracted model is list based: a dense global on 1000 lines takes it about a second, on 2000 lines several;
        # buffers above MODEL_MAX_LINES are judged by the reference oracle alone (recorded in the evidence)
        idx = [j for j, c in enumerate(cases) if len(c['file']) <= MODEL_MAX_LINES]
        small = [j for j in idx if len(cases[j]['file']) <= 64]
        bigs = [j for j in idx if len(cases[j]['file']) > 64]
        chunks = [small[k:k + 400] for k in range(0, len(small), 400)] + [bigs[k:k + 3] for k in range(0, len(bigs), 3)]

        def run_chunk(ch):
            try:
                rc, outm, err = vlib.run_lines(model, [model_request(cases[j]) for j in ch], timeout=3000)
            except Exception as ex:
                return ch, 1, [], str(ex)
            return ch, rc, outm, err
        for ch, rc, outm, err in vlib.pmap(run_chunk, chunks):
            if rc != 0 or len(outm) != len(ch):
                res.disagree({'what': 'model driver: rc=%d, %d answers for %d requests' % (rc, len(outm), len(ch)), 'stderr': err[-800:]})
            else:
                for j, a in zip(ch, outm):
                    mans[j] = a
        res.extra['cases run through the extracted model'] = len(idx)
        res.extra['cases judged by the reference oracle only (buffer larger than %d lines)' % MODEL_MAX_LINES] = len(cases) - len(idx)
    results = vlib.pmap(lambda cm: check_case(vi, cm[0], cm[1]), list(zip(cases, mans)))
    # the same scripts under AddressSanitizer for the corpus, the `current line = -1` stream and a sample of the others: an
    # out-of-bounds access of the ln_glob table (restart index -1, stale capacity) changes nothing visible in the plain build
    if True:
        vi_asan = vlib.build_vi(asan=True)
        ncorp = 0 if ctx.replay else len(corpus_cases())
        sel = [j for j, c in enumerate(cases) if ctx.replay or (len(c['file']) <= 64 and (j < ncorp or c.get('kind') == 'minus1' or j % 12 == 0))]
        ares = vlib.pmap(lambda j: check_case(vi_asan, cases[j], None), sel)
        res.extra['cases also run under AddressSanitizer'] = len(sel)
        for j, (kind, det) in zip(sel, ares):
            if kind == 'crash':
                res.violation(dict(det, what='ASan build: ' + det['what'], input=case_input(cases[j])))
    nshr = 0
    for case, (kind, det) in zip(cases, results):
        res.evaluations += 1
        globs = globs_of(case)
        res.count('stream ' + case.get('kind', 'single'))
        for g in globs:
            for x in g['body']:
                res.count('body ' + x['cmd'])
            res.count('form ' + g.get('spell', 'g'))
        try:
            _, ed = reference(case)
            res.count('executions %d' % min(ed.execs, 5) if ed.execs <= 5 else 'executions > 5')
            if ed.execs and any(x['cmd'] in ('d', 'pu', 'a', 'i', 'c', 'g', 'r') or x.get('addr') for g in globs for x in g['body']):
                res.nontriv(build_script(case) + b'#%d' % len(case['file']))
            if ed.low_events:
                res.count('tracks_low broken by the body (KF-GLOB-LOW territory)')
            if ed.grow_pending:
                res.count('line table grew during the scan while marks were pending')
            if ed.refused:
                res.count('a global nested deeper than %d levels refused' % NEST_MAX)
            if case.get('kind') == 'deep':
                res.count('nesting depth %d' % case.get('depth', 0))
            if has_tail(case):
                res.count('undo steps around the global: %d' % (len(ed.steps) - 1))
                if case.get('lead') and len(ed.steps) >= 3:
                    res.count('the command line directly before the global edited' + (' and failed' if not ed_last_ok(case) else ''))
            if ed.aborts:
                res.count('a global aborted by a failing command list')
                if len(globs) > 1 and any(p['execs'] for p in ed.per[1:]):
                    res.count('a later global executed after an aborted one')
        except Exception:
            pass
        if kind == 'ok':
            continue
        if kind == 'disagree':
            res.disagree(dict(det, input=case_input(case)))
            continue
        kf = (det or {}).get('kf')
        if kf is None and kind == 'violation' and nshr < 3:
            nshr += 1
            case, det = shrink_case(vi, case, det)
        if kf:
            det = dict(det, what='a multi-command body moved a still-unvisited line above min(i, current line); ec_glob restarts its scan there and never visits it: ' + det['what'])
        res.violation(dict(det, input=case_input(case)), kf=kf)
    for c in cases[:300:61] + [c for c in cases if c.get('kind') == 'hist'][:2]:
        res.sample({'script': build_script(c).decode('latin-1')[:400]})
    for c in [c for c in cases if c.get('kind') == 'big'][:2]:
        res.sample({'file lines': len(c['file']), 'global': r_cmd(c['globs'][0])[0]})
