"""C10 -- regex matches are genuine, leftmost, greedy/left-biased, with right group spans.

Correspondence: harness/probe_re.c (rset_make / rset_find of /repo) versus the extracted Coq model,
INCLUDING the depth-cut counter (hook re_verif_depthcut), on random structured (pattern set, line,
flags) triples: literals, '.', brackets with ranges/negation/classes, ^ $ \\< \\>, groups, |, * + ?
{m,n}, ignore-case, not-BOL, not-EOL, ASCII and multi-byte lines, pattern sets with several
alternatives, long lines that hit the recursion-depth limit.  Patterns with a nullable loop body are
kept out (known finding KF-EMPTY-LOOP, property C05/C11).
Oracle: an independent limit-free backtracking matcher (tools/props/relib.py, class Ref) that works
on the generator's own tree (no parser involved) and enumerates parses in priority order (one more
iteration first, left alternative first).  When the cut counter is 0 the engine's answer must be
exactly the reference's: same pattern index, leftmost start, the first parse's end and group spans;
an empty subject is never matched (regexec tries no start position on it).
When the counter is not 0 only soundness is demanded: the reported spans are one of the parses.
Sequences (the matcher must be a function of (pattern set, flags, line); regex.c keeps the file-scope flag re_bad
between calls, threaded explicitly in coq/ReStateDefs.v, theorems C10_rset_make_seq_pure / C10_session_is_pure):
sessions of rset_make / regcomp / rset_find calls inside ONE probe process -- malformed patterns of every rejection
class followed by valid ones, valid after valid, sets of several patterns after a rejected set, matches with an
earlier slot after later compilations -- every answer compared with the same call in a fresh process, with the
threaded model and (valid patterns) judged by the reference matcher; the same through `vi -s -e` (:s, :g and
/pat/ addresses with rejected patterns followed by valid ones; final buffer = that of the script without the
rejected commands = the one predicted from the model).
thorough: additionally all pattern strings up to 4 tokens over a metacharacter alphabet against all
lines up to 3 characters over {a b _ space e-acute} (model vs implementation on all, reference on the
parse tree printed by the model).
"""
import itertools, json, os, glob, sys, threading
from concurrent.futures import ProcessPoolExecutor
import vlib
from props import relib
from props.relib import hx, req, parse_answer

GROUP = 're'
TRUSTED = ['the reference matcher Ref of tools/props/relib.py (independent backtracking over the generated tree; atoms re-implemented from the property text: code points, ASCII-only case folding, bracket ranges and classes, word = alnum, _ or non-ASCII)']

LONG_FAMILY = [(b'a*b', b'a'), (b'(ab)*c', b'ab'), (b'.*x', b'q'), (b'[a-c]+d', b'abc'), (b'(a|b)*c', b'ab'), (b'a+$', b'a'),
               ('é*x'.encode(), 'é'.encode()), (b'(a*)b', b'a'), (b'a{2,}b', b'a')]


def sample(rng, t, depth=0):
    """a string the tree can match (best effort)"""
    k = t[0]
    if k == 'nil':
        return b''
    if k == 'cat':
        return sample(rng, t[1]) + sample(rng, t[2])
    if k == 'alt':
        return sample(rng, t[1 + rng.below(2)])
    if k == 'atom':
        mn, mx = t[3], t[4]
        n = mn + (rng.below(3) if mx < 0 else rng.below(mx - mn + 1))
        out = b''
        for _ in range(n):
            if t[1] == 'chr':
                out += t[2]
            elif t[1] == 'any':
                out += rng.choice(relib.CHARS)
            elif t[1] == 'brk':
                for c in [b'a', b'b', b'c', b'A', b'1', b' ', b'_', b']', b'-', 'é'.encode(), 'à'.encode(), '中'.encode(), b'.', b'x', b'(', b')', b'[', b'*']:
                    cp, _ = relib.dec_at(c, 0)
                    if relib.brk_in(t[2][1:], cp, False):
                        out += c
                        break
        return out
    mn, mx = t[2], t[3]
    n = mn + (rng.below(2) if mx < 0 else rng.below(mx - mn + 1))
    return b''.join(sample(rng, t[4]) for _ in range(n))


def tree_size(t):
    k = t[0]
    if k in ('nil', 'atom'):
        return 1
    if k == 'grp':
        return 1 + tree_size(t[4])
    return 1 + tree_size(t[1]) + tree_size(t[2])


def est_count(t):
    """rnode_count, to keep programs small enough for the extracted model"""
    k = t[0]
    if k == 'nil':
        return 0
    if k == 'atom':
        n, mn, mx = 1, t[3], t[4]
    elif k == 'grp':
        n, mn, mx = est_count(t[4]) + 2, t[2], t[3]
    elif k == 'cat':
        return est_count(t[1]) + est_count(t[2])
    else:
        return est_count(t[1]) + est_count(t[2]) + 2
    if (mn, mx) == (0, 0):
        return 0
    if (mn, mx) == (1, 1):
        return n
    r = (mn + 1) * n + 1 if mx < 0 else (mn + mx) * n + mx - mn
    return r + (1 if mn == 0 else 0)


def gen_cases(ctx, res):
    rng = ctx.rng.fork('C10')      # hashed: consecutive VERIF_SEED values of the SplitMix64 in vlib are the same stream shifted by one draw
    out = []        # dict(flg, nsub, pats, cases, trees)
    ntrip = 0
    target = 20000 if ctx.quick else 120000
    g = relib.Gen(rng)
    while ntrip < target:
        npat = rng.choice([1, 1, 1, 2, 3])
        trees, pats = [], []
        for _ in range(npat):
            for attempt in range(20):
                t = g.top(rng.choice([1, 2, 2, 3]))
                if not relib.nullable_loop(t) and est_count(t) < 400 and tree_size(t) < 60:
                    break
            else:
                t = ('atom', 'chr', b'a', 1, 1)
            trees.append(t)
            pats.append(relib.render(t))
        wt = relib.wrap_set(trees)
        if any(relib.nullable_loop(t) for t in wt):
            continue
        nsub = min(9, 1 + max(relib.count_groups(t) for t in trees))
        flg = 1 if rng.below(4) == 0 else 0
        cases = []
        for _ in range(3):
            r = rng.below(10)
            if r < 5:
                s = relib.gen_line(rng, pats)[:6] + sample(rng, rng.choice(trees)) + relib.gen_line(rng, pats)[:6]
                if flg and rng.below(2):
                    s = s.swapcase() if s.isascii() else s
                if rng.below(3):
                    s += b'\n'
            else:
                s = relib.gen_line(rng, pats)
            nested = any(relib.nested_loops(t) for t in trees)
            if nested:
                s = s[:14]
            if not relib.valid_utf8(s):
                s = s.decode('utf-8', 'ignore').encode()
            cases.append((rng.choice([0, 0, 0, 2, 4, 6]), s))
        out.append({'flg': flg, 'nsub': nsub, 'pats': pats, 'cases': cases, 'trees': wt, 'kind': 'structured'})
        ntrip += len(cases)
    # aimed at rset.c's group bookkeeping (defect f534655): a bracket whose text contains parentheses, '[*' or a class in
    # first position, followed by real groups, alone and as the FIRST pattern of a set (grp[] of the later patterns)
    naim = 400 if ctx.quick else 4000
    for i in range(naim):
        b = rng.choice(relib.PBRKS)
        mn, mx = rng.choice([(1, 1), (1, 1), (1, -1), (0, 1)])
        t0 = ('atom', 'brk', b, mn, mx)
        shape = rng.below(4)
        if shape == 1:
            t0 = ('cat', t0, ('grp', 0, 1, 1, ('atom', 'chr', rng.choice([b'x', b'b', b'1']), 1, 1)))
        elif shape == 2:
            t0 = ('cat', ('grp', 0, 1, 1, t0), ('grp', 0, 1, 1, ('atom', 'chr', rng.choice([b'x', b'b']), 1, 1)))
        elif shape == 3:
            t0 = ('cat', ('atom', 'chr', rng.choice([b'a', b'_']), 1, 1), ('cat', t0, ('grp', 0, 0, 1, ('atom', 'any', b'', 1, 1))))
        trees = [relib.normalize(t0)]
        for _ in range(rng.choice([0, 1, 1, 2])):
            t1 = rng.choice([('atom', 'chr', rng.choice([b'y', b'1', b'c']), 1, 1),
                             ('grp', 0, 1, 1, ('atom', 'chr', rng.choice([b'y', b'c']), 1, 1)),
                             ('cat', ('atom', 'chr', b'c', 1, 1), ('grp', 0, 1, 1, ('atom', 'brk', rng.choice(relib.PBRKS), 1, 1)))])
            trees.append(relib.normalize(t1))
        if rng.below(3) == 0:
            trees.reverse()
        pats = [relib.render(t) for t in trees]
        wt = relib.wrap_set(trees)
        nsub = min(9, 1 + max(relib.count_groups(t) for t in trees))
        cases = []
        for _ in range(3):
            s = relib.gen_line(rng, pats)[:rng.below(4)] + sample(rng, rng.choice(trees)) + relib.gen_line(rng, pats)[:rng.below(4)]
            if not relib.valid_utf8(s):
                s = s.decode('utf-8', 'ignore').encode()
            cases.append((rng.choice([0, 0, 2, 4]), s + (b'\n' if rng.below(2) else b'')))
        out.append({'flg': 0, 'nsub': nsub, 'pats': pats, 'cases': cases, 'trees': wt, 'kind': 'structured'})
    # ill-formed pattern bytes (a stray continuation byte / a truncated lead byte as the first literal) on VALID multi-byte
    # lines, case sensitive: the engine tries only character starts (the `tried` positions of C10_sound /
    # C10_leftmost_priority), the reference does the same; and multi-byte literals directly before a repetition operator
    # on lines with characters that share the lead byte (the operator binds to the last CHARACTER).  Trees: printed by
    # the model's parser (kind 'stray' / 'mbrep').
    srng = ctx.rng.fork('C10-stray')
    for e in relib.gen_stray(srng, 150 if ctx.quick else 1500):
        out.append({'flg': 0, 'nsub': 3, 'pats': e['pats'], 'cases': [(srng.choice([0, 0, 2, 4, 6]), l) for l in e['lines']], 'trees': None, 'kind': 'stray'})
    for e in relib.gen_mbrep(srng, 150 if ctx.quick else 1500):
        out.append({'flg': srng.below(2), 'nsub': 2, 'pats': e['pats'], 'cases': [(srng.choice([0, 0, 2, 4, 6]), l) for l in e['lines']], 'trees': None, 'kind': 'mbrep'})
    # long lines that hit the recursion-depth limit
    nlong = 40 if ctx.quick else 400
    for i in range(nlong):
        p, unit = LONG_FAMILY[i % len(LONG_FAMILY)]
        n = rng.choice([100, 200, 250, 255, 256, 257, 258, 300, 400, 513])
        tail = rng.choice([b'', b'b', b'c', b'x', b'd', b'\n', b'b\n'])
        line = (unit * n)[:n * len(unit)] + tail
        out.append({'flg': 0, 'nsub': 2, 'pats': [p], 'cases': [(0, line)], 'trees': None, 'kind': 'long'})
    return out


def gen_valid_set(rng, g, npat=None):
    """one grammatical pattern set with lines built around a sample of it (as in gen_cases)"""
    npat = npat or rng.choice([1, 1, 1, 2, 3])
    for _try in range(50):
        trees, pats = [], []
        for _ in range(npat):
            for attempt in range(20):
                t = g.top(rng.choice([1, 2, 2, 3]))
                if not relib.nullable_loop(t) and est_count(t) < 300 and tree_size(t) < 40:
                    break
            else:
                t = ('atom', 'chr', b'a', 1, 1)
            trees.append(t)
            pats.append(relib.render(t))
        wt = relib.wrap_set(trees)
        if any(relib.nullable_loop(t) for t in wt) or any(p == b'' for p in pats):
            continue
        nsub = min(9, 1 + max(relib.count_groups(t) for t in trees))
        flg = 1 if rng.below(4) == 0 else 0
        cases = []
        for _ in range(rng.choice([1, 2, 2, 3])):
            s = relib.gen_line(rng, pats)[:6] + sample(rng, rng.choice(trees)) + relib.gen_line(rng, pats)[:6]
            if any(relib.nested_loops(t) for t in trees):
                s = s[:14]
            if not relib.valid_utf8(s):
                s = s.decode('utf-8', 'ignore').encode()
            s = s.replace(b'\n', b'') + (b'\n' if rng.below(3) else b'')
            cases.append((rng.choice([0, 0, 0, 2, 4, 6]), s))
        return {'flg': flg, 'nsub': nsub, 'pats': pats, 'cases': cases, 'trees': wt, 'kind': 'session'}
    return None


def gen_sessions(ctx):
    """sequences of compilations and matches for ONE process.  -> list of (ops, units) where units =
    [(index of the M op, [indices of its F ops], valid-set dict)] for the reference matcher"""
    rng = ctx.rng.fork('C10-seq')
    g = relib.Gen(rng)
    nsess = 700 if ctx.quick else 6000
    out = []
    texts = []
    while len(out) < nsess:
        ops, units = [], []
        nslot = [0]

        def add_valid(v, defer=False):
            mi = len(ops)
            ops.append(('M', v['flg'], list(v['pats'])))
            sl = nslot[0]
            nslot[0] += 1
            fs = [('F', sl, v['nsub'], cf, cl) for cf, cl in v['cases']]
            u = [mi, [], v, fs if defer else []]
            if not defer:
                for f in fs:
                    u[1].append(len(ops))
                    ops.append(f)
            units.append(u)
            return sl

        def add_bad(multi=False):
            p = relib.gen_bad_pattern(rng, texts[-30:])
            ps = [p]
            if multi:
                w = gen_valid_set(rng, g, rng.choice([1, 2]))
                ps = list(w['pats']) if w else []
                ps.insert(rng.below(len(ps) + 1), p)
                if rng.below(4) == 0:
                    ps.insert(rng.below(len(ps) + 1), None)
            ops.append(('M', rng.below(2), ps))
            nslot[0] += 1
            return p

        shape = rng.below(8)
        vs = [gen_valid_set(rng, g) for _ in range(3)]
        if any(v is None for v in vs):
            continue
        texts.extend(p for v in vs for p in v['pats'])
        if shape <= 1:                       # rejected pattern(s), then valid ones
            for _ in range(rng.choice([1, 1, 2, 3])):
                add_bad()
            for v in vs[:rng.choice([1, 2])]:
                add_valid(v)
        elif shape == 2:                     # valid, rejected, the same valid set again, matches with the first slot afterwards
            add_valid(vs[0], defer=True)
            add_bad()
            add_valid(vs[0])
        elif shape == 3:                     # valid after valid
            for v in vs[:rng.choice([2, 3])]:
                add_valid(v, defer=rng.below(3) == 0)
        elif shape == 4:                     # a rejected SET of several patterns, then a valid set of several patterns
            add_bad(multi=True)
            w = gen_valid_set(rng, g, rng.choice([2, 3]))
            if w is None:
                continue
            add_valid(w)
            add_valid(vs[0])
        elif shape == 5:                     # bare regcomp calls in between (stag.c)
            p = relib.gen_bad_pattern(rng, texts[-30:])
            if not p.endswith(b'\\'):
                ops.append(('G', p))
            add_valid(vs[0])
            if not vs[1]['pats'][0].endswith(b'\\'):
                ops.append(('G', vs[1]['pats'][0]))
            add_bad()
            if not vs[2]['pats'][0].endswith(b'\\'):
                ops.append(('G', vs[2]['pats'][0]))
            add_valid(vs[1])
        elif shape == 6:                     # a match request with a rejected slot, alternating rejected / valid
            add_bad()
            ops.append(('F', 0, 2, 0, vs[0]['cases'][0][1]))
            add_valid(vs[0])
            add_bad()
            add_valid(vs[1])
            add_bad(multi=True)
            add_valid(vs[2])
        else:                                # the members of c11's must-reject corpus, each followed by a valid set
            from props import c11
            ps = rng.choice(c11.MUST_REJECT)
            ops.append(('M', 0, list(ps)))
            nslot[0] += 1
            add_valid(vs[0])
            ps = rng.choice(c11.MUST_REJECT)
            ops.append(('M', 0, list(ps)))
            nslot[0] += 1
            add_valid(vs[1])
        # deferred matches: after everything else was compiled
        for u in units:
            for f in u[3]:
                u[1].append(len(ops))
                ops.append(f)
        out.append((ops, [(u[0], u[1], u[2]) for u in units]))
    return out


def gen_ex_scripts(ctx):
    """ex scripts: commands with rejected patterns followed by commands with valid ones"""
    rng = ctx.rng.fork('C10-ex')
    g = relib.Gen(rng)
    n = 160 if ctx.quick else 1500
    out = []
    texts = []
    while len(out) < n:
        vs = [gen_valid_set(rng, g, 1) for _ in range(3)]
        if any(v is None for v in vs):
            continue
        texts.extend(v['pats'][0] for v in vs)
        lines = []
        for v in vs:
            for cf, cl in v['cases']:
                l = cl.replace(b'\n', b'')
                lines.append(l + b'\n')
        lines = lines[:6]
        while len(lines) < 3:
            lines.append(relib.gen_line(rng, texts[-3:]).replace(b'\n', b'') + b'\n')
        if rng.below(2):
            lines.append(b'foo aab bar\n')
        cmds = []
        for v in vs[:rng.choice([1, 2, 3])]:
            for _ in range(rng.choice([1, 1, 2])):
                bp = relib.gen_bad_pattern(rng, texts[-30:])
                cmds.append(rng.choice([('s', 1 + rng.below(len(lines)), bp), ('g', bp), ('a', 1 + rng.below(len(lines) - 1), bp)]))
            p = v['pats'][0]
            k = rng.below(4)
            cmds.append(('s', 1 + rng.below(len(lines)), p) if k < 2 else (('g', p) if k == 2 else ('a', 1 + rng.below(len(lines) - 1), p)))
        cmds = [c for c in cmds if relib.ex_cmd_bytes(c) is not None]
        if not cmds:
            continue
        out.append({'ic': vs[0]['flg'], 'lines': lines, 'cmds': cmds})
    return out


def corpus_cases():
    out = []
    for f in sorted(glob.glob(os.path.join(vlib.VERIF, 'corpus', 'C10-*.json'))):
        d = json.load(open(f))
        for e in d.get('cases', []):
            out.append({'flg': e.get('flg', 0), 'nsub': e.get('nsub', 3), 'pats': [vlib.unhx(p) for p in e['pats']],
                        'cases': [(c[0], vlib.unhx(c[1])) for c in e['cases']], 'trees': None, 'kind': 'corpus'})
    return out


def judge(item):
    """the property on one answered request; item = (case dict, parsed answer) -> list of (caseindex, what, expected)"""
    sys.setrecursionlimit(200000)
    e, d = item
    bad = []
    stats = {'ref': 0, 'budget': 0, 'cut': 0, 'matched': 0}
    trees = e['trees']
    if trees is None or d['status'] != 'ok':
        return bad, stats
    icase = bool(e['flg'] & 1)
    nsub = e['nsub']
    for k, ((cf, line), c) in enumerate(zip(e['cases'], d['cases'])):
        if c['kind'] != 'set':
            continue
        try:
            if c['cut'] and c.get('cut256') != 0:
                stats['cut'] += 1
                if c['set'] >= 0:
                    so = c['g'][0][0]
                    if not relib.ref_can(trees[c['set']], line, cf, so, c['g'], nsub, icase):
                        bad.append((k, 'the reported spans are not a parse of the pattern at that start (soundness, depth cut active)', None))
                continue
            i, st, sp = relib.ref_find(trees, line, cf, nsub, icase)
            stats['ref'] += 1
            if c['set'] < 0:
                if i >= 0:
                    bad.append((k, 'no match reported although no cut is needed within the documented depth and pattern %d matches at %d' % (i, st), [i, sp]))
                continue
            stats['matched'] += 1
            so, eo = c['g'][0]
            if i < 0:
                bad.append((k, 'the reported span is not a match of the expression (soundness)', None))
            elif st != so:
                bad.append((k, 'not the leftmost match: reference starts at %d, reported %d' % (st, so) if st < so else
                            'reported start %d is not a match, reference starts at %d' % (so, st), [i, sp]))
            elif i != c['set']:
                bad.append((k, 'wrong pattern index: reference %d, reported %d' % (i, c['set']), [i, sp]))
            elif sp[0] != (so, eo):
                bad.append((k, 'not the greedy / left-biased parse: reference span %s, reported %s' % (sp[0], (so, eo)), [i, sp]))
            elif sp != c['g']:
                bad.append((k, 'group spans differ from the chosen parse: reference %s, reported %s' % (sp, c['g']), [i, sp]))
        except relib.Budget:
            stats['budget'] += 1
        except RecursionError:
            stats['budget'] += 1
    return bad, stats


def judge_chunk(items):
    return [judge(it) for it in items]


def exhaustive_requests(ctx):
    toks = [b'a', b'b', b'.', b'*', b'+', b'?', b'(', b')', b'|', b'[', b']', b'^', b'$', b'\\<', b'\\>', b'{', b'1', b',', b'}']
    chars = [b'a', b'b', b'_', b' ', 'é'.encode()]
    lines = [b''.join(t) for n in range(0, 4) for t in itertools.product(chars, repeat=n)]
    out = []
    for n in range(1, 5):
        for tup in itertools.product(toks, repeat=n):
            p = b''.join(tup)
            out.append({'flg': 0, 'nsub': 3, 'pats': [p], 'cases': [(f, l) for l in lines for f in (0, 6)], 'trees': None, 'kind': 'exhaustive'})
    return out


def run_sequences(ctx, res, probe, model, env, sessions=None, ex_scripts=None):
    """the matcher as a function of its arguments: sequences of calls in one process and in one editor session"""
    if sessions is None:
        sessions = gen_sessions(ctx)
    got = relib.check_sessions(res, [('probe', probe)], model, [ops for ops, _ in sessions], env=env)
    res.extra['sessions'] = len(sessions)
    # the reference matcher on the answers given inside the sessions (valid sets only)
    nj = 0
    nrej = 0
    for (ops, units), ans in zip(sessions, got or []):
        if ans is None:
            continue
        for (mi, fis, v) in units:
            a = ans[mi]
            if a.startswith('rej'):
                nrej += 1
                if nrej > 3:
                    continue
                res.violation({'what': 'a pattern (set) of the accepted grammar is rejected when it is compiled after other patterns in the same process '
                                       '(every match of it is missed)', 'input': [relib.q_inp(ops[:mi + 1])], 'observed': a, 'expected': 'compiles'})
                continue
            if not a.startswith('ok') or not fis:
                continue
            e = dict(v, cases=[(ops[i][3], ops[i][4]) for i in fis], kind=None)
            d = parse_answer(a + ' | ' + ' | '.join(ans[i] for i in fis))
            bad, st = judge((e, d))
            nj += st['ref']
            for (k, what, exp) in bad[:2]:
                res.violation({'what': 'in a sequence of compilations in one process: ' + what, 'input': [relib.q_inp(ops[:fis[k] + 1])],
                               'expected': exp, 'observed': ans[fis[k]]})
            for c in d['cases']:
                if c['kind'] == 'set' and c['set'] is not None and c['set'] >= 0:
                    res.nontriv('Q/' + relib.q_op(ops[mi]) + '/' + c['raw'])
    res.extra['session_answers_judged_by_reference'] = nj
    # the same through the editor
    vi = vlib.build_vi(asan=False)
    if ex_scripts is None:
        scripts = gen_ex_scripts(ctx)
    else:
        scripts = []      # replay of an ex script: re-run it literally
        for r in ex_scripts:
            relib.replay_ex_item(res, vi, r)
    if scripts:
        relib.check_ex_sequences(res, vi, probe, model, scripts, env=env)
    if ex_scripts is None:
        # ill-formed pattern bytes / multi-byte literals before a repetition operator, on valid UTF-8 buffers (se noic and se ic)
        relib.check_ex_utf8(res, vi, model, relib.gen_ex_utf8(ctx.rng.fork('C10-ex-utf8'), 40 if ctx.quick else 400), env=env)


def run(ctx):
    res = ctx.res
    probe = vlib.build_probe('re', includes=['regex'])
    model = ctx.model('re')
    res.rule = ('one evaluation = one (pattern set, line, flags) triple answered by the implementation, compared with the model and judged by the reference matcher; '
                'non-trivial = a match is reported or the depth limit cut a branch; distinct = distinct (patterns, line, flags)')
    sessions, ex_scripts = None, None
    if ctx.replay:
        rp = json.load(open(ctx.replay))
        rin = rp.get('input', [])
        items = [{'flg': r['flg'], 'nsub': r['nsub'], 'pats': [vlib.unhx(p) for p in r['pats']], 'cases': [(c[0], vlib.unhx(c[1])) for c in r['cases']],
                  'trees': None, 'kind': 'replay'} for r in rin if 'pats' in r]
        sessions = [(relib.q_parse_line(r['session']), []) for r in rin if 'session' in r]
        ex_scripts = [r for r in rin if 'ex_script' in r]
    else:
        items = corpus_cases() + gen_cases(ctx, res)
        if not ctx.quick:
            items += exhaustive_requests(ctx)
    lines = [req(e['flg'], e['nsub'], e['pats'], e['cases']) for e in items]
    env = {'PROBE_RE_MAXRES': '200000'}

    def inp(e, k=None):
        cs = e['cases'] if k is None else [e['cases'][k]]
        return {'flg': e['flg'], 'nsub': e['nsub'], 'pats': [hx(x) for x in e['pats']], 'cases': [[cf, hx(cl)] for cf, cl in cs],
                'pattern_text': [x.decode('utf-8', 'replace') for x in e['pats']], 'line_text': [cl.decode('utf-8', 'replace') for _, cl in cs]}

    pans, pinc = relib.run_all(probe, lines, chunk=400, timeout=600, env=env)
    for (j, rc, err) in pinc[:5]:
        res.violation({'what': 'probe crashed or hung on this request (rc=%s)' % rc, 'input': [inp(items[j])], 'observed': (err or '')[-800:]})
    mans = [None] * len(lines)
    if model:
        mans, minc = relib.run_all(model, lines, chunk=400, timeout=900, env=env)
        for (j, rc, err) in minc[:5]:
            res.disagree({'what': 'model driver crashed or hung on this request (rc=%s)' % rc, 'input': [inp(items[j])], 'stderr': (err or '')[-500:]})
    # trees for items that have none (corpus, replay, long lines, exhaustive): printed by the model's parser
    need = [j for j, e in enumerate(items) if e['trees'] is None]
    if model and need:
        tl = ['T ' + ','.join(hx(x) for x in items[j]['pats']) for j in need]
        tans, _ = relib.run_all(model, tl, chunk=2000, timeout=600, env=env)
        for j, a in zip(need, tans):
            if a and a.startswith('('):
                try:
                    t = relib.parse_sexp(a)          # (grp 1 1 1 (alt (grp g0 ..) (alt ...)))
                    alts = relib.flat(t[4], 'alt')
                    if not any(relib.nullable_loop(x) for x in alts):
                        items[j]['trees'] = alts
                    else:
                        res.count('nullable-loop pattern kept out of the reference comparison')
                except Exception:
                    pass
    # the hypothesis of C10_rset_index (RsetDefs.rset_shape: combined pattern parsed completely, one wrapper group per
    # pattern under the outer group, re_groupcount = the parser's group count) evaluated for every set whose patterns
    # were rendered from the generator's own trees (= grammatical patterns) and for the corpus
    if model:
        sj = [j for j, e in enumerate(items) if e['kind'] in ('structured', 'corpus')]
        sans, _ = relib.run_all(model, ['S ' + ','.join(hx(x) for x in items[j]['pats']) for j in sj], chunk=2000, timeout=600, env=env)
        nshape = 0
        for j, a in zip(sj, sans):
            if a == 'shape=1':
                nshape += 1
            elif a == 'shape=0' and (pans[j] or '').startswith('ok'):
                res.disagree({'what': 'the bookkeeping check rset_shape (hypothesis of C10_rset_index) fails for an accepted grammatical pattern set: '
                                      're_groupcount differs from the parser\'s group count or the tree is not outer(alt(wrapper...))',
                              'input': [inp(items[j])], 'model': a})
        res.extra['rset_shape_true'] = nshape
        res.extra['rset_shape_evaluated'] = len(sj)
    parsed = []
    ndis = 0
    for j, e in enumerate(items):
        a = pans[j]
        if a is None:
            parsed.append(None)
            continue
        d = parse_answer(a)
        parsed.append(d)
        res.count(e['kind'])
        if d['status'] == 'rej' and e['kind'] in ('structured', 'long', 'mbrep'):
            res.violation({'what': 'a pattern of the accepted grammar is rejected', 'input': [inp(e)], 'observed': a, 'expected': 'compiles'})
        for k, c in enumerate(d['cases']):
            res.evaluations += 1
            if c['kind'] == 'timeout':
                res.violation({'what': 'rset_find exceeded the CPU limit on a pattern without nullable loop', 'input': [inp(e, k)], 'observed': c['raw']})
            elif (c['set'] is not None and c['set'] >= 0) or c['cut']:
                res.nontriv(lines[j].split(' ', 4)[3] + '/' + hx(e['cases'][k][1]) + '/%d' % e['cases'][k][0])
                if c['cut']:
                    res.count('triples with depth cuts')
        if mans[j] is not None and mans[j] != a and 'timeout' not in a:
            ndis += 1
            res.disagree({'what': 'model and implementation differ (spans, pattern index or depth-cut counter)', 'input': [inp(e)], 'implementation': a[:600], 'model': mans[j][:600]})
    res.extra['model_vs_probe_differences'] = ndis
    # "within the documented backtracking depth": the depth is a constant of the specification (256).  For
    # every triple on which the implementation cut a branch, ask the model run with depth 256 whether a
    # cut is needed at all; if not, the implementation's answer is judged in full (nothing may be missed).
    withcut = [j for j, d in enumerate(parsed) if d is not None and any(c.get('cut') for c in d['cases'])]
    if model and withcut:
        dl = [req(items[j]['flg'], items[j]['nsub'], items[j]['pats'], items[j]['cases'], kind='D') for j in withcut]
        dans, _ = relib.run_all(model, dl, chunk=50, timeout=600, env=env)
        for j, a in zip(withcut, dans):
            if a is None:
                continue
            dd = parse_answer(a)
            for c, c2 in zip(parsed[j]['cases'], dd['cases']):
                c['cut256'] = c2.get('cut')
    # the reference matcher, in worker processes
    todo = [(j, (dict(e, kind=None), parsed[j])) for j, e in enumerate(items) if parsed[j] is not None and e['trees'] is not None]
    if not ctx.quick:
        # the exhaustive items are judged on a sample (the reference is slow); all of them are corresponded above
        todo = [x for n, x in enumerate(todo) if items[x[0]]['kind'] != 'exhaustive' or n % 37 == 0]
    chunks = [todo[i:i + 60] for i in range(0, len(todo), 60)]
    stats = {'ref': 0, 'budget': 0, 'cut': 0, 'matched': 0}
    with ProcessPoolExecutor(max_workers=16) as ex:
        results = list(ex.map(judge_chunk, [[it for _, it in ch] for ch in chunks]))
    found = []
    for ch, rs in zip(chunks, results):
        for (j, _), (bad, st) in zip(ch, rs):
            for k2, v in st.items():
                stats[k2] += v
            for (k, what, exp) in bad:
                found.append((sum(len(x) for x in items[j]['pats']) + len(items[j]['cases'][k][1]), j, k, what, exp))
    # report the smallest failing inputs first (the generator is the shrinker: small patterns are frequent)
    found.sort(key=lambda x: x[:3])
    res.extra['oracle_failures'] = len(found)
    for (_, j, k, what, exp) in found[:20]:
        e = items[j]
        res.violation({'what': what, 'input': [inp(e, k)], 'expected': exp, 'observed': parsed[j]['cases'][k]['raw'],
                       'replay_note': 'python3 tools/check.py C10 --replay <this file>'})
    res.extra['reference_stats'] = stats
    run_sequences(ctx, res, probe, model, env, sessions, ex_scripts)
    for j in range(0, len(items), max(1, len(items) // 5)):
        res.sample({'request': inp(items[j]), 'answer': (pans[j] or '')[:200]})
