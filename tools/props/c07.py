"""C07 -- vi cursor motions land where the reference motion semantics say.

Implementation side: the real binary in vi mode (vi -v); keys = motion program, then a marker
inserted at the cursor (`i@<ESC>`), `:w! out`, `:q!`.  The marker's place in the written file
reveals (row, character offset); the rest of the file must be the original text.
Correspondence: the extracted Coq model (coq/MotDefs.v + coq/MotCountDefs.v via ocaml/drv_mot.ml) on the same programs; counts of the
streams `bigcount` / `count-edge` go to the model as the typed digits (its own vi_prefix reads them).
Oracle: `Ref` below -- an independent Python reference of the motion semantics over code points
and display columns (flat character stream with line terminators, character classes, column
tables), plus the invariants of the property (cursor on an existing character, text unchanged).
Streams: corpus; fixed small buffers x every position x every key; random programs (general, sticky-column
walks, f/t chains, bracket-pair texts); `long-line`: lines of 253..400 characters (the line limit xlim = 256
of ren_position() counts the terminator) with wide / multi-byte characters and tabs, N| / $ / counted l and
j / k into and out of them; `sticky3`: remembered column != cursor column, then a motion that succeeds without
moving (chosen with the reference), then j / k; `bigcount`: counts of 9 / 10 / 11 / 12 / 20 digits (every tenth digit) in front
of every motion key, `count-edge`: counts next to the distance to the edge of the line / buffer / window.
"""
import json, unicodedata
import vlib

GROUP = 'vi'
TRUSTED = ['tools/props/c07.py class Ref: independent Python reference of the vi motion semantics (oracle of the failing-input search)',
           'Python unicodedata.east_asian_width for the width of the generated wide characters']

MARK = '@'
SPACES = ' \t\n\r\v\f'
KEYS0 = list('hljk0^$|wbeWBE;,G+-_%{}HML') + ['f', 'F', 't', 'T']


# ------------------------------------------------------------------------------------------
# the independent reference

def cls(ch):
    if ch == '\n':
        return 'n'
    if ch in SPACES:
        return 's'
    if ord(ch) > 0x7f or (ch.isascii() and ch.isalnum()) or ch == '_':
        return 'w'
    return 'p'


def wid(ch, col):
    if ch == '\t':
        return 8 - col % 8
    if unicodedata.east_asian_width(ch) in 'WF':
        return 2
    return 1        # combining and unprintable characters are drawn as a one-column placeholder


def coltab(line):
    pos, c = [], 0
    for ch in line:
        pos.append(c)
        c += wid(ch, c)
    return pos


class Ref:
    """lines: list of str (no terminators).  Cursor (r, o); o indexes the characters of the line."""

    def __init__(self, lines, rows):
        self.L = lines
        self.rows = rows
        self.r = self.o = 0
        self.xcol = 0
        self.top = 0
        self.last = None          # (cmd, char) of the last f F t T
        self.flat = ''.join(l + '\n' for l in lines)
        self.C = ''.join(cls(c) for c in self.flat)
        self.starts = []
        p = 0
        for l in lines:
            self.starts.append(p)
            p += len(l) + 1

    # -- helpers
    def clampo(self, r, o):
        n = len(self.L[r])
        return max(0, min(o, n - 1))

    def to_flat(self, r, o):
        return self.starts[r] + o

    def from_flat(self, p):
        r = 0
        lo, hi = 0, len(self.starts) - 1
        while lo < hi:
            mid = (lo + hi + 1) // 2
            if self.starts[mid] <= p:
                lo = mid
            else:
                hi = mid - 1
        return lo, p - self.starts[lo]

    def indent(self, r):
        l = self.L[r]
        k = 0
        while k < len(l) and l[k] in SPACES:
            k += 1
        return self.clampo(r, k)          # an all-blank line: its last blank

    def col2off(self, r, col):
        pos = coltab(self.L[r])
        o = 0
        for i, p in enumerate(pos):
            if p <= col:
                o = i
        return o

    def off2col(self, r, o):
        pos = coltab(self.L[r])
        return pos[o] if o < len(pos) else 0

    def fix_top(self):
        top, row, rows = self.top, self.r, self.rows
        if top > row:
            top = max(0, row - rows // 2) if top - rows // 2 > row else row
        if top + rows <= row:
            top = row - rows // 2 if top + rows + rows // 2 <= row else row - rows + 1
        self.top = top

    # -- word motions on the flat class string; return (flat index, failed)
    def same(self, a, k, big):
        return (a not in 'sn') if big else (a == k)

    def w1(self, i, big):
        C, N = self.C, len(self.C)
        j = i
        if C[i] not in 'sn':
            k = C[i]
            while j < N and self.same(C[j], k, big):
                j += 1
        nl, q = 0, j
        while q < N and C[q] in 'sn':
            if C[q] == 'n':
                nl += 1
                if nl == 2:
                    return q, False
            q += 1
        if q >= N:
            return N - 1, True
        return q, False

    def e1(self, i, big):
        C, N = self.C, len(self.C)
        q = i + 1 if C[i] not in 'sn' else i
        if q >= N:
            return i, True
        nl = 1 if C[q] == 'n' else 0
        while C[q] in 'sn':
            if q + 1 >= N:
                return q, True
            q += 1
            if C[q] == 'n':
                nl += 1
            if nl == 2:
                return q, False
        k = C[q]
        while q + 1 < N and self.same(C[q + 1], k, big):
            q += 1
        return q, False

    def b1(self, i, big):
        C = self.C
        if C[i] not in 'sn':
            if i == 0:
                return 0, True
            q = i - 1
            nl = 1 if C[q] == 'n' else 0
        else:
            q, nl = i, 0
        while C[q] in 'sn':
            if q == 0:
                return 0, True
            q -= 1
            if C[q] == 'n':
                nl += 1
            if nl == 2:
                return q + 1, False
        k = C[q]
        while q - 1 >= 0 and self.same(C[q - 1], k, big):
            q -= 1
        return q, False

    def pair(self, r, o):
        line = self.L[r]
        k = o
        while k < len(line) and line[k] not in '()[]{}':
            k += 1
        if k >= len(line):
            return None
        ch = line[k]
        idx = '()[]{}'.index(ch)
        other = '()[]{}'[idx ^ 1]
        step = -1 if idx & 1 else 1
        p = self.to_flat(r, k) + step
        dep = 1
        while 0 <= p < len(self.flat):
            c = self.flat[p]
            if c == other:
                dep -= 1
            elif c == ch:
                dep += 1
            if dep == 0:
                return self.from_flat(p)
            p += step
        return None

    def find(self, cmd, ch, n, r, o):
        line = self.L[r]
        fwd = cmd in 'ft'
        if n < 0:
            fwd, n = not fwd, -n
        if fwd:
            hits = [i for i in range(o + 1, len(line)) if line[i] == ch]
        else:
            hits = [i for i in range(o - 1, -1, -1) if line[i] == ch]
        if len(hits) < n:
            return None
        i = hits[n - 1]
        if cmd in 'tT':
            i += -1 if fwd else 1
        return i

    # -- one command
    def goto(self, n):
        if self.L and 1 <= n <= len(self.L):
            self.r, self.o = n - 1, 0
            self.fix_top()
            self.xcol = self.off2col(self.r, self.o)

    def target(self, cnt, key, arg=None, has=None):
        """The raw target of a motion from the cursor: None when the reference defines the motion
        as failing, else (row, off) with off None for a line-wise motion.  off is raw: it may be
        the terminator's index (len(line)) or one more (^ on an all-blank line); landing clamps it."""
        L = self.L
        n = len(L)
        if has is None:
            has = cnt > 0
        c = cnt if cnt > 0 else 1
        r, o = self.r, self.o
        if key in '+j':
            return max(0, min(r + c, n - 1)), None
        if key in '-k':
            return max(r - c, 0), None
        if key == '_':
            return max(0, min(r + c - 1, n - 1)), None
        if key == 'G':
            return max(0, (min(c - 1, n - 1) if has else n - 1)), None
        if key == 'H':
            return max(0, min(self.top + c - 1, n - 1)), None
        if key == 'L':
            return max(0, min(self.top + self.rows - c, n - 1)), None
        if key == 'M':
            return max(0, min(self.top + self.rows // 2, n - 1)), None
        if key == '%' and has:
            if c > 100:
                return None
            return max(0, n - 1) * c // 100, None
        if key in 'fFtT;,':
            if key in ';,':
                if self.last is None:
                    return None
                cmd, ch = self.last
                k = c if key == ';' else -c
            else:
                cmd, ch, k = key, arg, c
                self.last = (cmd, ch)
            if not L:
                return None
            i = self.find(cmd, ch, k, r, o)
            if i is None:
                return None
            return r, i
        if not L:
            # the empty buffer: h l w b e ... do not fail and do not move; % fails
            return None if key == '%' else (0, 0)
        ln = L[r]
        if key == 'h':
            return r, max(0, o - c)
        if key == 'l':
            return r, self.clampo(r, o + c)
        if key == ' ':
            return r, min(o + c, len(ln))
        if key == '\b':
            return r, max(0, o - c)
        if key == '0':
            return r, 0
        if key == '^':
            k = 0
            while k < len(ln) and ln[k] in SPACES:
                k += 1
            return r, (k if k < len(ln) else len(ln) + 1)
        if key == '$':
            return r, len(ln)
        if key == '|':
            pos = coltab(ln + '\n')
            k = 0
            for i, p in enumerate(pos):
                if p <= c - 1:
                    k = i
            return r, k
        if key in 'wWeEbB':
            p = self.to_flat(r, o)
            f = {'w': self.w1, 'e': self.e1, 'b': self.b1}[key.lower()]
            for _ in range(c):
                p, failed = f(p, key.isupper())
                if failed:
                    break
            return self.from_flat(p)
        if key in '{}':
            for _ in range(c):
                r0 = r
                if key == '}':
                    while r < n and L[r] == '':
                        r += 1
                    while r < n and L[r] != '':
                        r += 1
                else:
                    while r >= 0 and L[r] == '':
                        r -= 1
                    while r >= 0 and L[r] != '':
                        r -= 1
                r = max(0, min(r, n - 1))
                if r == r0:          # one step is a function of the row alone: further steps stay here
                    break
            return r, 0
        if key == '%':
            return self.pair(r, o)
        raise ValueError(key)

    def motion(self, cnt, key, arg=None):
        """Returns False when the reference defines the motion as failing (cursor stays)."""
        t = self.target(cnt, key, arg)
        if t is None:
            return False
        if not self.L:
            return True
        r, o = t
        if o is None:
            o = self.col2off(r, self.xcol) if key in 'jk' else self.indent(r)
        o = self.clampo(r, o)
        self.r, self.o = r, o
        if key == '|':
            self.xcol = (cnt if cnt > 0 else 1) - 1
        elif key not in 'jk':
            self.xcol = self.off2col(r, o)
        self.fix_top()
        return True

    def run(self, prog):
        for c in prog:
            if c[0] == 'g':
                self.goto(c[1])
            else:
                self.motion(c[1], c[2], c[3] if len(c) > 3 else None)
        return self.r, self.o


# ------------------------------------------------------------------------------------------
# programs

def keys_of(prog):
    out = b''
    for c in prog:
        if c[0] == 'g':
            out += b':%d\n' % c[1]
        else:
            if c[1]:
                out += b'%d' % c[1]
            out += c[2].encode()
            if len(c) > 3:
                out += c[3].encode('utf-8')
    return out


KEYFORM_FROM = 1000000      # counts from here on always go to the model as typed keys (the model's own vi_prefix reads the digits)


def model_req(text, rows, prog, keyform=False):
    """m:<count>:<key>[:<char>] = MotDefs.Mot with the count as a number; k:<digits>:<key>[:<char>] = the keys as typed,
    parsed by MotCountDefs.parse_motion (vi_prefix over any number of digits, vi_cnt, the key table)"""
    w = ['mot', str(rows - 1), vlib.hx(text.encode('utf-8'))]
    for c in prog:
        if c[0] == 'g':
            w.append('g:%d' % c[1])
            continue
        f = 'k' if (c[1] >= KEYFORM_FROM or (keyform and c[1] > 0)) else 'm'
        if len(c) > 3:
            w.append('%s:%d:%d:%s' % (f, c[1], ord(c[2]), c[3].encode('utf-8').hex()))
        else:
            w.append('%s:%d:%d' % (f, c[1], ord(c[2])))
    return ' '.join(w)


def lines_of(text):
    if text == '':
        return []
    ls = text.split('\n')
    if ls[-1] == '':
        ls.pop()
    return ls


def observe(exe, text, rows, prog):
    """Run the real editor; returns ('ok', row, off, text_without_marker) or ('bad', description)."""
    keys = keys_of(prog) + b'i' + MARK.encode() + b'\x1b:w! out\n:q!\n'
    files = {'f': text.encode('utf-8')}
    r = vlib.run_vi(exe, keys, files=files, args=['f'], readback=['out'], rows=rows, cols=80, timeout=20)
    if r.timed_out:
        r = vlib.run_vi(exe, keys, files=files, args=['f'], readback=['out'], rows=rows, cols=80, timeout=60)
        if r.timed_out:
            return ('bad', 'editor hangs (timeout reproduced with a 60 s limit)')
    if r.crashed():
        r2 = vlib.run_vi(exe, keys, files=files, args=['f'], readback=['out'], rows=rows, cols=80, timeout=60)
        if r2.crashed():
            return ('bad', 'editor crashed: rc=%s %s' % (r2.rc, r2.err[-300:]))
        r = r2
    out = r.files.get('out')
    if out is None:
        return ('bad', 'no file written')
    try:
        s = out.decode('utf-8')
    except UnicodeDecodeError:
        return ('bad', 'written file is not valid UTF-8: %s' % out.hex())
    if s.count(MARK) != 1:
        return ('bad', 'marker occurs %d times in %r' % (s.count(MARK), s))
    p = s.index(MARK)
    row = s.count('\n', 0, p)
    off = p - (s.rfind('\n', 0, p) + 1)
    return ('ok', row, off, s[:p] + s[p + 1:])


def norm_text(text):
    if text == '':
        return '\n'          # the marker insertion creates the first line
    return text if text.endswith('\n') else text + '\n'


ASCII_WORDS = ['a', 'ab', 'foo', 'x1', 'Z_9', 'bar']
PUNCT = ['.', ',', '-', '+=', '(', ')', '[', ']', '{', '}', '((', '))', '#', '"']
BLANKS = [' ', ' ', '  ', '\t', ' \t', '   ']
MB = ['é', 'Ωx', 'я', '€', '中', 'ああ', '한', 'Ａ', '\U00010400', '\U0001d400',
      'é', 'ö́', 'a‌b', 'été']


def gen_line(rng, kind=None):
    k = kind if kind is not None else rng.below(12)
    if k == 0:
        return ''
    if k == 1:
        return rng.choice(BLANKS)
    n = rng.range(1, 7)
    out = rng.choice(BLANKS) if rng.chance(1, 4) else ''
    for i in range(n):
        t = rng.below(10)
        if t < 4:
            out += rng.choice(ASCII_WORDS)
        elif t < 6:
            out += rng.choice(PUNCT)
        elif t < 8:
            out += rng.choice(MB)
        else:
            out += rng.choice(BLANKS)
        if rng.chance(1, 2):
            out += rng.choice(BLANKS)
    if rng.chance(1, 6):
        out = out.rstrip(' \t')
    return out


def gen_text(rng, maxlines=7):
    t = rng.below(20)
    if t == 0:
        return ''
    n = rng.range(1, maxlines)
    ls = [gen_line(rng) for _ in range(n)]
    text = '\n'.join(ls) + '\n'
    if rng.chance(1, 10):
        text = text[:-1] if not text.endswith('\n\n') and len(text) > 1 else text
    return text


OPENERS, CLOSERS = '([{', ')]}'
PAIR_FILL = ['a', 'x1', 'é', '日本', 'я', '\U00010400', 'ああ', ' ', ' ', ', ', ' + ', 'f', 'Ωx', '\t', '한']


def gen_pair_line(rng, depth=0):
    """one line with several bracket groups -- mixed kinds, nested -- and multi-byte characters before and between them"""
    out = ''
    for _ in range(rng.range(1, 4)):
        for _ in range(rng.range(0, 3)):
            out += rng.choice(PAIR_FILL)
        k = rng.below(3)
        inner = ''
        for _ in range(rng.range(0, 2)):
            inner += rng.choice(PAIR_FILL)
        if depth < 2 and rng.chance(1, 3):
            inner += gen_pair_line(rng, depth + 1)
        out += OPENERS[k] + inner + CLOSERS[k]
    if rng.chance(1, 2):
        out += rng.choice(PAIR_FILL)
    return out


def gen_pair_text(rng):
    """lines of bracket groups; some groups open on a short line and close far to the right of a later, longer line"""
    ls = []
    for _ in range(rng.range(1, 4)):
        t = rng.below(4)
        if t < 2:
            ls.append(gen_pair_line(rng))
        elif t == 2:
            k = rng.below(3)
            ls.append(rng.choice(['f', 'é', '', 'if ', '日']) + OPENERS[k])
            for _ in range(rng.range(0, 2)):
                ls.append(rng.choice(['', '  x', '\ta, b', gen_pair_line(rng)]))
            ls.append(rng.choice(['    a, b', '\t\t日本 + ', '      ', gen_pair_line(rng) + '  ']) + CLOSERS[k] + rng.choice(['', ';', ' é']))
        else:
            ls.append(rng.choice(['', ' ', 'éé', ')', '(']))
    return '\n'.join(ls) + '\n'


def gen_pair_prog(rng, text):
    """% from every kind of place: before the first bracket of a line, on a bracket, after f/t/F/T to a bracket, repeated"""
    ls = lines_of(text)
    prog = []
    for _ in range(rng.range(1, 3)):
        r = rng.below(len(ls)) if ls else 0
        prog.append(['g', r + 1])
        n = len(ls[r]) if ls else 0
        t = rng.below(4)
        if n and t == 0:
            prog.append(['m', rng.range(1, n), ' '])
        elif n and t == 1:
            br = [i for i, ch in enumerate(ls[r]) if ch in OPENERS + CLOSERS]
            if br:
                o = rng.choice(br)
                if o:
                    prog.append(['m', o, ' '])
        elif n and t == 2:
            prog.append(['m', rng.choice([0, 0, 1, 2]), rng.choice('ftFT'), rng.choice(OPENERS + CLOSERS)])
        for _ in range(rng.range(1, 3)):
            prog.append(['m', 0, '%'])
            if rng.chance(1, 3):
                prog.append(gen_motion(rng, text))
    return prog


def gen_count(rng):
    t = rng.below(10)
    if t < 4:
        return 0
    if t < 9:
        return rng.range(1, 12)
    return 99


def gen_motion(rng, text, key=None):
    key = key or rng.choice(KEYS0)
    cnt = 0 if key == '0' else gen_count(rng)
    if key in 'fFtT':
        chars = [c for c in text if c not in '\n']
        ch = rng.choice(chars) if chars and rng.chance(5, 6) else rng.choice(['q', 'é', ' ', ')'])
        return ['m', cnt, key, ch]
    if key == '%' and cnt and rng.chance(1, 2):
        cnt = rng.choice([1, 50, 100, 101, 33])
    return ['m', cnt, key]


def gen_prog(rng, text):
    ls = lines_of(text)
    prog = []
    t = rng.below(10)
    if ls and t == 0:
        # sticky column: reach a far column, then walk over lines of different lengths with j/k
        r = rng.below(len(ls))
        prog.append(['g', r + 1])
        prog.append(rng.choice([['m', 0, '$'], ['m', rng.range(1, 30), '|'], ['m', rng.range(1, 12), 'l'], ['m', 0, 'e'], ['m', 2, 'w']]))
        for _ in range(rng.range(2, 5)):
            prog.append(['m', rng.choice([0, 0, 1, 2, 3]), rng.choice('jjkkjk+')])
            if rng.chance(1, 6):
                prog.append(gen_motion(rng, text))
        return prog
    if ls and t == 1:
        # find sequences: f F t T followed by ; and ,
        cand = [r for r in range(len(ls)) if len(ls[r]) > 3]
        if cand:
            r = rng.choice(cand)
            prog.append(['g', r + 1])
            prog.append(['m', rng.below(len(ls[r])), ' '])
            ch = rng.choice(ls[r])
            prog.append(['m', rng.choice([0, 0, 1, 2]), rng.choice('fFtT'), ch])
            for _ in range(rng.range(1, 4)):
                prog.append(['m', rng.choice([0, 0, 1, 2, 3]), rng.choice(';;,')])
                if rng.chance(1, 5):
                    prog.append(['m', 0, rng.choice('hl')])
            return prog
    if ls and rng.chance(3, 4):
        r = rng.below(len(ls))
        prog.append(['g', r + 1])
        if ls[r] and rng.chance(3, 4):
            prog.append(['m', rng.range(1, max(1, len(ls[r]))), rng.choice(['l', ' '])])
    for _ in range(rng.choice([1, 1, 2, 3, 4, 6])):
        prog.append(gen_motion(rng, text))
    return prog


# -- lines longer than the line limit of ren_position() (xlim = 256 characters, the terminator included).
# Up to the limit a line with multi-byte characters is laid out by ren_position_reorder(); beyond it the
# plain loop of ren_position() is the only path, whatever the line contains.  Wide and multi-byte
# characters and tabs sit both near the start (small N| see them) and far to the right.
WIDE1 = ['中', 'あ', '한', 'Ａ', '漢', '日', '本', '語']
NARROW_MB = ['\u00e9', '\u044f', '\u03a9', '\u20ac', '\u00f6', '\u0301', '\U00010400', '\u200b']    # é я Ω € ö, combining acute, Deseret (4 bytes), zero width space
# (not ZWNJ / ZWJ: conf.h counts them as right-to-left characters; two of them with only neutral characters between are reordered)
LONG_LENGTHS = [253, 254, 255, 256, 257, 258, 259, 260, 300, 320, 400]


def gen_long_line(rng, n, flavour=None):
    """exactly n characters (code points); flavour 0: wide/multi-byte/tabs everywhere, 1: a dense head and
    an ASCII tail, 2: an ASCII head and the special characters far to the right, 3: narrow multi-byte
    characters and tabs only, 4: ASCII and tabs only (control)"""
    fl = flavour if flavour is not None else rng.below(5)
    out = []
    far = rng.range(40, max(41, n - 20))
    while len(out) < n:
        i = len(out)
        dense = fl == 0 or (fl == 1 and i < 24) or (fl == 2 and i >= far) or fl == 3
        t = rng.below(20)
        if fl == 4:
            out.append('\t' if t == 0 else rng.choice('abcdefgh .,(x)'))
        elif dense and t < 4 and fl != 3:
            out.append(rng.choice(WIDE1))
        elif dense and t < 8:
            out.append(rng.choice(NARROW_MB))
        elif dense and t < 10:
            out.append('\t')
        elif 10 <= t < 13:
            out.append(' ')
        elif not dense and t == 13 and rng.chance(1, 4):
            out.append('\t')
        else:
            out.append(rng.choice('abcdefghijklmnopqrstuvwxyz0123456789_.,()'))
    return ''.join(out[:n])


SHORT_LINES = ['0123456789', 'ab', '', 'ab\tcd\tef', '中中中中中x', '\tx', 'é\tX', 'abcdefghijklmnopqrstuvwxyz' * 3,
               'a中b한c  ét', '  indented line', '    ']


def gen_long_text(rng):
    ls = []
    nl = rng.range(2, 4)
    nlong = 0
    for i in range(nl):
        if rng.chance(1, 2) or (i == nl - 1 and nlong == 0):
            n = rng.choice(LONG_LENGTHS) if rng.chance(2, 3) else rng.range(257, 400)
            ls.append(gen_long_line(rng, n))
            nlong += 1
        else:
            ls.append(rng.choice(SHORT_LINES) if rng.chance(3, 4) else gen_line(rng))
    return '\n'.join(ls) + '\n'


def gen_long_prog(rng, text):
    """column motions into, inside and out of the long lines: N| (near the start and anywhere), $, counted l,
    f / w to somewhere, then j / k walks (the column taken from / applied to a long line)"""
    ls = lines_of(text)
    prog = []
    r = rng.below(len(ls))
    prog.append(['g', r + 1])
    width = max((coltab(l + '\n')[-1] for l in ls), default=0)

    def colmotion(row):
        n = max(1, len(ls[row]))
        t = rng.below(10)
        if t < 4:
            return ['m', rng.range(1, 48), '|']
        if t < 6:
            return ['m', rng.range(1, width + 4), '|']
        if t == 6:
            return ['m', 0, '$']
        if t == 7:       # (a counted l lays the line out for every step: long counts are rare, the model is slow on them)
            return ['m', rng.range(1, n + 2) if rng.chance(1, 12) else rng.range(1, 24), 'l']
        if t == 8:
            return ['m', rng.range(1, 40), rng.choice('wWeE')]
        return ['m', rng.choice([0, 1, 2, 3]), rng.choice('fFtT'), rng.choice(ls[row]) if ls[row] else 'q']
    prog.append(colmotion(r))
    for _ in range(rng.range(1, 4)):
        t = rng.below(10)
        if t < 6:
            prog.append(['m', rng.choice([0, 0, 1, 2, 3]), rng.choice('jjkkjk')])
        elif t < 8:
            prog.append(colmotion(r))
        elif t == 8:
            prog.append(['m', rng.choice([0, 1, 2, 7, 30]), rng.choice('hl')])
        else:
            prog.append(gen_motion(rng, text))
    if prog[-1][2] not in 'jk|' and rng.chance(2, 3):
        prog.append(['m', rng.choice([0, 1, 2]), rng.choice('jk')])
    return prog


# -- the sticky column after a motion that succeeds WITHOUT moving the cursor.  Three steps: (1) the remembered
# column differs from the cursor's own column (j / k from a far column onto a shorter line, onto a tab or the
# second cell of a wide character, or N| beyond the end of the line); (2) a motion that succeeds and whose
# target is the position the cursor is already on ($ on the last character, l h w e b at an edge, 0 ^ at that
# offset, + - G _ onto the same line, t<c> next to the cursor, ...) -- it makes the cursor's column the
# remembered one; (3) j / k onto a line long enough to tell the two columns apart.
STICKY_LINES = ['abcdefghij', 'ABCDEFGHIJKLMNOPQRST', 'abc', 'x', '', '\tx', 'ab\tcd\tef', '中中中中中中', 'a中b한c',
                '  indented', '    ', 'foo bar baz qux', 'été', '\t\tdeep', 'a', 'zz top (x)',
                '0123456789012345678901234567890123456789']
STILL_KEYS = ['$', 'l', 'h', 'w', 'e', 'b', 'W', 'E', 'B', '0', '^', '+', '-', 'G', '_', '{', '}', 'H', 'M', 'L', ' ', '%']


def gen_sticky_text(rng):
    ls = []
    for _ in range(rng.range(3, 6)):
        ls.append(rng.choice(STICKY_LINES) if rng.chance(4, 5) else gen_line(rng))
    return '\n'.join(ls) + '\n'


def ref_after(ls, rows, prog):
    ref = Ref(ls, rows - 1)
    ref.run(prog)
    return ref


def still_motions(ref):
    """the motions (with counts and arguments) that the reference defines as succeeding from ref's state with the
    position they land on = the position the cursor is on"""
    import copy
    out = []
    here = (ref.r, ref.o)
    cands = []
    for k in STILL_KEYS:
        cands.append(['m', 0, k])
        if k in 'lhwebWEB ':
            cands.append(['m', 3, k])
        if k in 'G_':
            cands.append(['m', ref.r + 1 if k == 'G' else 1, k])
    line = ref.L[ref.r] if ref.L else ''
    if ref.o + 1 < len(line):
        cands.append(['m', 0, 't', line[ref.o + 1]])
    if ref.o >= 1:
        cands.append(['m', 0, 'T', line[ref.o - 1]])
    if ref.last is not None:
        cands += [['m', 0, ';'], ['m', 0, ',']]
    for m in cands:
        r2 = copy.copy(ref)
        try:
            ok = r2.motion(m[1], m[2], m[3] if len(m) > 3 else None)
        except (ValueError, IndexError):
            continue
        if ok and (r2.r, r2.o) == here:
            out.append(m)
    return out


def gen_sticky3(rng, per_state):
    """cases (text, rows, prog) of the three-step shape; per_state = how many of the non-moving motions are tried
    from one state (0 = all)"""
    text = gen_sticky_text(rng)
    rows = rng.choice([24, 24, 6, 5])
    ls = lines_of(text)
    best = None
    for _ in range(8):
        r = rng.below(len(ls))
        pre = [['g', r + 1]]
        t = rng.below(6)
        if t < 2:
            pre.append(['m', 0, '$'])
        elif t < 4:
            pre.append(['m', rng.range(2, 30), '|'])
        elif t == 4:
            pre.append(['m', rng.range(1, 12), 'l'])
        else:
            pre.append(['m', rng.range(1, 3), rng.choice('weE')])
        if not (t in (2, 3) and rng.chance(1, 3)):          # else: N| alone (beyond the end of the line)
            pre.append(['m', rng.choice([0, 0, 1, 2]), rng.choice('jk')])
            if rng.chance(1, 4):
                pre.append(['m', rng.choice([0, 1]), rng.choice('jk')])
        ref = ref_after(ls, rows, pre)
        stale = ref.xcol != ref.off2col(ref.r, ref.o)
        if best is None or stale:
            best = (pre, ref, stale)
        if stale:
            break
    pre, ref, stale = best
    still = still_motions(ref)
    rng.shuffle(still)
    if per_state:
        still = still[:per_state]
    if not still:
        still = [gen_motion(rng, text)]
    out = []
    for m in still:
        prog = pre + [m]
        if rng.chance(1, 5):                  # a second non-moving motion in a row
            more = still_motions(ref_after(ls, rows, prog))
            if more:
                prog.append(rng.choice(more))
        prog.append(['m', rng.choice([0, 0, 1, 2]), rng.choice('jk')])
        if rng.chance(1, 3):
            prog.append(['m', rng.choice([0, 1]), rng.choice('jk')])
        out.append({'text': text, 'rows': rows, 'prog': prog, 'stream': 'sticky3' if stale else 'sticky3-control'})
    return out


# -- counts of nine and more digits, and counts at the edge of the line / buffer.  vi_prefix() reads EVERY digit of a count
# (the value stops growing once nine digits are in: `if (n < 100000000) n = n * 10 + c - '0'`), vi_cnt() caps at 2^30, and every
# motion clamps an overrunning count.  The reference takes the count as the number that was typed (Python integers have no
# limit); on buffers far smaller than 10^8 lines / characters the two agree.  Stream `bigcount`: 9, 10, 11, 12 and 20 digits,
# the tenth digit each of 0..9, leading digits 1 / 9 / any, zeros / nines / random digits behind, in front of every motion key
# (a count in front of `0` is not possible: the 0 belongs to the count -- strings ending in 0 / 00 are part of the stream), from a
# position inside the buffer with the remembered column set, followed by another counted motion or a plain j / k (so that a digit
# that is executed as a command of its own shows).  `{` `}` get at most six digits: vi.c runs lbuf_paragraphbeg count times
# without ever leaving the loop (finding candidate KF-PARA-COUNT-LOOP: 999999999} keeps the editor busy for more than a minute).
# Stream `count-edge`: the same keys with the counts next to the distance to the edge (distance - 1, distance, distance + 1 for
# rows, characters, columns, the window) -- beyond that distance MotCountProps.count_beyond_clamps says the landing is the same.
BIG_KEYS = list('hljk|wbeWBE;,G+-_%HML$^ \b') + ['f', 'F', 't', 'T']
BIG_LENGTHS = [9, 10, 11, 12, 20]
BIG_TEXTS = [
    'abc def ghi\njkl mno pqr\nstu vwx yz\n0123 4567 89\n',
    'foo.bar  (a[1]) {x}\n\n  \tindentéd w中文 énd  \n\n\nlast_1 )\n',
    'a1 b2 c3 d4 e5 f6 g7\nx\n\tab\tc((d)) éé\nああ Ａb cc dd\n\nlast line (here) a b a b a\n',
    'if (x[i] == {1}) { y; }\n}\nelse a a a a a a\n  b b b b\nc\nd d\ne\nf f f\ng\nh\n',
]


def gen_digits(rng, n, tenth=None):
    """a count of exactly n digits (first digit 1..9); the tenth digit as given"""
    lead = rng.choice(['1', '1', '9', str(rng.range(1, 9))])
    t = rng.below(4)
    if t == 0:
        body = '0' * (n - 1)
    elif t == 1:
        body = '9' * (n - 1)
    else:
        body = ''.join(str(rng.below(10)) for _ in range(n - 1))
    d = lead + body
    if tenth is not None and n >= 10:
        d = d[:9] + str(tenth) + d[10:]
    return int(d)


def counted(rng, ls, ref, key, cnt):
    """one motion command with the given count from the reference state ref (the find keys look for a character that occurs)"""
    if key in 'fFtT':
        line = ls[ref.r] if ls else ''
        ahead = line[ref.o + 1:] if key in 'ft' else line[:ref.o]
        ch = rng.choice(ahead) if ahead and rng.chance(5, 6) else (rng.choice(line) if line else 'q')
        return ['m', cnt, key, ch]
    return ['m', cnt, key]


def start_prog(rng, ls):
    """reach a position inside the buffer, most often away from every edge, with the remembered column = the cursor's"""
    cand = [r for r in range(len(ls)) if len(ls[r]) > 4]
    r = rng.choice(cand) if cand and rng.chance(5, 6) else rng.below(len(ls))
    n = len(ls[r])
    o = rng.range(1, max(1, n - 3)) if n > 2 else 0
    prog = reach(r, o)
    if rng.chance(1, 4) and n:
        prog.append(['m', 0, rng.choice('fFtT'), rng.choice(ls[r])])        # ; and , have something to repeat
    return prog


def tail_prog(rng, text, ls):
    t = rng.below(6)
    if t < 2:
        return [['m', rng.choice([0, 0, 1, 2]), rng.choice('jk')]]
    if t == 2:
        return [gen_motion(rng, text)]
    if t == 3:          # two counts in a row
        k2 = rng.choice(BIG_KEYS)
        return [['m', gen_digits(rng, rng.choice(BIG_LENGTHS), rng.below(10)), k2] + ([rng.choice(ls[0]) if ls and ls[0] else 'q'] if k2 in 'fFtT' else [])]
    return []


def gen_bigcount(rng, quick):
    out = []
    for key in BIG_KEYS:
        plan = []
        for n in BIG_LENGTHS:
            if n == 10 or not quick:
                plan += [(n, d) for d in range(10)]
            elif n == 9:
                plan += [(n, None)] * 2
            else:
                plan += [(n, rng.below(10)) for _ in range(3)] + [(n, 0)]
        for (n, d) in plan:
            text = rng.choice(BIG_TEXTS) if rng.chance(3, 4) else gen_text(rng, 7)
            ls = lines_of(text)
            if not ls:
                text = BIG_TEXTS[0]
                ls = lines_of(text)
            rows = rng.choice([24, 24, 6, 5, 4])
            prog = start_prog(rng, ls)
            if key in ';,' and not any(len(c) > 3 for c in prog):
                line = ls[prog[0][1] - 1]
                prog.append(['m', 0, rng.choice('fFtT'), rng.choice(line) if line else 'q'])
            ref = ref_after(ls, rows, prog)
            prog.append(counted(rng, ls, ref, key, gen_digits(rng, n, d)))
            prog += tail_prog(rng, text, ls)
            out.append({'text': text, 'rows': rows, 'prog': prog, 'stream': 'bigcount'})
    # { } : moderate counts only (see above)
    for key in '{}':
        for n in (4, 5, 6, 6):
            text = rng.choice(BIG_TEXTS)
            ls = lines_of(text)
            prog = start_prog(rng, ls) + [['m', gen_digits(rng, n), key]] + tail_prog(rng, text, ls)
            out.append({'text': text, 'rows': rng.choice([24, 5]), 'prog': prog, 'stream': 'bigcount'})
    return out


def gen_count_edge(rng, quick):
    out = []
    for key in BIG_KEYS + ['{', '}']:
        for _ in range(6 if quick else 40):
            text = rng.choice(BIG_TEXTS) if rng.chance(3, 4) else gen_text(rng, 7)
            ls = lines_of(text)
            if not ls:
                text = BIG_TEXTS[1]
                ls = lines_of(text)
            rows = rng.choice([24, 6, 5, 4])
            prog = start_prog(rng, ls)
            if key in ';,' and not any(len(c) > 3 for c in prog):
                line = ls[prog[0][1] - 1]
                prog.append(['m', 0, rng.choice('fFtT'), rng.choice(line) if line else 'q'])
            ref = ref_after(ls, rows, prog)
            n, ln = len(ls), len(ls[ref.r])
            width = coltab(ls[ref.r] + '\n')[-1]
            dist = [n - 1 - ref.r, ref.r, n, ln - 1 - ref.o, ref.o, ln, width, width + 1, ref.top + rows - 1 - ref.r, ref.r - ref.top + 1,
                    rows - 1, 100, 10, 20]
            d = rng.choice(dist) + rng.choice([-1, 0, 0, 1, 1, 2])
            if d <= 0:
                d = rng.choice([1, 10, 100, 101])
            prog.append(counted(rng, ls, ref, key, d))
            prog += tail_prog(rng, text, ls) if rng.chance(1, 2) else []
            prog = [c for c in prog if c[0] == 'g' or c[2] not in '{}' or c[1] < 10 ** 6]
            out.append({'text': text, 'rows': rows, 'prog': prog, 'stream': 'count-edge'})
    return out


FIXED_TEXTS = [
    'foo.bar  (a[1]) {x}\n\n  \tindentéd w中文 énd  \n\n\nlast_1 )\n',
    '\tab\tc((d))\n \nああ Ａb\n',
    'éé (a) [b]{c}\n日本 f(x) + g(y)\n',
    'a\n',
    '\n',
    '\n\n',
    'if (x[i] == {1}) { y; }\n}\n',
]


def all_positions(text):
    out = []
    for r, l in enumerate(lines_of(text)):
        for o in range(max(1, len(l))):
            out.append((r, o))
    return out


def reach(r, o):
    p = [['g', r + 1]]
    if o:
        p.append(['m', o, ' '])
    return p


# ------------------------------------------------------------------------------------------

def check_case(exe, case, res):
    """Oracle on one case.  Returns (verdict, observed (row, off) or None)."""
    text, rows, prog = case['text'], case['rows'], case['prog']
    ob = observe(exe, text, rows, prog)
    if ob[0] != 'ok':
        return {'what': ob[1], 'expected': 'marker inserted once, file written'}, None
    _, row, off, rest = ob
    ls = lines_of(text)
    bad = None
    if rest != norm_text(text):
        bad = {'what': 'motions changed the text', 'expected': norm_text(text), 'observed': rest}
    elif ls and not (0 <= row < len(ls) and 0 <= off < max(1, len(ls[row]))):
        bad = {'what': 'cursor is not on an existing character of an existing line', 'observed': [row, off],
               'expected': 'row < %d and off < line length' % len(ls)}
    else:
        want = Ref(ls, rows - 1).run(prog)
        if (row, off) != want:
            bad = {'what': 'cursor after the motions differs from the reference semantics',
                   'expected': list(want), 'observed': [row, off]}
    return bad, (row, off)


def run(ctx):
    res, rng = ctx.res, ctx.rng
    exe = vlib.build_vi()
    model = ctx.model('mot')        # coq/Extract_mot.v (MotDefs + MotCountDefs) behind ocaml/drv_mot.ml
    res.rule = ('one case = (text, window rows, motion program); the marker position written by the real editor is compared with the '
                'extracted model and with the Python reference; non-trivial = the reference cursor after the program differs from '
                '(0,0) or the program contains a failing motion; distinct = distinct (text, rows, program)')
    cases = []
    if ctx.replay:
        rp = json.load(open(ctx.replay))
        cases.append({'text': rp['input']['text'], 'rows': rp['input']['rows'], 'prog': rp['input']['prog']})
    else:
        import glob, os
        for fn in sorted(glob.glob(os.path.join(vlib.VERIF, 'corpus', 'C07-*.json'))):
            for c in json.load(open(fn)):
                cases.append({'text': c['text'], 'rows': c['rows'], 'prog': c['prog'], 'corpus': os.path.basename(fn)})
        # every start position of small buffers x every motion key
        nfixed = 3 if ctx.quick else len(FIXED_TEXTS)
        for ti, text in enumerate(FIXED_TEXTS):
            for (r, o) in all_positions(text):
                for key in KEYS0:
                    if ti >= nfixed and rng.chance(2, 3):
                        continue
                    reps = 1 if ctx.quick else 3
                    for _ in range(reps):
                        m = gen_motion(rng, text, key)
                        rows = rng.choice([24, 5, 4])
                        prog = reach(r, o) + [m]
                        if rng.chance(1, 3):
                            prog.append(gen_motion(rng, text))
                        cases.append({'text': text, 'rows': rows, 'prog': prog})
        n = 1500 if ctx.quick else 60000
        for i in range(n):
            if rng.chance(3, 20):
                text = gen_pair_text(rng)
                prog = gen_pair_prog(rng, text) if rng.chance(2, 3) else gen_prog(rng, text)
            else:
                text = gen_text(rng, 7 if rng.chance(4, 5) else 14)
                prog = gen_prog(rng, text)
            cases.append({'text': text, 'rows': rng.choice([24, 24, 6, 5, 4, 3]), 'prog': prog})
        # lines beyond the line limit of ren_position (and exactly at it), with wide / multi-byte characters and tabs
        rl = rng.fork('long-lines')
        for i in range(260 if ctx.quick else 8000):
            text = gen_long_text(rl)
            cases.append({'text': text, 'rows': rl.choice([24, 24, 6, 4]), 'prog': gen_long_prog(rl, text), 'stream': 'long-line'})
        # the sticky column after a successful motion that does not move the cursor
        rs = rng.fork('sticky3')
        for i in range(160 if ctx.quick else 5000):
            cases += gen_sticky3(rs, 3 if ctx.quick else 0)
        # counts of nine and more digits; counts next to the distance to the edge of the line / buffer / window
        rb = rng.fork('bigcount')
        cases += gen_bigcount(rb, ctx.quick)
        cases += gen_count_edge(rb, ctx.quick)
    res.count('cases', len(cases))
    for c in cases:
        res.count('stream ' + c.get('stream', 'corpus' if 'corpus' in c else 'general'))

    obs = vlib.pmap(lambda c: check_case(exe, c, res), cases)
    reqs = [model_req(c['text'], c['rows'], c['prog'], c.get('stream') in ('bigcount', 'count-edge')) for c in cases]
    mout = None
    if model:
        # the model driver answers line by line: the requests are dealt round-robin to 16 processes
        nw = 16
        parts = vlib.pmap(lambda j: vlib.run_lines(model, reqs[j::nw], timeout=1500) if reqs[j::nw] else (0, [], ''), list(range(nw)))
        rc = max(p[0] for p in parts)
        err = ''.join(p[2] for p in parts)
        mout = [None] * len(reqs)
        if all(len(parts[j][1]) == len(reqs[j::nw]) for j in range(nw)):
            for j in range(nw):
                mout[j::nw] = parts[j][1]
        else:
            mout = []
        if rc != 0 or len(mout) != len(reqs):
            res.disagree({'what': 'model driver failed: rc=%d, %d answers for %d requests' % (rc, len(mout), len(reqs)), 'stderr': err[-500:]})
            mout = None
    nviol = 0
    for i, (c, (bad, pos)) in enumerate(zip(cases, obs)):
        res.evaluations += 1
        inp = {'text': c['text'], 'rows': c['rows'], 'prog': c['prog'], 'keys': keys_of(c['prog']).decode('utf-8', 'replace')}
        for m in c['prog']:
            res.count('key ' + (m[2] if m[0] == 'm' else ':n'))
        if pos and pos != (0, 0):
            res.nontriv(reqs[i])
        if mout is not None and pos is not None:
            w = mout[i].split()
            if w[0] == 'fuel':
                res.disagree({'what': 'model ran out of fuel', 'input': inp})
            elif w[0] in ('undecided', 'keys'):
                res.disagree({'what': 'model: ' + ('do_motion_z could not decide within its fuel' if w[0] == 'undecided' else
                                                   'the typed keys are not exactly one motion command (digits left over / not consumed)'), 'input': inp})
            elif (int(w[0]), int(w[1])) != pos:
                res.disagree({'what': 'model and implementation differ on the cursor', 'input': inp,
                              'implementation': list(pos), 'model': [int(w[0]), int(w[1])]})
        if bad:
            kf = bad.pop('kf', None)
            if kf is None and nviol < 3:
                nviol += 1
                small = shrink_case(exe, c)
                bad2, _ = check_case(exe, small, res)
                if bad2 and 'kf' not in bad2:
                    bad, inp = bad2, {'text': small['text'], 'rows': small['rows'], 'prog': small['prog'],
                                      'keys': keys_of(small['prog']).decode('utf-8', 'replace')}
            bad['input'] = inp
            res.violation(bad, kf=kf)
    for c in cases[:2000:400]:
        res.sample({'text': c['text'], 'rows': c['rows'], 'keys': keys_of(c['prog']).decode('utf-8', 'replace')})


def shrink_case(exe, c):
    def fails_prog(p):
        bad, _ = check_case(exe, dict(c, prog=p), None)
        return bool(bad) and 'kf' not in bad
    prog = vlib.shrink(c['prog'], fails_prog, max_steps=60)
    c = dict(c, prog=prog)
    ls = c['text'].split('\n')

    def fails_text(l):
        t = '\n'.join(l)
        bad, _ = check_case(exe, dict(c, text=t), None)
        return bool(bad) and 'kf' not in bad
    if len(ls) > 2:
        ls2 = vlib.shrink(ls, fails_text, max_steps=40)
        c = dict(c, text='\n'.join(ls2))
    return c
