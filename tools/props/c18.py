"""C18 -- bidi reordering is a permutation reversing exactly the opposite-direction runs; letter shaping.

Correspondence: harness/probe_ren.c (dir.c, uc.c of /repo included textually) versus the extracted
Coq model (coq/DirDefs.v, ShapeDefs.v).  dir_reorder is parametric in the pattern matcher: the
probe records what rset_find answered for every dir_match call along dir_fix's control flow
(mark index, byte offsets of the match and of its groups, flags) and the model replays those
answers, so dir_context / dir_match / dir_fix / dir_reverse / dir_reorder are compared without a
regex model.  uc_shape / uc_cshape / can_join / find_achar are compared on generated lines, on a
sweep over all letters x neighbour classes and on all code points.
Oracle (the property itself on the implementation's output): ord is a permutation with the
terminator last; identity when the line has no opposite-direction character and no mark; in a
line without the other marks each maximal run of opposite-direction letters (with the neutrals
inside) is reversed in place and everything else keeps its place; a shaped character is the
letter itself or the presentation form of the same letter (Python's unicodedata) that its
non-diacritic neighbours call for; other characters are never altered.
The same sentences are evaluated on `rord`, the order array ren_position() itself lays the line out with
(its own call of dir_reorder, recorded by the probe): a line within linelimit in CHARACTERS (orders 1, 2;
order 1 only with a multi-byte sequence) must show the reversed runs there, whatever its number of bytes;
beyond the limit, with order 0 and on single-byte lines with order 1 the array is the identity
(model: RenOrdDefs.ren_order, theorems C18_linelimit_*).
"""
import json, unicodedata, glob, os
import vlib
from props import ren_common as rc

GROUP = 'ren'
TRUSTED = ['the recorded answers of rset_find (configured dirmarks/dircontexts) are replayed to the model as its matcher oracle; that they are in bounds and non-empty is checked on every recorded answer',
           "Python's unicodedata.decomposition as the independent reference for 'a presentation form of the same letter'",
           "Python's re as the independent matcher of the reference order on lines with marks (generated ERE patterns translated by ere_to_py)",
           'tools/props/ren_common.py parses the generated Coq tables for the Python oracle']

NL = 10
LATIN = [0x61, 0x62, 0x7a, 0x41, 0x5a, 0x5f]
DIGIT = [0x30, 0x31, 0x39]
NEUT = [0x20, 0x2d, 0x2e, 0x2c, 0x21, 0x28, 0x29, 0x3a, 0x2f]
ARAB = [0x627, 0x628, 0x62a, 0x633, 0x644, 0x645, 0x646, 0x647, 0x648, 0x64a, 0x6cc, 0x6a9, 0x6af, 0x67e, 0x686, 0x698, 0x621, 0x622, 0x640]
DIAC = [0x64b, 0x64e, 0x650, 0x651, 0x652, 0x670]
JOIN = [0x200c, 0x200d]
RPUNCT = [0x61b, 0x60c, 0x61f, 0xbb, 0xab]
OTHERR = [0x5d0, 0x660, 0x6f1, 0xfe8e, 0xfb56, 0x200e]      # Hebrew, Arabic-Indic digits, presentation forms, LRM
MISC = [9, 0x27, 0x60, 0x4e2d, 0xe9]


def parse_sets(t):
    """CR2L / CNEUT as the generated dircontexts / dirmarks define them"""
    cr2l = None
    for d, pat in t['dircontexts']:
        if d < 0:
            s = pat.decode('utf-8')
            if s.startswith('^[') and s.endswith(']'):
                cr2l = set(ord(ch) for ch in s[2:-1])
    cneut = None
    for ctx, d, grp, pat in t['dirmarks']:
        if ctx > 0 and d < 0 and grp == 0 and cr2l is not None:
            s = pat.decode('utf-8')
            r = s[1:s.index(']')]
            prefix, suffix = '[' + r + '][', r + ']*[' + r + ']'       # the pattern is [R][N R]*[R]
            if set(ord(ch) for ch in r) == cr2l and s.startswith(prefix) and s.endswith(suffix) and len(s) > len(prefix) + len(suffix):
                cneut = set(ord(ch) for ch in s[len(prefix):-len(suffix)])
    return cr2l, cneut


class Spec:
    def __init__(self, t):
        self.t = t
        self.cr2l, self.cneut = parse_sets(t)
        self.rows = {a[0]: a for a in t['achars']}
        self.ok = self.cr2l is not None and self.cneut is not None
        import re
        self.marks_py = []
        for mctx, mdir, grp, pat in t['dirmarks']:
            try:
                py = ere_to_py(pat.decode('utf-8'))
                self.marks_py.append((mctx, mdir, grp, re.compile(py, re.S)))
            except Exception:
                py = None
            if py is None:
                self.marks_py = None
                break

    @staticmethod
    def alnum(c):
        return c < 128 and (chr(c).isalnum() or c == 0x5f)

    def context(self, cs, td):
        if td > 1:
            return 1
        if td < -1:
            return -1
        b0 = rc.enc(cs[:1])[0] if cs else 0
        if td == 0 and b0 < 0x80:
            return 1
        if cs and cs[0] in self.cr2l:
            return -1
        if cs and self.alnum(cs[0]):
            return 1
        return -1 if td < 0 else 1

    def has_marks(self, cs):
        return any(c in (0x5c, 0x24) for c in cs)

    def runs(self, cs, ctx):
        """maximal runs of opposite-direction letters with the neutrals inside, for a line without
        the other marks; list of (b, e)"""
        n = len(cs)
        if n and cs[-1] == NL:
            n -= 1
        out = []
        i = 0
        while i < n:
            if ctx > 0:
                first = cs[i] in self.cr2l
            else:
                first = self.alnum(cs[i])
            if not first:
                i += 1
                continue
            j = i + 1
            last = i
            while j < n:
                c = cs[j]
                if ctx > 0:
                    inside = c in self.cr2l or c in self.cneut
                    ender = c in self.cr2l
                else:
                    inside = c not in self.cr2l and c not in (0x5c, 0x60, 0x24, 0x27)
                    ender = self.alnum(c)
                if not inside:
                    break
                if ender:
                    last = j
                j += 1
            if last > i:
                out.append((i, last + 1))
                i = last + 1
            else:
                i += 1
        return out

    # ---- shaping
    def acomb(self, c):
        return rc.in_table(self.t['acomb_ranges'], c)

    def r2l(self, c):
        return rc.in_table(self.t['r2l_ranges'], c)

    def can_join(self, a, b):
        ra, rb = self.rows.get(a), self.rows.get(b)
        return bool(ra and rb and (ra[2] or ra[3]) and (rb[4] or rb[3]))

    def shaped(self, cs, i):
        """expected result of shaping character i of the line: None = not touched"""
        cur = cs[i]
        if cur == 0 or not self.r2l(cur):
            return None
        prev = nxt = 0
        for j in range(i - 1, -1, -1):
            if not self.acomb(cs[j]):
                prev = cs[j]
                break
        for j in range(i + 1, len(cs)):
            if not self.acomb(cs[j]):
                nxt = cs[j]
                break
        row = self.rows.get(cur)
        if not row:
            return cur
        jp, jn = self.can_join(prev, cur), self.can_join(cur, nxt)
        form = row[3] if jp and jn else row[4] if jp else row[2] if jn else row[0]
        return form or cur


def same_letter(base, c):
    """c is base itself or a presentation form whose compatibility decomposition is base alone"""
    if c == base:
        return True
    d = unicodedata.decomposition(chr(c)).split()
    return len(d) == 2 and d[0] in ('<isolated>', '<initial>', '<medial>', '<final>') and int(d[1], 16) == base


def check_table(res, sp):
    """every row of achars lists presentation forms of its own letter (cross-check against unicodedata)"""
    want = {1: '<isolated>', 2: '<initial>', 3: '<medial>', 4: '<final>'}
    for row in sp.t['achars']:
        c = row[0]
        for k in (1, 2, 3, 4):
            f = row[k]
            if f == 0 or f == c:
                continue
            d = unicodedata.decomposition(chr(f)).split()
            if not (len(d) == 2 and d[0] == want[k] and int(d[1], 16) == c):
                res.violation({'what': 'achars row of U+%04X lists U+%04X as its %s form, Unicode says %r' % (c, f, want[k], ' '.join(d)),
                               'input': ['fasweep'], 'expected': '%s %04X' % (want[k], c), 'observed': ' '.join(d)})


def ere_to_py(pat):
    """the ERE syntax of regex.c for the constructs the configured marks use -> Python re (None if unknown)"""
    import re
    out = []
    i = 0
    while i < len(pat):
        c = pat[i]
        if c == '[':
            j = i + 1
            neg = False
            if j < len(pat) and pat[j] == '^':
                neg = True
                j += 1
            items = []
            first = True
            while j < len(pat) and (pat[j] != ']' or first):
                if pat[j] == '[' and j + 1 < len(pat) and pat[j + 1] in ':=':
                    return None
                items.append(pat[j])
                j += 1
                first = False
            if j >= len(pat):
                return None
            cls = ''
            k = 0
            while k < len(items):
                if k + 2 < len(items) and items[k + 1] == '-':
                    cls += re.escape(items[k]) + '-' + re.escape(items[k + 2])
                    k += 3
                else:
                    cls += re.escape(items[k])
                    k += 1
            out.append('[' + ('^' if neg else '') + cls + ']')
            i = j + 1
        elif c == '\\':
            if i + 1 >= len(pat) or pat[i + 1] in '<>':
                return None
            out.append(re.escape(pat[i + 1]))
            i += 2
        elif c in '^$.':
            return None
        else:
            out.append(c)
            i += 1
    return ''.join(out)


def reference_order(sp, cs, ctx):
    """The mechanism the property names, with Python's regex engine as the matcher: match the
    configured marks left to right (leftmost, earlier mark first), reverse the matched span in a
    right-to-left context and the group span of a right-to-left mark, recurse into a nested group
    (restricted to the group) in the mark's direction.  None if a pattern cannot be translated."""
    import re
    if sp.marks_py is None:
        return None
    n = len(cs)
    if n and cs[-1] == NL:
        n -= 1
    s = ''.join(chr(c) for c in cs)
    ord_ = list(range(len(cs)))

    def fix(dirn, beg, end, depth):
        guard = 0
        while beg < end and guard < 200 and depth < 50:
            guard += 1
            best = None
            for mctx, mdir, grp, rx in sp.marks_py:
                if (dirn < 0 and mctx <= 0) or (dirn >= 0 and mctx >= 0):
                    m = rx.search(s[beg:end])
                    if m and (best is None or m.start() < best[0].start()):
                        best = (m, mdir, grp)
            if best is None:
                return
            m, mdir, grp = best
            rb, re_ = beg + m.start(), beg + m.end()
            cb = beg + m.start(grp) if m.start(grp) >= 0 else rb
            ce = beg + m.end(grp) if m.end(grp) >= 0 else re_
            if re_ <= beg:
                return
            if dirn < 0:
                ord_[rb:re_] = ord_[rb:re_][::-1]
            if mdir < 0:
                ord_[cb:ce] = ord_[cb:ce][::-1]
            if cb == rb:
                cb += 1
            if grp > 0:
                fix(mdir, cb, ce, depth + 1)
            beg = re_
    fix(ctx, 0, n, 0)
    return ord_


def req(cs, opt, word='ren'):
    """`ren` = all observables of ren.c too (short lines); `dir` = dir_context / dir_match / dir_reorder only
    (the long lines: the model of the column functions needs seconds on 300 characters)"""
    b = rc.enc(cs) if not isinstance(cs, (bytes, bytearray)) else bytes(cs)
    return '%s %s %d %d %d' % (word, vlib.hx(b), opt[0], opt[1], opt[2])


DEPTH_SAFE = 250      # runs up to this length never reach the recursion limit of regex.c (NDEPT = 256 minus the forks in front)


def oracle_dir(sp, cs, td, o, cut=0):
    """cut = how often the regex engine hit its recursion limit while this line was reordered (hook
    re_verif_depthcut).  Documented engine limit (as in C10/C12): a repetition is cut after about 256
    characters, so a longer run is matched -- and reversed -- in consecutive pieces.  With cut > 0 the
    exact expectation is kept for every run of at most DEPTH_SAFE characters; inside a longer run only
    the structure is required (the run's positions are permuted among themselves, in blocks that are
    each one reversed sub-run with letters at both ends)."""
    n = len(cs)
    ord_ = rc.ilist(o['ord'])
    if sorted(ord_) != list(range(n)):
        return ('the visual order %s is not a permutation of 0..%d' % (ord_, n - 1), 'a permutation', ord_)
    if n and cs[-1] == NL and ord_[n - 1] != n - 1:
        return ('the line terminator is not last in the visual order %s' % ord_, n - 1, ord_[n - 1])
    ctx = sp.context(cs, td)
    if int(o['dctx']) != ctx:
        return ('base direction %s, expected %d (option, else first character)' % (o['dctx'], ctx), ctx, o['dctx'])
    body = cs[:-1] if n and cs[-1] == NL else cs
    nb = len(body)
    # ---- structure of the permutation, also on lines with marks.  Every reordering step reverses a
    # matched span in place, so the order decomposes into minimal blocks of consecutive positions
    # that are mapped onto themselves; everything outside a block of length >= 2 keeps its place.
    blocks = []
    b, mx = 0, -1
    for i in range(nb):
        mx = max(mx, ord_[i])
        if mx == i:
            if i + 1 - b >= 2:
                blocks.append((b, i + 1))
            b = i + 1
    if ctx > 0:
        # left-to-right line (also inside nested groups, whose direction is left-to-right): the only
        # spans ever reversed are runs of right-to-left letters with neutrals inside, pairwise
        # disjoint -- each block is one such run, reversed in place, letters at both ends
        for b, e in blocks:
            seg = body[b:e]
            if [ord_[i] for i in range(b, e)] != list(range(e - 1, b - 1, -1)):
                return ('left-to-right line: positions %d..%d are permuted among themselves but not as one run reversed in place: %s'
                        % (b, e - 1, ord_[b:e]), list(range(e - 1, b - 1, -1)), ord_[b:e])
            if not (seg[0] in sp.cr2l and seg[-1] in sp.cr2l and all(c in sp.cr2l or c in sp.cneut for c in seg)):
                return ('left-to-right line: the reversed span %d..%d is not a run of right-to-left letters with neutrals inside (%s)'
                        % (b, e - 1, ' '.join('U+%04X' % c for c in seg)), 'a run of right-to-left letters', ord_[b:e])
    else:
        # right-to-left line: a moved block is a matched mark: it starts at a Latin letter/digit/underscore
        # (Latin run), a backslash or a dollar (the other marks), and never at a right-to-left letter
        for b, e in blocks:
            seg = body[b:e]
            if not (sp.alnum(seg[0]) or seg[0] in (0x5c, 0x24)):
                return ('right-to-left line: positions %d..%d were reordered (%s) but no mark or Latin run starts at U+%04X'
                        % (b, e - 1, ord_[b:e], seg[0]), list(range(b, e)), ord_[b:e])
            if sp.alnum(seg[0]) and not sp.has_marks(seg) and not sp.alnum(seg[-1]):
                return ('right-to-left line: the reordered Latin run %d..%d does not end in a Latin letter or digit' % (b, e - 1), list(range(b, e)), ord_[b:e])
    # the exact order on lines with marks: the mechanism with an independent matcher
    if sp.has_marks(body) and nb <= 100 and not cut:
        want = reference_order(sp, cs, ctx)
        if want is not None and want != ord_:
            return ('the marks of the line, matched left to right and reversed / entered as configured, give the order %s' % want, want, ord_)
    # completeness before the first mark character: a run that ends before any `\` or `$` is reversed
    firstmark = min([i for i, c in enumerate(body) if c in (0x5c, 0x24)] + [nb])
    loose = []           # long runs of a line on which the engine limit was hit

    def mirror(want, b, e):
        if cut and e - b > DEPTH_SAFE:
            loose.append((b, e))
            for i in range(b, e):
                want[i] = None
        else:
            for i in range(b, e):
                want[i] = b + e - 1 - i

    def loose_ok():
        # a run longer than the depth limit: the matcher gives it out in consecutive pieces.  Whatever the
        # exact limit is, (1) the run's characters stay inside the run, (2) every piece is reversed in place,
        # (3) a stretch left in place between / after the pieces holds at most one opposite-direction letter
        # (two of them with neutrals in between would have matched), (4) a piece followed by another one was
        # ended by the limit, so it is long (the generated lines have no long stretch of neutrals)
        opp = (lambda c: c in sp.cr2l) if ctx > 0 else sp.alnum
        for b, e in loose:
            if sorted(ord_[b:e]) != list(range(b, e)):
                return ('a run of opposite-direction letters longer than the matcher\'s depth limit (positions %d..%d) may be reversed in pieces, but its '
                        'characters must stay inside the run' % (b, e - 1), list(range(b, e)), ord_[b:e])
            inner = [(x, y) for x, y in blocks if b <= x and y <= e]
            for x, y in inner:
                if ord_[x:y] != list(range(y - 1, x - 1, -1)):
                    return ('inside the long run %d..%d the positions %d..%d are permuted but not as one piece reversed in place' % (b, e - 1, x, y - 1),
                            list(range(y - 1, x - 1, -1)), ord_[x:y])
            gaps = [(g0, g1) for g0, g1 in zip([b] + [y for _x, y in inner], [x for x, _y in inner] + [e]) if g0 < g1]
            for g0, g1 in gaps:
                k = sum(1 for i in range(g0, g1) if opp(body[i]))
                if k > 1:
                    return ('inside the long run %d..%d the positions %d..%d keep their place although they hold %d opposite-direction letters (a mark matches there)'
                            % (b, e - 1, g0, g1 - 1, k), 'reversed pieces', ord_[g0:g1][:40])
            for x, y in inner[:-1]:
                if y - x < DEPTH_SAFE // 2:
                    return ('inside the long run %d..%d the piece %d..%d (%d characters) ends although the depth limit of the matcher (256) was not reached'
                            % (b, e - 1, x, y - 1, y - x), '>= %d characters' % (DEPTH_SAFE // 2), y - x)
        return None
    if sp.has_marks(body):
        want = list(range(n))
        for b, e in sp.runs(body[:firstmark], ctx):
            # the run must be maximal inside the full line as well (not continued through the mark character)
            if e < firstmark or firstmark == nb:
                full = [r for r in sp.runs(cs, ctx) if r[0] == b]
                if full and full[0] == (b, e):
                    mirror(want, b, e)
        for i in range(firstmark):
            if want[i] is not None and want[i] != i and ord_[i] != want[i]:
                return ('the run of opposite-direction letters before the first mark must be reversed in place: position %d is %d, expected %d'
                        % (i, ord_[i], want[i]), want[:firstmark], ord_[:firstmark])
        return loose_ok()
    want = list(range(n))
    for b, e in sp.runs(cs, ctx):
        mirror(want, b, e)
    if any(w is not None and w != g for w, g in zip(want, ord_)):
        opp = [c for c in body if (c in sp.cr2l if ctx > 0 else sp.alnum(c))]
        if not opp:
            return ('a line with no opposite-direction character and no mark must keep logical order, got %s' % ord_, want, ord_)
        return ('each run of opposite-direction letters (with the neutrals inside) must be reversed in place and the rest keep its place: runs %s'
                % sp.runs(cs, ctx), want, ord_)
    return loose_ok()


def oracle_line(sp, cs, opt, o, cut=0):
    """the property on both observables of a line: `ord` = dir_reorder called directly, `rord` = the order array
    ren_position() itself used (its own call of dir_reorder; the identity if it made none).  opt = (order, td, lim).
    The second one is what the screen shows: it must be the reordered line exactly when the line is within
    linelimit in characters and the order option asks for reordering."""
    bad = oracle_dir(sp, cs, opt[1], o, cut)
    if bad:
        return bad
    if 'rord' not in o:
        return ('the probe did not report the order ren_position() uses', 'rord=', sorted(o))
    n = len(cs)
    nbytes = len(rc.enc(cs))
    if str(o['rord']).startswith('CALLS'):
        return ('ren_position() called dir_reorder more than once (%s)' % o['rord'], 'one call', o['rord'])
    rord = rc.ilist(o['rord'])
    where = 'order=%d linelimit=%d, the line has %d characters in %d bytes' % (opt[0], opt[2], n, nbytes)
    if rc.reorder_expected(cs, opt):
        b2 = oracle_dir(sp, cs, opt[1], {'ord': o['rord'], 'dctx': o['dctx']}, cut)
        if b2:
            return ('the order ren_position() lays the line out with (%s: within the limit, to be reordered) violates the property: %s'
                    % (where, b2[0]), b2[1], b2[2])
    elif rord != list(range(n)):
        why = ('order 0' if opt[0] == 0 else 'more characters than linelimit' if n > opt[2] else 'order 1 and no multi-byte character')
        return ('ren_position() must lay the line out in logical order (%s: %s), it used %s' % (where, why, rord), list(range(n)), rord)
    return None


def oracle_shape(sp, cs, ans):
    d = rc.parse_obs(ans)
    sh = d['sh'].split(',')[:-1] if d.get('sh') not in (None, True) else []
    if len(sh) != len(cs):
        return ('%d shaped characters for %d characters' % (len(sh), len(cs)), len(cs), len(sh))
    for i, c in enumerate(cs):
        want = sp.shaped(cs, i)
        got = sh[i]
        if want is None:
            if got != 'x':
                return ('character %d (U+%04X) is not a right-to-left character but was shaped to %s' % (i, c, got), 'untouched', got)
            continue
        if got == 'x':
            return ('character %d (U+%04X) was not shaped' % (i, c), '%04X' % want, got)
        try:
            g = vlib.unhx(got).decode('utf-8')
        except Exception:
            return ('shaping character %d (U+%04X) gave invalid UTF-8 %s' % (i, c, got), '%04X' % want, got)
        if len(g) != 1:
            return ('shaping character %d (U+%04X) gave %d characters' % (i, c, len(g)), 1, len(g))
        gc = ord(g)
        if c not in sp.rows and gc != c:
            return ('character %d (U+%04X) is not a joining letter but was altered to U+%04X' % (i, c, gc), '%04X' % c, '%04X' % gc)
        if not same_letter(c, gc):
            return ('character %d (U+%04X) was shaped to U+%04X, which is not a presentation form of the same letter' % (i, c, gc), '%04X' % want, '%04X' % gc)
        if gc != want:
            return ('character %d (U+%04X) was shaped to U+%04X; its neighbours call for U+%04X' % (i, c, gc, want), '%04X' % want, '%04X' % gc)
    return None


def gen_lines(ctx):
    rng = ctx.rng
    A, L = ARAB, LATIN
    S = lambda s: [ord(ch) for ch in s]
    fixed = [
        [], [NL], S('abc\n'), [0x633, 0x644, 0x627, 0x645, NL], S('a ') + [0x633, 0x644, 0x627, 0x645] + S(' b\n'),
        [0x633, 0x644, 0x627, 0x645, 0x20] + S('ab cd') + [0x20, 0x645, NL],
        S('a $') + [0x633, 0x644] + S('$ b\n'), S('\\*[') + [0x633, 0x61] + S('] ') + [0x645, 0x644, NL],
        S('\\fB{') + [0x628, 0x20, 0x62a] + S('} x\n'), [0x627, 0x20] + S('\\foo ab') + [0x20, 0x628, NL],
        [0x627] + S(' - ') + [0x628, NL], [0x627] + S(' 12 ') + [0x628, 0x20, 0x62a, NL], S('x') + [0x627] + S('y') + [0x628] + S('z'),
        [0x627, 0x628], [0x627], S('a') + [0x627], [0x627] + S('a'), [0x627] + S('ab'), [0x627] + S('a b') + [0x628],
        [0x628, 0x64e, 0x644, 0x651, 0x64e, 0x647, NL], [0x644, 0x200c, 0x627], [0x644, 0x200d, 0x20, 0x628], [0x640, 0x628, 0x640],
        S('$$'), S('$a$'), S('\\'), S('\\*[]'), S('\\*[a]'), S('\\a{}'), S('\\a{b}'), [0x627, 0x24, 0x628, 0x24, 0x62a],
        [0x20, 0x627, 0x628], [0x2d, 0x61, 0x62], [0x31, 0x627, 0x628, 0x20, 0x32], [0x627, 0x9, 0x628, 0x20, 0x62a],
        S("a'b") + [0x627], [0x627] + S("ab'cd e`f") + [0x628],
        [0x5d0, 0x5d1, 0x20, 0x61], [0xfe8e, 0xfe91, 0x20, 0x62],
        S('\\f{') + [0x627, 0x628] + S('} ') + [0x62a, 0x62b] + S(' z\n'), [0x633, 0x20] + S('\\*[ab] ') + [0x62a, 0x62b, NL],
        S('\\*[') + [0x627, 0x628] + S('] ') + [0x62a, 0x62b, NL], [0x633, 0x20] + S('\\f{ab} ') + [0x62a, 0x62b] + S(' cd\n'),
        S('x \\*[a') + [0x627, 0x628] + S('] ') + [0x62a, 0x20, 0x62b] + S(' \\g{') + [0x644, 0x645] + S('}') + [0x646, 0x647, NL],
    ]
    cases = []
    for cs in fixed:
        for td in (-2, -1, 0, 1, 2):
            cases.append((cs, (1, td, 256)))
    nrand = 1500 if ctx.quick else 25000
    for _ in range(nrand):
        n = rng.choice([1, 2, 3, 4, 6, 9, 14, 22, 40])
        kind = rng.below(6)
        cs = []
        while len(cs) < n:
            t = rng.below(20)
            if kind == 0:        # no marks: latin / arabic / neutrals / digits
                pool = [L, L, A, A, A, NEUT, NEUT, DIGIT, DIAC, JOIN, RPUNCT][t % 11]
                cs.append(rng.choice(pool))
            elif kind == 1:      # mostly arabic
                pool = [A, A, A, A, NEUT, DIAC, JOIN, L, DIGIT, RPUNCT, OTHERR][t % 11]
                cs.append(rng.choice(pool))
            elif kind == 2:      # mostly latin with some arabic words
                if t < 4:
                    cs += [rng.choice(A) for _k in range(rng.range(1, 4))]
                else:
                    cs.append(rng.choice([L, L, NEUT, DIGIT, MISC][t % 5]))
            else:                # with marks
                if t < 3:
                    inner = [rng.choice(rng.choice([L, A, NEUT, A])) for _k in range(rng.range(0, 4))]
                    m = rng.below(5)
                    if m == 0:
                        cs += S('\\*[') + inner + S(']')
                    elif m == 1:
                        cs += S('$') + inner + S('$')
                    elif m == 2:
                        cs += S('\\') + [rng.choice(L) for _k in range(rng.range(1, 3))] + S('{') + inner + S('}')
                    if m in (0, 2) and rng.chance(1, 2):       # a nested mark followed by right-to-left text
                        cs += [0x20, rng.choice(A), rng.choice(A)]
                    elif m == 3:
                        cs += S('\\') + [rng.choice(L + DIGIT) for _k in range(rng.range(0, 3))]
                    else:
                        cs.append(rng.choice([0x24, 0x5c, 0x7b, 0x7d, 0x5b, 0x5d, 0x2a]))
                else:
                    cs.append(rng.choice([L, A, A, NEUT, DIGIT, DIAC, MISC][t % 7]))
        if rng.chance(2, 3):
            cs.append(NL)
        cases.append((cs, (rng.choice([1, 1, 2]), rng.choice([-2, -1, -1, 0, 0, 1, 1, 2]), rng.choice([256, 256, 256, 3, 0]))))
    return cases


def gen_long(ctx):
    """lines whose opposite-direction run is around / beyond the recursion limit of the regex engine (256):
    pure runs and runs with neutrals inside, in a left-to-right line (Arabic run) and in a right-to-left line
    (Latin run), a short run after the long one"""
    rng = ctx.rng.fork('long')
    out = []
    lens = [250, 254, 255, 256, 257, 258, 300] if ctx.quick else [200, 250, 251, 252, 253, 254, 255, 256, 257, 258, 259, 260, 300, 511, 512, 513, 520, 600, 1030]
    for L in lens:
        for kind in range(5):
            if kind == 0:
                cs, td = [0x61, 0x20] + [ARAB[i % 7] for i in range(L)], 0
            elif kind == 1:
                cs, td = [0x61, 0x20] + [ARAB[i % 5] if i % 7 else 0x20 for i in range(L - 1)] + [0x627], 1
            elif kind == 2:
                cs, td = [0x627, 0x20] + [LATIN[i % 4] for i in range(L)], -1
            elif kind == 3:
                cs, td = [0x627, 0x20] + [LATIN[i % 4] if i % 5 else 0x20 for i in range(L - 1)] + [0x61, 0x20, 0x628], 0
            else:
                cs = [rng.choice(LATIN), 0x20] + [rng.choice(rng.choice([ARAB, ARAB, ARAB, NEUT, DIAC])) for _ in range(L - 2)] + [0x628, 0x628]
                cs += [0x20, 0x62, 0x20, 0x633, 0x644, 0x20, 0x63]
                td = rng.choice([0, 1, 2])
            out.append((cs + [NL], (1, td, 100000)))
    return out


def run(ctx):
    import time
    res = ctx.res
    t0 = time.time()
    tm = res.extra.setdefault('wall_seconds_by_phase', {})

    def lap(name):
        nonlocal t0
        tm[name] = round(time.time() - t0, 1)
        t0 = time.time()
    sp = Spec(rc.tables())
    if not sp.ok:
        res.broken_ties.append('the shape of dircontexts/dirmarks changed: CR2L/CNEUT could not be read from the generated tables')
        return
    probe, probe_asan, model = rc.build(model=lambda: ctx.model('ren'))
    res.rule = ('one evaluation = one line x textdirection through dir_context and dir_reorder (plus every dir_match answer on the way) and through '
                'uc_shape/ren_translate of every character, or one (letter, previous, next) triple / code point of the shaping sweeps; '
                'non-trivial = the line contains a right-to-left character or a mark; distinct = distinct (line, options)')
    if ctx.replay:
        rp = json.load(open(ctx.replay))
        inputs = rp.get('input', [])
    else:
        inputs = []
        for f in sorted(glob.glob(os.path.join(vlib.VERIF, 'corpus', 'C18-*.json'))):
            inputs += json.load(open(f)).get('input', [])
    cases, mal, shape_cases, long_cases = [], [], [], []
    for r in inputs:
        w = r.split()
        if w and w[0] in ('ren', 'dir', 'shape'):
            b = vlib.unhx(w[1])
            try:
                cs = [ord(ch) for ch in b.decode('utf-8')]
            except UnicodeDecodeError:
                cs = None
            if w[0] == 'dir' and cs is not None:
                long_cases.append((cs, (int(w[2]), int(w[3]), int(w[4]))))
            elif w[0] in ('ren', 'dir'):
                (cases if cs is not None else mal).append((cs if cs is not None else b, (int(w[2]), int(w[3]), int(w[4]))))
            elif cs is not None:
                shape_cases.append(cs)
    ncorpus = len(cases)
    if not ctx.replay:
        cases += gen_lines(ctx)
        long_cases += gen_long(ctx)
        # lines around linelimit in characters and in bytes (shared with C17, which runs them with all column observables);
        # here as `dir` requests: dctx, dm, ord and rord (the model's column functions cost 0.2 .. 0.6 s on a 16-character line)
        limit_cases = rc.gen_limit_lines(ctx.rng.fork('limit'), ctx.quick)
        long_cases += limit_cases
        rng = ctx.rng
        for _ in range(200 if ctx.quick else 3000):
            n = rng.range(1, 10)
            b = bytes(rng.choice([rng.range(1, 255), rng.range(0x80, 0xbf), 0xd8, 0xd9, 0xa7, 0x84, 0x61, 0x5c, 0x24]) for _k in range(n))
            try:
                b.decode('utf-8')
            except UnicodeDecodeError:
                mal.append((b, (1, rng.choice([-2, -1, 0, 1, 2]), 256)))
    # ---------------- dir_context / dir_match / dir_reorder
    lap('build probes and model')
    nshort = len(cases)
    # quick tier: generated lines of 9 and more characters go as `dir` requests -- this check reads dctx, dm, ord and rord only,
    # which both words print; the column functions of `ren` (C17's observables) cost the model 0.2 .. 0.6 s per such line and
    # made up most of the wall time.  Corpus and replay requests keep their word; the thorough tier runs every line as `ren`.
    words = ['ren' if (i < ncorpus or not ctx.quick or len(cs) < 9) else 'dir' for i, (cs, _o) in enumerate(cases)] + ['dir'] * len(long_cases)
    cases = cases + long_cases
    reqs = [req(cs, opt, w) for (cs, opt), w in zip(cases, words)] + [req(b, opt) for b, opt in mal]
    heads = []
    obs, mo, mreq, errs = rc.run_ren(probe, model, reqs, heads=heads)
    for e, part in errs or []:
        if e.startswith('probe'):
            res.violation({'what': 'the implementation crashed or hung: ' + e[:300], 'input': part[:40]})
        else:
            res.disagree({'what': e[:600], 'input': part[:10]})
    keys = ('dctx', 'dm', 'ord', 'rord')
    for r, a, b in zip(reqs, obs, mo):
        if a is None or b is None:
            continue
        da, db = rc.parse_obs(a), rc.parse_obs(b)
        if any(da.get(k) != db.get(k) for k in keys) or any(f in db for f in ('ORACLE-MISS', 'FLAG-MISMATCH', 'MATCHER-NOT-OK')):
            res.disagree({'what': 'dir_context / dir_match / dir_reorder: model and implementation differ', 'input': [r],
                          'implementation': {k: da.get(k) for k in keys}, 'model': {k: db.get(k) for k in keys},
                          'flags': [f for f in ('ORACLE-MISS', 'FLAG-MISMATCH', 'MATCHER-NOT-OK') if f in db]})
    lap('dir requests: probe and model')
    vreqs = reqs[:len(cases)]
    sub = vreqs[::2] if ctx.quick else vreqs
    if any('HANG' in e for e, _p in errs or []):
        sub = []        # the implementation does not return on some line (reported above): the sanitized build would hang the same way
    aobs, _m, _q, aerrs = rc.run_ren(probe_asan, None, sub)
    for e, part in aerrs or []:
        # narrow down to one request
        for r1 in part:
            o1, _a, _b, e1 = rc.run_ren(probe_asan, None, [r1], chunks=1)
            if e1:
                res.violation({'what': 'sanitized build of dir.c/ren.c/uc.c reports an error or crashes: ' + e1[0][0][-1500:], 'input': [r1]})
                break
        else:
            res.violation({'what': 'sanitized build reports an error or crashes: ' + e[-1200:], 'input': part[:40]})
    lap('dir requests: sanitized probe')
    nviol = 0
    for (cs, opt), word, r, a, hd in zip(cases, words, reqs, obs, heads):
        if a is None:
            continue
        res.evaluations += 1
        res.count('valid lines')
        res.count('td=%d' % opt[1])
        cut = int((hd or {}).get('cut', 0))
        if word == 'dir' and len(cs) > 240:
            res.count('lines of more than 240 characters (runs around or beyond the depth limit of the regex engine, lines around the default linelimit)')
        if cut:
            res.count('lines on which the regex engine hit its depth limit (exact run expectation only for runs <= %d characters)' % DEPTH_SAFE)
        if any(c in sp.cr2l or c in (0x5c, 0x24) for c in cs):
            res.nontriv(r)
        if sp.has_marks(cs):
            res.count('lines with marks')
        nchr, nbyt = len(cs), len(rc.enc(cs))
        if opt[0] and abs(nchr - opt[2]) <= 1:
            res.count('lines of linelimit-1..linelimit+1 characters (order 1, 2)')
        if opt[0] and abs(nbyt - opt[2]) <= 1 and nchr < nbyt:
            res.count('multi-byte lines of linelimit-1..linelimit+1 bytes (order 1, 2)')
        if opt[0] and nchr <= opt[2] < nbyt:
            res.count('lines within linelimit in characters and over it in bytes (order 1, 2): reordered')
        o = rc.parse_obs(a)
        try:
            bad = oracle_line(sp, cs, opt, o, cut)
        except Exception as e:
            bad = ('oracle could not read the answer: %r' % e, None, a[:300])
        if bad:
            nviol += 1
            if nviol > 3:
                continue

            def one(subcs, opt=opt, word=word):
                h2 = []
                o2, _m2, _q2, e2 = rc.run_ren(probe, None, [req(subcs, opt, word)], chunks=1, heads=h2)
                if e2 or o2[0] is None:
                    return None, None
                d2 = rc.parse_obs(o2[0])
                return oracle_line(sp, subcs, opt, d2, int((h2[0] or {}).get('cut', 0))), d2

            def fails(subcs):
                try:
                    return one(subcs)[0] is not None
                except Exception:
                    return False
            small = vlib.shrink(cs, fails, max_steps=150)
            b2, d2 = one(small)
            b2 = b2 or bad
            d2 = d2 or {}
            res.violation({'what': b2[0][:1500], 'input': [req(small, opt, word)], 'line_code_points': ['U+%04X' % c for c in small][:300],
                           'options': {'order': opt[0], 'td': opt[1], 'lim': opt[2]}, 'expected': str(b2[1])[:1500], 'observed': str(b2[2])[:1500],
                           'answer': {k: str(d2.get(k))[:1500] for k in keys}})
    res.count('malformed lines (model vs code only)', len(mal))
    res.evaluations += len(mal)
    # the matcher hypothesis (spans in bounds, non-empty) on every recorded answer
    nbadspan = 0
    # (trace records and dm entries are parallel lists)
    for r, q, a in zip(reqs, mreq, obs):
        if a is None or q is None:
            continue
        tr = q.split()[-1]
        dm = rc.parse_obs(a).get('dm')
        if tr == '-' or dm in (None, '-', True):
            continue
        for rec, m in zip(tr.split(';'), dm.split(';')):
            if m in ('x', ''):
                continue
            b, e = [int(x) for x in rec.split(',')[:2]]
            rb, re_, cb, ce, _d, _rec = [int(x) for x in m.split(',')]
            res.count('matches')
            if not (b <= rb <= cb <= ce <= re_ <= e and b < re_):
                nbadspan += 1
                if nbadspan <= 2:
                    res.disagree({'what': 'a mark matched with an empty or out-of-range span (hypothesis of C18_terminates / C18_runs_reversed)', 'input': [r],
                                  'call': rec, 'spans': m})
    lap('dir requests: oracle')
    # ---------------- shaping
    shape_cases += [cs for cs, _o in cases[:nshort] if any(c in sp.cr2l or sp.r2l(c) for c in cs)]
    if not ctx.replay:
        rng = ctx.rng
        # every letter with every kind of neighbour, diacritics in between
        letters = [a[0] for a in sp.t['achars']]
        nb = [0x628, 0x627, 0x640, 0x200d, 0x200c, 0x61, 0x20, 0x621, 0x6cc, 0xfe8e]
        for c in letters:
            for p in nb:
                for n in nb:
                    if rng.chance(1, 4 if ctx.quick else 1):
                        d1 = [rng.choice(DIAC)] if rng.chance(1, 3) else []
                        d2 = [rng.choice(DIAC), rng.choice(DIAC)] if rng.chance(1, 3) else []
                        shape_cases.append([p] + d1 + [c] + d2 + [n])
            shape_cases.append([c])
            shape_cases.append([0x64e, c, 0x64e])
    sreqs = ['shape %s 1' % vlib.hx(rc.enc(cs)) for cs in shape_cases]
    sreqs0 = ['shape %s 0' % vlib.hx(rc.enc(cs)) for cs in shape_cases[::7]]
    sweeps = [] if ctx.replay else ['cssweep', 'fasweep']
    allreq = sreqs + sreqs0 + sweeps
    rc1, out1, err1 = vlib.run_lines(probe, allreq, timeout=900)
    if rc1 != 0:
        res.violation({'what': 'probe_ren (shape) exited with status %d' % rc1, 'stderr': err1[-2000:], 'input': allreq[:20]})
    rca, outa, erra = vlib.run_lines(probe_asan, sreqs, timeout=900)
    if rca != 0:
        res.violation({'what': 'sanitized probe_ren (shape) exited with status %d' % rca, 'stderr': erra[-2000:], 'input': sreqs[:20]})
    if model:
        rc2, out2, err2 = vlib.run_lines(model, allreq, timeout=900)
        if rc2 != 0 or len(out2) != len(out1):
            res.disagree({'what': 'model driver (shape): rc=%d, %d lines vs %d' % (rc2, len(out2), len(out1)), 'stderr': err2[-800:]})
        else:
            k = 0
            for i, rq in enumerate(allreq):
                # sweeps answer with several lines; compare the whole tail at once
                if rq in ('cssweep', 'fasweep'):
                    break
                if out1[i] != out2[i]:
                    res.disagree({'what': 'uc_shape / ren_translate: model and implementation differ', 'input': [rq], 'implementation': out1[i][:600], 'model': out2[i][:600]})
                k = i + 1
            if out1[k:] != out2[k:]:
                for a, b in zip(out1[k:], out2[k:]):
                    if a != b:
                        res.disagree({'what': 'uc_cshape / can_join / find_achar sweep: model and implementation differ', 'input': ['cssweep', 'fasweep'],
                                      'implementation': a[:300], 'model': b[:300]})
                        break
    nsv = 0
    for cs, rq, a in zip(shape_cases, sreqs, out1):
        res.evaluations += 1
        res.count('shaped lines')
        res.nontriv(rq)
        try:
            bad = oracle_shape(sp, cs, a)
        except Exception as e:
            bad = ('oracle could not read the answer: %r' % e, None, a[:200])
        if bad:
            nsv += 1
            if nsv > 3:
                continue

            def sfails(subcs):
                rcx, ox, _e = vlib.run_lines(probe, ['shape %s 1' % vlib.hx(rc.enc(subcs))])
                try:
                    return rcx == 0 and oracle_shape(sp, subcs, ox[0]) is not None
                except Exception:
                    return False
            small = vlib.shrink(cs, sfails, max_steps=100)
            rcx, ox, _e = vlib.run_lines(probe, ['shape %s 1' % vlib.hx(rc.enc(small))])
            b2 = oracle_shape(sp, small, ox[0]) or bad
            res.violation({'what': b2[0], 'input': ['shape %s 1' % vlib.hx(rc.enc(small))], 'line_code_points': ['U+%04X' % c for c in small],
                           'expected': b2[1], 'observed': b2[2], 'answer': ox[0][:400]})
    # with shaping switched off ren_translate only substitutes placeholders
    for cs, rq, a in zip(shape_cases[::7], sreqs0, out1[len(sreqs):]):
        d = rc.parse_obs(a)
        tr = d['tr'].split(',')[:-1] if d.get('tr') not in (None, True) else []
        cl = rc.Classes(sp.t)
        for i, c in enumerate(cs):
            want = cl.ph[c][0].hex() if c in cl.ph else ('efbfbd' if cl.bell(c) else 'x')
            if i < len(tr) and tr[i] != want:
                res.violation({'what': 'with shaping off, character %d (U+%04X) is drawn as %s, expected %s' % (i, c, tr[i], want), 'input': [rq],
                               'expected': want, 'observed': tr[i]})
                break
    if sweeps and len(out1) > len(sreqs) + len(sreqs0):
        tail = out1[len(sreqs) + len(sreqs0):]
        # oracle on the sweep: uc_cshape(cur, prev, next) vs the spec computed from the generated table + unicodedata
        extra = [0, 0x41, 0x20, 0x64b, 0x670, 0x600, 0x6f0, 0xfe8e, 0xfeff, 0x200e]
        nbs = [a[0] for a in sp.t['achars']] + extra
        nbad = 0
        for line in tail[:-1]:
            if line.startswith('j') or ':' not in line:
                continue
            head, _c, body = line.partition(':')
            if ',' not in body or not head.isdigit():
                continue
            cur = int(head)
            vals = [int(x) for x in body.split(',') if x != '']
            if len(vals) != len(nbs) * len(nbs):
                continue
            row = sp.rows.get(cur)
            k = 0
            for p in nbs:
                for n in nbs:
                    res.evaluations += 1
                    if not row:
                        want = cur
                    else:
                        jp, jn = sp.can_join(p, cur), sp.can_join(cur, n)
                        want = (row[3] if jp and jn else row[4] if jp else row[2] if jn else row[0]) or cur
                    if vals[k] != want or not same_letter(cur, vals[k]):
                        nbad += 1
                        if nbad <= 2:
                            res.violation({'what': 'uc_cshape(U+%04X, prev U+%04X, next U+%04X) = U+%04X, expected U+%04X (a form of the same letter chosen by whether the neighbours join)'
                                                   % (cur, p, n, vals[k], want), 'input': ['shape %s 1' % vlib.hx(rc.enc([x for x in (p, cur, n) if x]))],
                                           'expected': '%04X' % want, 'observed': '%04X' % vals[k]})
                    k += 1
        res.count('letter x neighbour triples (sweep)', sum(1 for l in tail[:-1] if l[:1].isdigit()) * len(nbs) * len(nbs))
        want_fa = ''.join('%d:%d,' % (a[0], i) for i, a in enumerate(sp.t['achars']))
        if tail[-1] != want_fa:
            res.violation({'what': 'find_achar over all code points does not find exactly the rows of the table', 'input': ['fasweep'],
                           'expected': want_fa[:300], 'observed': tail[-1][:300]})
        res.count('code points (find_achar, exhaustive)', 0x110001)
    check_table(res, sp)
    lap('shaping: lines and sweeps')
    for (cs, opt), r, a in list(zip(cases, reqs, obs))[:3000:501]:
        res.sample({'request': r, 'answer': {k: rc.parse_obs(a or '').get(k) for k in keys}})
    res.extra['cr2l_size'] = len(sp.cr2l)
