"""C16 -- UTF-8 character arithmetic agrees with code points; edits keep text valid UTF-8.

Correspondence: harness/probe_uc.c (compiled against /repo's uc.c, plain and ASan) versus the
extracted Coq model (coq/UcDefs.v) on (i) every Unicode scalar value, (ii) all strings up to a
small length over an alphabet with 1-, 2-, 3-, 4-byte, wide, combining and boundary characters,
(iii) random longer valid strings, (iv) a separate malformed stream (model vs code only).
Oracle (the property itself, evaluated on the implementation's answers): Python's own UTF-8
codec and code-point segmentation.
"""
import itertools, json
import vlib

GROUP = 'uc'
TRUSTED = ['tools/c2clite.py + clang -ast-dump=json (syntax printer of the translated uc.c functions) and the C semantics fixed in coq/CLite.v (x86-64 integer sizes, left-to-right evaluation, conversions wrap, <ctype.h> builtins in the C locale)',
           'Python 3 str.encode/decode("utf-8") as the independent reference of the failing-input search']

ALPHA = [0x61, 0x20, 0x5f, 0x09, 0x7f, 0x80, 0xe9, 0x62a, 0x7ff, 0x800, 0x20ac, 0x4e2d, 0x301, 0x200c,
         0xd7ff, 0xe000, 0xffff, 0x10000, 0x1f600, 0x10ffff]
SMALL = [0x61, 0xe9, 0x20ac, 0x1f600, 0x301, 0x20]


def cls(b0):
    """isspace | isprint << 1 | isalpha << 2 | isdigit << 3 of uc.c's character classes, from the first byte (C locale)"""
    c = b0
    sp = c <= 0x7f and chr(c) in ' \t\n\r\v\f'
    pr = c > 0x7f or 0x20 <= c <= 0x7e
    al = c > 0x7f or (0x41 <= c <= 0x5a) or (0x61 <= c <= 0x7a)
    dg = 0x30 <= c <= 0x39
    return int(sp) | int(pr) << 1 | int(al) << 2 | int(dg) << 3


def enc(c):
    return chr(c).encode('utf-8')


def kind(b0):
    c = b0
    if c <= 0x7f and chr(c) in ' \t\n\r\v\f':
        return 0
    if c > 0x7f or chr(c).isalpha() or chr(c).isdigit() or c == 0x5f:
        return 1
    return 2


def parse_str_line(line):
    d = {}
    for part in line.split(' '):
        k, _, v = part.partition('=')
        d[k] = v
    return d


def ints(v):
    return [x for x in v.split(',') if x != '']


def oracle_str(cs, line):
    """cs: list of code points; line: implementation's answer.  Returns None or a description."""
    d = parse_str_line(line)
    encs = [enc(c) for c in cs]
    s = b''.join(encs)
    n = len(cs)
    bounds = [0]
    for e in encs:
        bounds.append(bounds[-1] + len(e))
    if d.get('slen') != str(n):
        return 'character count %s, code points %d' % (d.get('slen'), n)
    if ints(d['chop']) != [str(b) for b in bounds]:
        return 'chopped boundaries %s, code-point boundaries %s' % (d['chop'], bounds)
    want_chr = [str(len(s))] + [str(b) for b in bounds] + ['x']
    if ints(d['chr']) != want_chr:
        return 'n-th character offsets %s, expected %s' % (d['chr'], want_chr)
    off = ints(d['off'])
    ln = ints(d['len'])
    code = ints(d['code'])
    nxt = ints(d['next'])
    prv = ints(d['prev'])
    end = ints(d['end'])
    knd = ints(d['kind'])
    cl = ints(d['cls']) if 'cls' in d else None
    for k in range(n + 1):
        b = bounds[k]
        if off[b] != str(k):
            return 'offset conversion does not round-trip at character %d: %s' % (k, off[b])
        if k < n:
            if ln[b] != str(len(encs[k])):
                return 'length of character %d: %s, expected %d' % (k, ln[b], len(encs[k]))
            if code[b] != str(cs[k]):
                return 'code point of character %d: %s, expected %d' % (k, code[b], cs[k])
            if nxt[b] != str(len(encs[k])):
                return 'next of character %d moves %s bytes, expected %d' % (k, nxt[b], len(encs[k]))
            if end[b] != str(len(encs[k]) - 1):
                return 'end of character %d at +%s, expected +%d' % (k, end[b], len(encs[k]) - 1)
            if knd[b] != str(kind(encs[k][0])):
                return 'kind of character %d: %s' % (k, knd[b])
            if cl is not None and cl[b] != str(cls(encs[k][0])):
                return 'character classes (isspace|isprint<<1|isalpha<<2|isdigit<<3) of character %d (first byte 0x%02x): %s, expected %d' % (k, encs[k][0], cl[b], cls(encs[k][0]))
        if k > 0 and prv[b] != str(len(encs[k - 1])):
            return 'previous of boundary %d moves %s bytes, expected %d (next does not undo previous)' % (k, prv[b], len(encs[k - 1]))
    if n <= 6:
        sub = d['sub'].split(',')[:-1]
        i = 0
        for b in range(-1, n + 1):
            for e in range(-1, n + 1):
                if 0 <= b <= e:
                    want = vlib.hx(b''.join(encs[b:e]))
                    if sub[i] != want:
                        return 'substring [%d,%d) = %s, expected %s' % (b, e, sub[i], want)
                i += 1
    return None


def oracle_sweep(line):
    w = line.split()
    c = int(w[0])
    e = enc(c)
    want = [str(c), str(len(e)), str(c), str(len(e) - 1), str(len(e)), '2', e.hex()]
    if w != want:
        return 'scalar U+%04X: got %s expected %s (c len code end next slen put)' % (c, ' '.join(w[1:]), ' '.join(want[1:]))
    return None



# ---- the allocating helpers: uc_sub (any int offsets), uc_cat, uc_dup, uc_trim, uc_lastline, uc_iscomb -------------------------
# the characters the editor treats as combining (uc.c uc_acomb): the standard Arabic diacritics, superscript alef, shadda ligatures
def spec_comb(c):
    return 0x064b <= c <= 0x0655 or c == 0x0670 or 0xfc5e <= c <= 0xfc63


def decode_valid(b):
    """the code points of b when b is valid UTF-8 without NUL, else None"""
    try:
        cs = [ord(ch) for ch in b.decode('utf-8')]
    except UnicodeDecodeError:
        return None
    return cs


def unhx(h):
    return b'' if h == '-' else bytes.fromhex(h)


def whole_prefix(b):
    """the longest prefix of b that is valid UTF-8 when b is a byte prefix of valid text, else None"""
    for cut in range(0, 4):
        if cut > len(b):
            break
        p = b[:len(b) - cut]
        if decode_valid(p) is not None:
            # what was dropped must be a proper prefix of ONE encoded character
            rest = b[len(p):]
            if not rest:
                return p
            lead = rest[0]
            need = 2 if 0xc2 <= lead <= 0xdf else 3 if 0xe0 <= lead <= 0xef else 4 if 0xf0 <= lead <= 0xf4 else 0
            if need > len(rest) and all(0x80 <= x <= 0xbf for x in rest[1:]):
                return p
            return None
    return None


def oracle_mem(req, line):
    """the property evaluated on the implementation's answer to a sub / cat / mem request (None = fine or not judged)"""
    w = req.split(' ')
    if w[0] == 'cat':
        a, b = unhx(w[1]), unhx(w[2])
        if decode_valid(a) is None or decode_valid(b) is None:
            return None
        if line != vlib.hx(a + b):
            return 'uc_cat of two valid strings is %s, expected their concatenation %s' % (line, vlib.hx(a + b))
        return None
    if w[0] == 'sub':
        s = unhx(w[1])
        cs = decode_valid(s)
        if cs is None:
            return None
        n = len(cs)
        b, e = int(w[2]), int(w[3])
        if (b > n) != (e > n):
            return None          # undefined in the C text (one offset beyond the line): the probe does not call it
        kb = n if b < 0 else b
        ke = n if e < 0 else e
        want = b''.join(enc(c) for c in cs[kb:ke]) if kb <= n and ke <= n else b''
        if line != vlib.hx(want):
            return 'uc_sub(s, %d, %d) of a valid line of %d characters is %s, expected the characters [%d,%d) = %s' % (b, e, n, line, kb, ke, vlib.hx(want))
        try:
            unhx(line).decode('utf-8')
        except (UnicodeDecodeError, ValueError):
            return 'uc_sub(s, %d, %d) of a valid line is not valid UTF-8: %s' % (b, e, line)
        return None
    if w[0] == 'mem':
        s = unhx(w[1])
        d = parse_str_line(line)
        cs = decode_valid(s)
        nl = s.rfind(b'\n') + 1
        if d.get('dup') != vlib.hx(s):
            return 'uc_dup copy %s differs from the string' % d.get('dup')
        if d.get('last') != str(nl):
            return 'uc_lastline at +%s, the text behind the last newline starts at +%d' % (d.get('last'), nl)
        if d.get('keep') != '1':
            return 'uc_trim changed bytes other than the terminator it writes'
        tr = unhx(d.get('trim', '-'))
        if not s.startswith(tr):
            return 'uc_trim left %s, not a prefix of the string' % d.get('trim')
        if cs is not None:
            if tr != s:
                return 'uc_trim cut valid UTF-8 text to %s' % d.get('trim')
            comb = d.get('comb', '')
            pos = 0
            for c in cs:
                want = '1' if (c > 0x7f and spec_comb(c)) else '0'
                if comb[pos:pos + 1] != want:
                    return 'uc_iscomb of U+%04X at +%d is %s, expected %s' % (c, pos, comb[pos:pos + 1], want)
                pos += len(enc(c))
        else:
            wp = whole_prefix(s)
            if wp is not None and tr != wp:
                return 'uc_trim of valid text cut inside a character left %s, expected the whole characters %s' % (d.get('trim'), vlib.hx(wp))
        return None
    return None


def mem_requests(ctx):
    """sub / cat / mem requests aimed at the boundaries: offsets at, around and beyond the number of characters (both beyond
    only: one beyond is undefined in the C text), negative offsets, beg > end, multi-byte characters at the cut, the joint of
    uc_cat inside and between multi-byte characters, valid text cut at every byte offset (truncated trailing sequences) and
    malformed bytes for uc_trim, newlines first / last / doubled / absent for uc_lastline, the combining ranges and their
    neighbours for uc_iscomb."""
    r = ctx.rng.fork('ucmem')
    out = []
    L = 3 if ctx.quick else 4
    small = []
    for n in range(0, L + 1):
        for cs in itertools.product(SMALL, repeat=n):
            small.append(list(cs))
    for cs in small:
        h = vlib.hx(b''.join(enc(c) for c in cs))
        n = len(cs)
        out.append('mem ' + h)
        if n <= 2 or r.below(4) == 0:
            for b in range(-2, n + 1):
                for e in range(-2, n + 1):
                    out.append('sub %s %d %d' % (h, b, e))
        for b, e in ((n + 1, n + 1), (n + 1, n + 3), (n + 2, n + 1), (2147483647, n + 1), (n, n), (n, -1), (-1, n), (0, n), (n, 0)):
            out.append('sub %s %d %d' % (h, b, e))
    two = [cs for cs in small if len(cs) <= 2]
    for a in two:
        for b in two:
            if len(a) + len(b) <= 3:
                out.append('cat %s %s' % (vlib.hx(b''.join(enc(c) for c in a)), vlib.hx(b''.join(enc(c) for c in b))))
    # combining ranges and their neighbours, newline placements
    for c in (0x64a, 0x64b, 0x650, 0x655, 0x656, 0x66f, 0x670, 0x671, 0xfc5d, 0xfc5e, 0xfc63, 0xfc64, 0x301, 0x20, 0x7e, 0x7f, 0x80, 0xa0):
        out.append('mem ' + vlib.hx(enc(0x62a) + enc(c) + enc(0x61)))
    for t in ('', '\n', 'a\n', '\na', 'a\n\n', 'é\n€', 'a\nb\nc', '\n\n', 'ab', '€\n', '\n€\n😀'):
        out.append('mem ' + vlib.hx(t.encode('utf-8')))
    # random valid strings: offsets around the ends, cuts at every byte offset, cat at every split
    for i in range(150 if ctx.quick else 3000):
        n = r.choice([1, 2, 3, 5, 8, 20, 60])
        cs = [r.choice(ALPHA + [0x0a, 0x64b, 0x670, 0xfc5e]) if r.below(3) else r.choice(SMALL) for _ in range(n)]
        b = b''.join(enc(c) for c in cs)
        h = vlib.hx(b)
        out.append('mem ' + h)
        offs = [-5, -1, 0, 1, n // 2, n - 1, n]
        for j in range(6):
            out.append('sub %s %d %d' % (h, r.choice(offs), r.choice(offs)))
        out.append('sub %s %d %d' % (h, n + 1 + r.below(3), n + 1 + r.below(9)))
        if n <= 8:
            for k in range(len(b) + 1):
                out.append('mem ' + vlib.hx(b[:k]))
                out.append('cat %s %s' % (vlib.hx(b[:k]), vlib.hx(b[k:])))
        else:
            k = r.below(len(b) + 1)
            out.append('mem ' + vlib.hx(b[:k]))
            k2 = sum(len(enc(c)) for c in cs[:r.below(n + 1)])
            out.append('cat %s %s' % (vlib.hx(b[:k2]), vlib.hx(b[k2:])))
            out.append('cat %s %s' % (vlib.hx(b[k2:]), vlib.hx(b[:k2])))
    # malformed bytes (model vs code; the prefix / frame clauses of uc_trim are still judged)
    for i in range(150 if ctx.quick else 3000):
        n = r.range(1, 10)
        b = bytes(r.choice([r.range(1, 255), r.range(0x80, 0xbf), r.range(0xc0, 0xf7), 0x61, 0x0a]) for _ in range(n))
        out.append('mem ' + vlib.hx(b))
        out.append('sub %s %d %d' % (vlib.hx(b), r.range(-1, 3), r.range(-1, 6)))
    return out


MB = ['a', 'b', ' ', 'é', 'ت', '€', '中', '😀', 'x\u0301', 'Z', '_', '.', '\t']


def gen_text(rng):
    lines = []
    for i in range(rng.range(1, 5)):
        n = rng.choice([0, 1, 2, 5, 9, 14])
        lines.append(''.join(rng.choice(MB) for _ in range(n)))
    return ('\n'.join(lines) + '\n').encode('utf-8')


def gen_vi_prog(rng):
    """A character-wise editing program over multi-byte text (no raw-byte insertion: no ^V)."""
    atoms = []
    motions = ['h', 'l', 'j', 'k', 'w', 'b', 'e', '0', '$', '^', 'W', 'B', 'E', 'fa', 'Fb', 't ', 'T ', ';', ',', '%', 'G', '1G', '2|', '5|']
    for i in range(rng.range(2, 14)):
        t = rng.below(20)
        cnt = rng.choice(['', '', '', '2', '3', '7'])
        ch = rng.choice(MB)
        txt = ''.join(rng.choice(MB) for _ in range(rng.range(1, 4))).replace('\t', ' ')
        if t < 6:
            atoms.append(cnt + rng.choice(motions))
        elif t == 6:
            atoms.append(cnt + 'x')
        elif t == 7:
            atoms.append(cnt + 'X')
        elif t == 8:
            atoms.append(rng.choice(['d', 'c', 'y', 'g~', 'gu', 'gU']) + cnt + rng.choice(motions) + '\x1b')
        elif t == 9:
            atoms.append(rng.choice([cnt, '4', '5', '9']) + 'r' + (ch if ch != '\t' else 'q'))
        elif t == 10:
            atoms.append(cnt + '~')
        elif t == 11:
            atoms.append(rng.choice(['i', 'a', 'I', 'A', 'o', 'O', 's', 'S', 'C']) + txt + '\x1b')
        elif t == 12:
            atoms.append(rng.choice(['p', 'P', 'J', 'D', 'Y', 'u', '.', '\x12']))
        elif t == 13:
            atoms.append('i' + txt + rng.choice(['\x08', '\x17', '\x15', '']) + txt + '\x1b')
        elif t == 14:
            atoms.append(rng.choice(['dd', 'yy', 'cc' + txt + '\x1b', '>>', '<<']))
        elif t == 15:
            atoms.append(':s/%s/%s/g\n' % (rng.choice(['a', 'é', 'x*', '.', '中', ' ']), rng.choice(['', 'Q', 'é', '\\0\\0', '€'])))
        elif t == 16:
            atoms.append('"a' + rng.choice(['yl', 'yw', 'dl', 'p', 'P']))
        else:
            atoms.append(cnt + rng.choice(['l', 'h']) + rng.choice(['x', 'rZ', '~', 'i' + ch.replace('\t', ' ') + '\x1b']))
    return atoms


def run_programs(ctx, res):
    """Character-wise editing programs on the real binary: the written file must stay valid UTF-8."""
    rng = ctx.rng.fork('viprogs')
    vi = vlib.build_vi()
    cases = []
    for i in range(400 if ctx.quick else 6000):
        cases.append((gen_text(rng), gen_vi_prog(rng)))

    def one(case, atoms=None):
        text, prog = case
        prog = prog if atoms is None else atoms
        keys = ''.join(prog).encode('utf-8') + b'\x1b:w! out\n:q!\n'
        return vlib.run_vi(vi, keys, files={'f': text}, args=['f'], readback=['out'], rows=10, cols=40, timeout=20)

    def invalid(b):
        try:
            b.decode('utf-8')
            return False
        except UnicodeDecodeError:
            return True

    outs = vlib.pmap(lambda c: one(c), cases)
    for case, r in zip(cases, outs):
        res.evaluations += 1
        res.count('vi editing programs')
        out = r.files.get('out')
        if r.timed_out or out is None:
            r2 = vlib.run_vi(vi, ''.join(case[1]).encode('utf-8') + b'\x1b:w! out\n:q!\n', files={'f': case[0]}, args=['f'], readback=['out'], rows=10, cols=40, timeout=60)
            out = r2.files.get('out')
            if out is None:
                if r2.rc is not None and r2.rc < 0 and r.rc is not None and r.rc < 0:
                    # killed by a signal twice: a character-wise command over multi-byte text crashed
                    # (typically a byte/character mix-up handing a garbage length to memcpy)
                    atoms = vlib.shrink(case[1], lambda a: (lambda o: o.rc is not None and o.rc < 0)(one(case, a)))
                    res.violation({'what': 'a character-wise editing program over multi-byte text crashed the editor (signal %d)' % (-r2.rc),
                                   'input': {'file': case[0].hex(), 'keys': [a.encode('utf-8').hex() for a in atoms], 'window': '10x40'},
                                   'observed': 'killed by signal %d' % (-r2.rc), 'expected': 'the program runs to :w and :q'})
                else:
                    res.count('programs without a written file (ignored here; C05 covers hangs)')
                continue
        res.nontriv('prog:' + ''.join(case[1]))
        if invalid(out):
            atoms = vlib.shrink(case[1], lambda a: (lambda o: o is not None and invalid(o))(one(case, a).files.get('out')))
            res.violation({'what': 'a character-wise editing program turned valid UTF-8 text into invalid UTF-8',
                           'input': {'file': case[0].hex(), 'keys': [a.encode('utf-8').hex() for a in atoms], 'window': '10x40'},
                           'observed': one(case, atoms).files.get('out').hex(), 'expected': 'valid UTF-8'})
    if cases:
        res.sample({'file': cases[0][0].decode('utf-8'), 'keys': cases[0][1]})


def run_ex_programs(ctx, res):
    """ex substitutions over multi-byte text (patterns that match the empty string, classes, groups):
    the written file must stay valid UTF-8."""
    rng = ctx.rng.fork('exprogs')
    vi = vlib.build_vi()
    pats = ['a', 'é', 'x*', '.', '中', '[aé]', '(é|b)', '\\<', '$', '^', 'b*', '.?', '[^a]', '(.)(.)', 'é*', '😀', '[[:alpha:]]*']
    reps = ['', 'Q', 'é', '\\0\\0', '€', '\\1', '\\2\\1', '-', '中\\0']
    cases = []
    for i in range(300 if ctx.quick else 5000):
        cmds = []
        for j in range(rng.range(1, 4)):
            addr = rng.choice(['', '%', '1', '$', '1,2', '2,$'])
            cmds.append('%ss/%s/%s/%s' % (addr, rng.choice(pats), rng.choice(reps), rng.choice(['', 'g', 'g', 'g'])))
        cases.append((gen_text(rng), cmds))

    def one(case, cmds=None):
        text, c = case
        c = c if cmds is None else cmds
        script = ('\n'.join(c) + '\nw! out\nq!\n').encode('utf-8')
        return vlib.run_ex(vi, script, files={'f': text}, args=['f'], readback=['out'], timeout=20)

    def invalid(b):
        try:
            b.decode('utf-8')
            return False
        except UnicodeDecodeError:
            return True

    outs = vlib.pmap(lambda c: one(c), cases)
    for case, r in zip(cases, outs):
        res.evaluations += 1
        res.count('ex substitute programs')
        out = r.files.get('out')
        if out is None:
            continue
        res.nontriv('ex:' + '|'.join(case[1]))
        if invalid(out):
            cmds = vlib.shrink(case[1], lambda a: (lambda o: o is not None and invalid(o))(one(case, a).files.get('out')))
            res.violation({'what': 'an ex substitute turned valid UTF-8 text into invalid UTF-8',
                           'input': {'file': case[0].hex(), 'script': cmds},
                           'observed': one(case, cmds).files.get('out').hex(), 'expected': 'valid UTF-8'})
    if cases:
        res.sample({'file': cases[0][0].decode('utf-8'), 'script': cases[0][1]})


def run(ctx):
    res = ctx.res
    rng = ctx.rng
    probe = vlib.build_probe('uc', includes=['uc'])
    probe_asan = vlib.build_probe('uc', includes=['uc'], asan=True)
    model = ctx.model('uc')
    res.rule = ('sweep = every Unicode scalar value U+0001..U+10FFFF through uc_len/uc_code/uc_end/uc_next/uc_slen/uc_cput; '
                'str = one string through every helper at every offset; sub / cat / mem = uc_sub with any int offsets, uc_cat, uc_dup + uc_lastline + uc_trim + uc_iscomb (offsets at and beyond the length, cuts inside characters); exhaustive strings up to length %d over a %d-character alphabet '
                '(1-4 byte, wide, combining, range ends), random valid strings, random malformed byte strings (model-vs-code only). '
                'non-trivial = contains a multi-byte character; distinct = distinct request') % (3 if ctx.quick else 4, len(SMALL))

    reqs = []      # (request line, code points or None)
    if ctx.replay:
        rp = json.load(open(ctx.replay))
        for r in rp.get('input', []):
            reqs.append((r, None))
    else:
        # exhaustive small strings
        L = 3 if ctx.quick else 4
        for n in range(0, L + 1):
            for cs in itertools.product(SMALL, repeat=n):
                reqs.append(('str ' + vlib.hx(b''.join(enc(c) for c in cs)), list(cs)))
        # pairs over the larger alphabet
        for a in ALPHA:
            for b in ALPHA:
                reqs.append(('str ' + vlib.hx(enc(a) + enc(b)), [a, b]))
        # random valid strings
        for i in range(300 if ctx.quick else 5000):
            n = rng.choice([1, 2, 5, 6, 7, 20, 60])
            cs = []
            for j in range(n):
                t = rng.below(10)
                if t < 4:
                    cs.append(rng.choice(ALPHA))
                elif t < 6:
                    cs.append(rng.range(1, 0x7f))
                elif t < 7:
                    cs.append(rng.range(0x80, 0x7ff))
                elif t < 9:
                    c = rng.range(0x800, 0xffff)
                    cs.append(c if not (0xd800 <= c <= 0xdfff) else 0x4e2d)
                else:
                    cs.append(rng.range(0x10000, 0x10ffff))
            reqs.append(('str ' + vlib.hx(b''.join(enc(c) for c in cs)), cs))
        # malformed stream: random bytes 1..255, truncated sequences, stray continuation bytes
        for i in range(300 if ctx.quick else 5000):
            n = rng.range(1, 12)
            b = bytes(rng.choice([rng.range(1, 255), rng.range(0x80, 0xbf), rng.range(0xc0, 0xff), 0x61]) for _ in range(n))
            try:
                b.decode('utf-8')
                cs = [ord(ch) for ch in b.decode('utf-8')]
            except UnicodeDecodeError:
                cs = None
            reqs.append(('str ' + vlib.hx(b), cs))
    if not ctx.replay:
        reqs += [(q, None) for q in mem_requests(ctx)]
    lines = [r for r, _ in reqs]
    sweep = [] if ctx.replay else ['sweep 1 1114111']

    found = {}

    def runit(exe, what):
        rc, out, err = vlib.run_lines(exe, sweep + lines, timeout=1500)
        if rc != 0:
            # the failing input: the shortest prefix of the string requests on which the sanitized build fails (bisection),
            # its last request re-run alone; without one that reproduces alone the whole batch is reported
            culprit = found.get('c')
            if culprit is None and vlib.run_lines(probe_asan, lines, timeout=1500)[0] != 0:
                lo, hi = 0, len(lines)          # lines[:lo] passes, lines[:hi] fails
                while hi - lo > 1:
                    mid = (lo + hi) // 2
                    if vlib.run_lines(probe_asan, lines[:mid], timeout=1500)[0] != 0:
                        hi = mid
                    else:
                        lo = mid
                rc2, out2, err2 = vlib.run_lines(probe_asan, [lines[hi - 1]], timeout=60)
                if rc2 != 0:
                    culprit = found['c'] = (lines[hi - 1], rc2, err2)
            if culprit:
                res.violations.append({'what': '%s exited with status %d; the request %r alone makes the sanitized build exit with status %d (sanitizer report or crash)' % (what, rc, culprit[0], culprit[1]),
                                       'stderr': culprit[2][-3000:], 'input': [culprit[0]]})
            else:
                res.violations.append({'what': '%s exited with status %d (sanitizer report or crash)' % (what, rc),
                                       'stderr': err[-3000:], 'input': sweep + lines[:50]})
        return out

    out_c = runit(probe, 'probe_uc')
    nsweep = 1112063 if sweep else 0
    if model:
        rc, out_m, err = vlib.run_lines(model, sweep + lines, timeout=1500)
        if rc != 0 or len(out_m) != len(out_c):
            res.disagreements.append({'what': 'model driver: rc=%d, %d lines vs %d' % (rc, len(out_m), len(out_c)), 'stderr': err[-1000:]})
        else:
            for i, (a, b) in enumerate(zip(out_c, out_m)):
                if a != b:
                    req = ('sweep %s %s' % (a.split()[0], a.split()[0])) if i < nsweep else lines[i - nsweep]
                    res.disagreements.append({'what': 'model and implementation differ', 'input': [req], 'implementation': a, 'model': b})
                    if len(res.disagreements) > 20:
                        break
    # ASan build must agree with the plain build and report nothing
    out_a = runit(probe_asan, 'probe_uc (ASan/UBSan)')
    if out_a != out_c and not res.violations:
        for i, (a, b) in enumerate(zip(out_c, out_a)):
            if a != b:
                res.violations.append({'what': 'plain and sanitized builds of uc.c answer differently (undefined behaviour)',
                                       'input': [lines[i - nsweep] if i >= nsweep else a], 'plain': a, 'asan': b})
                break
    # the property itself on the implementation's answers
    if len(out_c) >= nsweep + len(lines):
        for i in range(nsweep):
            res.evaluations += 1
            bad = oracle_sweep(out_c[i])
            if bad:
                c = out_c[i].split()[0]
                res.violations.append({'what': bad, 'input': ['sweep %s %s' % (c, c)], 'observed': out_c[i]})
                if len(res.violations) > 5:
                    break
        res.count('scalars', nsweep)
        if nsweep:
            res.nontriv('sweep:2byte'); res.nontriv('sweep:3byte'); res.nontriv('sweep:4byte')
        for (req, cs), line in zip(reqs, out_c[nsweep:]):
            res.evaluations += 1
            if req.split(' ')[0] in ('sub', 'cat', 'mem'):
                res.count('uc_' + req.split(' ')[0] + ' requests' if req[0] != 'm' else 'dup/lastline/trim/iscomb requests')
                if any(x > 0x7f for x in unhx(req.split(' ')[1])):
                    res.nontriv(req)
                bad = oracle_mem(req, line)
                if bad:
                    res.violations.append({'what': bad, 'input': [req], 'observed': line})
                    if len(res.violations) > 5:
                        break
                continue
            if cs is None:
                res.count('malformed strings (model vs code only)')
                continue
            res.count('valid strings')
            if any(c > 0x7f for c in cs):
                res.nontriv(req)
            bad = oracle_str(cs, line)
            if bad:
                res.violations.append({'what': bad, 'input': [req], 'observed': line})
                if len(res.violations) > 5:
                    break
        for (req, cs), line in list(zip(reqs, out_c[nsweep:]))[:400:97]:
            res.sample({'request': req, 'answer': line[:300]})
    else:
        res.disagreements.append({'what': 'probe produced %d lines for %d requests' % (len(out_c), nsweep + len(lines))})
    res.extra['exhaustive_scalars'] = bool(sweep)
    if not ctx.replay:
        run_programs(ctx, res)
        run_ex_programs(ctx, res)
