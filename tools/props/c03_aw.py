"""C03, autowrite stream -- whole editing histories with `:se aw` / `:se noaw`.

ex.c has five callers of bufs_modified() (ec_edit = :e :n, ec_buffer = :b, ec_exec = :!cmd, ec_make, the loop of ec_quit = :q);
with the autowrite option a modified buffer is saved by lbuf_save(.., force = 0, b->mtime) instead of refusing.  A session of this
stream is a list of steps -- option switches, edits, foreign operations run from inside the session (`:w !sh xK.sh`), and commands
(leave-buffer commands q / e NAME / e! NAME / b N / n / !cmd, writes w / w! / wq / x / xa / xa!, re-read e!) -- with a snapshot
(`:w !sh s.sh K %`: stat -L, contents, the current path as the editor expands %, length of the shim log) after EVERY step.

Reference (Python, observables only, independent of the model): per open buffer the text, whether it was edited since the editor last
read / wrote it, and the sync point = snapshot entry (mtime, bytes) of its own file right after the editor last read it or wrote the
buffer to it (an editor write is SEEN in the shim log: open/write/close of that name by the process `vi` during the step, and the
file then holds the buffer's text).  For every command the reference says which files are protected -- the file of an open buffer
that exists right before the command and is newer than the buffer's sync point, or exists although the buffer was loaded from no
file -- and demands: a command without `!` leaves every protected file untouched (bytes, stamp, no open/write/close on it); an
explicit write without `!` of a protected own file is not reported as success and does not quit; whatever the editor did write
holds exactly the buffer's lines if the command went through; the editor is not gone without `!` while an edited buffer is not in
its file.  The model side is request `aw` of the driver (coq/IoAwDefs.v step): current path, alive, files after every step, for
every session (ex.c refreshes the remembered stamp after every successful save since 37c81b2: nothing depends on the second the editor writes in).
"""
import os, re, shutil, subprocess, time
import vlib
from props import c03 as base

AN = ['a', 'b', 'c']
A_NL = {'a': 2, 'b': 3, 'c': 1}
A_STAMP = {'older': -8000, 'old': -5000, 'mid': 2000, 'newer': 5000, 'newer2': 6000, 'newer3': 7000, 'future': 9000}
A_MODEL_STAMP = {'older': 50, 'old': 100, 'mid': 250, 'newer': 300, 'newer2': 400, 'newer3': 500, 'future': 900}    # the editor writes at 200
END = b'C03awENDzMARK'


def a_c0(n):
    return b''.join(b'%s%d\n' % (n.encode(), i) for i in range(A_NL[n]))


A_SNAP_SH = """cat > /dev/null
stat -L -c '%n %Y' a b c > "snap.$1.m" 2>/dev/null
mkdir "cont.$1" && cp -L a b c "cont.$1"/ 2>/dev/null
echo "$2" > "snap.$1.cur"
(wc -l < shim.log) > "snap.$1.nlog" 2>/dev/null
true
"""


def a_act_sh(acts, base_t):
    ls = ['cat > /dev/null']
    for k, (kind, name, stamp) in enumerate(acts):
        t = base_t + A_STAMP[stamp] if stamp else 0
        if kind == 'write':
            ls.append("printf 'foreign %d\\nforeign %d\\nforeign %d\\n' > %s 2>/dev/null; touch -c -d @%d %s 2>/dev/null" % (k, k, k, name, t, name))
        elif kind == 'replace':
            ls.append("printf 'foreign %d\\nforeign %d\\nforeign %d\\n' > tmp.%d; touch -d @%d tmp.%d; mv -f tmp.%d %s" % (k, k, k, k, t, k, k, name))
        elif kind == 'touch':
            ls.append('touch -c -d @%d %s 2>/dev/null' % (t, name))
        elif kind == 'remove':
            ls.append('rm -f %s' % name)
    ls.append('true')
    return '\n'.join(ls) + '\n'


def a_script(case):
    sc = [b'w !sh s.sh i %']
    for k, st in enumerate(case['steps']):
        if st[0] == 'set':
            sc.append(b'se ' + st[1].encode())
        elif st[0] == 'edit':
            sc += [b'0a', st[1].encode(), b'.']
        elif st[0] == 'acts':
            sc.append(b'w !sh x%d.sh' % k)
        else:
            sc += [b'ec C03awM%daz' % k, st[1].encode(), b'ec C03awM%dbz' % k]
        sc.append(b'w !sh s.sh %d %%' % k)
    sc += [b'ec ' + END, b'q!']
    return b'\n'.join(sc) + b'\n'


def a_run(vi, case, timeout=30):
    d = vlib.case_dir()
    base_t = int(time.time())
    for n, st in case['files'].items():
        with open(os.path.join(d, n), 'wb') as f:
            f.write(a_c0(n))
        t = base_t + A_STAMP[st]
        os.utime(os.path.join(d, n), (t, t))
    with open(os.path.join(d, 's.sh'), 'w') as f:
        f.write(A_SNAP_SH)
    for k, st in enumerate(case['steps']):
        if st[0] == 'acts':
            with open(os.path.join(d, 'x%d.sh' % k), 'w') as f:
                f.write(a_act_sh(st[1], base_t))
    log = os.path.join(d, 'shim.log')
    sched = ','.join('%d:%s:%d' % tuple(s) for s in case.get('sched', []))
    env = {'PATH': '/usr/bin:/bin', 'HOME': d, 'EXINIT': '', 'TERM': 'xterm', 'LINES': '24', 'COLUMNS': '80',
           'LD_PRELOAD': base.build_shim(), 'NVSHIM_TARGETS': ':'.join(AN), 'NVSHIM_LOG': log, 'NVSHIM_SCHED': sched}
    p = subprocess.Popen([vi, '-s', '-e'] + case['args'], stdin=subprocess.PIPE, stdout=subprocess.PIPE, stderr=subprocess.PIPE, cwd=d, env=env,
                         start_new_session=True)
    try:
        out, err = p.communicate(a_script(case), timeout=timeout)
        rc = p.returncode
    except subprocess.TimeoutExpired:
        try:
            os.killpg(p.pid, 9)
        except Exception:
            p.kill()
        out, err = p.communicate()
        rc = None

    def rd(n):
        fp = os.path.join(d, n)
        try:
            return open(fp, 'rb').read() if os.path.isfile(fp) else None
        except OSError:
            return None

    def snap(tag):
        ms = rd('snap.%s.m' % tag)
        cur = rd('snap.%s.cur' % tag)
        if ms is None or cur is None:
            return None
        sn = {n: None for n in AN}
        for l in ms.decode('latin-1').split('\n'):
            w = l.split()
            if len(w) == 2 and w[0] in sn:
                sn[w[0]] = (int(w[1]), rd(os.path.join('cont.%s' % tag, w[0])))
        nl = rd('snap.%s.nlog' % tag)
        sn['nlog'] = int(nl.split()[0]) if nl and nl.split() else 0
        sn['cur'] = cur.strip().decode('latin-1')
        return sn
    calls = []
    if os.path.exists(log):
        for l in open(log).read().split('\n'):
            w = l.split()
            if len(w) >= 3:                  # every line of the log (ftruncate lines are not numbered): same indexing as `wc -l`
                calls.append({'i': int(w[0]) if w[0].isdigit() else None, 'op': w[1], 'err': 'err' in w[2:-1], 'name': w[-1]})
    final = {}
    for n in AN:
        fp = os.path.join(d, n)
        final[n] = (int(os.stat(fp).st_mtime), rd(n)) if os.path.isfile(fp) else None
    final['nlog'] = len(calls)
    final['cur'] = None
    ob = {'rc': rc, 'hung': rc is None, 'crash': rc is None or rc < 0 or rc >= 100, 'base': base_t, 'final': final,
          'snaps': {'i': snap('i')}, 'calls': calls, 'cls': {}, 'msg': {}, 'back': {}, 'ran': {}, 'end': END in out}
    okw = rb'"[^"]*"  \[=\d+\]  \[w\]'
    okr = rb'"[^"]*"  \[=\d+\]  \[r\]'
    for k, st in enumerate(case['steps']):
        ob['snaps'][k] = snap('%d' % k)
        if st[0] == 'cmd':
            a, b = b'C03awM%daz' % k, b'C03awM%dbz' % k
            ob['back'][k] = b in out
            seg = out.split(a, 1)[1] if a in out else b''
            seg = seg.split(b, 1)[0]
            rest = re.sub(okr, b'', re.sub(okw, b'', seg))
            ob['cls'][k] = 'err' if rest.strip() else 'ok' if re.search(okw, seg) else 'silent'
            ob['msg'][k] = seg[:100].decode('latin-1')
            ob['ran'][k] = os.path.exists(os.path.join(d, 'ran.%d' % k))
    shutil.rmtree(d, ignore_errors=True)
    return ob


def a_parse(cmdline):
    """-> (kind, bang, arg): kind in q e b n ! w wq x xa"""
    if cmdline.startswith('!'):
        return '!', False, cmdline[1:]
    w = cmdline.split(' ', 1)
    c, arg = w[0], (w[1] if len(w) > 1 else '')
    bang = c.endswith('!')
    return c.rstrip('!'), bang, arg


def a_judge(case, ob):
    """-> (violations, trace): trace[k] = what the reference says about command step k"""
    if ob['crash']:
        return ['editor crashed or hung (rc=%s)' % ob['rc']], {}
    prev = ob['snaps'].get('i')
    if prev is None or prev['cur'] not in AN:
        return [], {}
    bad, trace = [], {}
    bufs = {}

    def load(n, sn):
        bufs[n] = {'text': sn[n][1] if sn.get(n) else b'', 'dirty': False, 'sync': sn.get(n)}
    cur = prev['cur']
    load(cur, prev)

    def protected(n, sn):
        now = sn.get(n)
        if now is None:
            return None
        sync = bufs[n]['sync']
        if sync is None:
            return 'exists although the name denoted no file when the buffer was loaded'
        if now[0] > sync[0]:
            return 'is newer (mtime %+d s) than when the editor last read or wrote it' % (now[0] - sync[0])
        return None
    for k, st in enumerate(case['steps']):
        sn = ob['snaps'].get(k)
        if st[0] == 'edit':
            bufs[cur]['text'] = st[1].encode() + b'\n' + bufs[cur]['text']
            bufs[cur]['dirty'] = True
        if st[0] != 'cmd':
            if sn is None or sn['cur'] != cur:
                return bad, trace                       # the session broke down (reported by the comparison)
            prev = sn
            continue
        kind, bang, arg = a_parse(st[1])
        gone = not ob['back'].get(k)
        post = ob['final'] if gone else sn
        if post is None:
            return bad, trace
        calls = ob['calls'][prev['nlog']:post['nlog']]
        explicit = kind in ('w', 'wq', 'x', 'xa') and arg in ('', '%')
        tr = {'cmd': st[1], 'cur': cur, 'protected': {}, 'must_refuse': False, 'gone': gone, 'class': ob['cls'].get(k)}
        for n in sorted(bufs):
            why = protected(n, prev)
            if not why:
                continue
            tr['protected'][n] = why
            if bang:
                continue
            what = ('a write without ! replaced a file that ' if explicit and n == cur else
                    '`%s` (no !) replaced the file of the modified buffer %s that ' % (st[1], n))
            if post[n] is None or post[n][1] != prev[n][1]:
                bad.append((what + why, None))
            elif post[n][0] != prev[n][0] or any(c['name'] == n for c in calls):
                bad.append(('`%s` (no !) had to leave the file of buffer %s alone (it %s) but opened or touched it' % (st[1], n, why), None))
        if explicit and not bang and cur in tr['protected'] and not (kind == 'x' and not bufs[cur]['dirty']):
            tr['must_refuse'] = True
            if ob['cls'].get(k) == 'ok' or gone:
                bad.append(('a write that had to be refused (the file %s) was reported as success (message class %s, quit=%s)'
                            % (tr['protected'][cur], ob['cls'].get(k), gone), None))
        # what the editor wrote during the step
        went = gone or (kind == 'w' and ob['cls'].get(k) == 'ok') or (kind in ('e', 'b', 'n') and sn is not None and sn['cur'] != cur) or (kind == '!' and ob['ran'].get(k))
        for n in sorted(bufs):
            cs = [c for c in calls if c['name'] == n]
            if not cs:
                continue
            if not any(c['err'] for c in cs) and post[n] is not None and post[n][1] == bufs[n]['text']:
                bufs[n]['sync'] = post[n]
                bufs[n]['dirty'] = False
            elif went and not any(c['err'] for c in cs) and (n != cur or kind != 'w' or arg in ('', '%')):
                bad.append(('`%s` went through and wrote the file of buffer %s, which does not hold exactly the buffer\'s lines' % (st[1], n), None))
            else:
                if any(c['op'] == 'write' and not c['err'] for c in cs):
                    bufs[n]['sync'] = post[n]          # the editor itself wrote (part of) the file last: what is there now is its own doing
                if went and any(c['err'] for c in cs) and not bang:
                    bad.append(('an open/write/close error was injected into the save of buffer %s and consumed, yet `%s` went through '
                                '(message class %s, editor gone=%s)' % (n, st[1], ob['cls'].get(k), gone), None))
        if gone and not bang:
            for n in sorted(bufs):
                if bufs[n]['dirty'] and (ob['final'][n] is None or ob['final'][n][1] != bufs[n]['text']):
                    bad.append(('the editor quit on `%s` although the modified buffer %s is not in its file' % (st[1], n), None))
        trace[k] = tr
        if gone:
            break
        if sn['cur'] not in AN:
            return bad, trace
        if sn['cur'] not in bufs:
            load(sn['cur'], sn)
        elif kind == 'e' and bang and not arg:
            if sn.get(cur):
                bufs[cur]['text'] = sn[cur][1]
            bufs[cur]['dirty'] = False
            bufs[cur]['sync'] = sn.get(cur)
        cur = sn['cur']
        prev = sn
    return bad, trace


# ---------------------------------------------------------------------------------------------- generator
def a_case(args, files, steps, tag):
    return {'stream': 'aw', 'args': args, 'files': files, 'steps': steps, 'tag': tag}


FOREIGN = {
    'nothing': [],
    'write newer': [['write', 'a', 'newer']],
    'touch newer': [['touch', 'a', 'newer']],
    'replace newer': [['replace', 'a', 'newer']],
    'remove + create': [['remove', 'a', None], ['write', 'a', 'newer']],
}
LEAVES = ['q', 'e b', 'e c', 'n', 'b 1', '!touch ran.%d']
WRITES = ['w', 'wq', 'x', 'xa', 'w %', 'w!', 'q']


def a_cases():
    out = []
    # 1. the current buffer a is modified, its file is changed behind the editor's back, a leave-buffer command is tried, then a write
    for aw in ('aw', 'noaw'):
        for fk in sorted(FOREIGN):
            for when in ('before the edit', 'after the edit'):
                for lv in LEAVES:
                    for wr in WRITES:
                        for two in (False, True):
                            if two and lv in ('e c', '!touch ran.%d') or (not two and lv == 'b 1'):
                                continue
                            steps = []
                            if two:
                                steps += [['cmd', 'e b'], ['cmd', 'e a']]
                            pre = [['edit', 'EDITED'], ['acts', FOREIGN[fk]]] if when == 'after the edit' else [['acts', FOREIGN[fk]], ['edit', 'EDITED']]
                            steps += [['set', aw]] + pre if fk != 'nothing' else [['set', aw], ['edit', 'EDITED']]
                            steps.append(['cmd', lv.replace('%d', str(len(steps)))])
                            steps.append(['cmd', 'e! a'])            # back to a if the command did leave
                            steps.append(['cmd', wr])
                            out.append(a_case(['a', 'b'], {'a': 'old', 'b': 'old', 'c': 'old'}, steps,
                                              'current buffer: %s, foreign %s %s, %s, then %s%s' % (aw, fk, when, lv.split(' ran')[0], wr, ', two buffers' if two else '')))
    # 2. the name denoted no file when a was loaded; somebody creates it
    for aw in ('aw', 'noaw'):
        for lv in ('q', 'e b', 'n', '!touch ran.%d'):
            for wr in ('w', 'wq', 'x', 'xa'):
                steps = [['set', aw], ['edit', 'EDITED'], ['acts', [['write', 'a', 'older']]]]
                steps += [['cmd', lv.replace('%d', str(len(steps)))], ['cmd', 'e! a'], ['cmd', wr]]
                out.append(a_case(['a', 'b'], {'b': 'old', 'c': 'old'}, steps, 'loaded from no file: %s, created meanwhile, %s, then %s' % (aw, lv.split(' ran')[0], wr)))
    # 3. a modified BACKGROUND buffer b whose file changes; :q with autowrite walks over all buffers and switches to the one it could not save
    for aw in ('aw', 'noaw'):
        for fk in ('write newer', 'touch newer', 'nothing'):
            for cura in (False, True):
                for wr in ('w', 'wq', 'x', 'xa', 'q'):
                    steps = [['cmd', 'e b'], ['edit', 'B EDITED'], ['cmd', 'e! a']]
                    if cura:
                        steps.append(['edit', 'A EDITED'])
                    steps += [['acts', [[o[0], 'b', o[2]] for o in FOREIGN[fk]]], ['set', aw], ['cmd', 'q'], ['cmd', wr], ['cmd', 'q']]
                    out.append(a_case(['a'], {'a': 'old', 'b': 'old', 'c': 'old'}, steps,
                                      'background buffer b modified: %s, foreign %s, a %s, q .. q around, then %s' % (aw, fk, 'modified' if cura else 'clean', wr)))
    # 4. a SUCCESSFUL autowrite first, then the foreign change, then leave / write again (with the option still on, or switched off)
    for lv1 in ('e b', 'n', '!touch ran.%d', 'q'):
        for fk in ('write newer', 'touch newer', 'nothing'):
            for again in (True, False):
                for aw2 in ('aw', 'noaw'):
                    for wr in ('w', 'wq', 'x', 'xa', 'e b', 'q'):
                        steps = [['cmd', 'e b'], ['edit', 'B EDITED'], ['cmd', 'e! a'], ['set', 'aw'], ['edit', 'EDITED']]
                        steps.append(['cmd', lv1.replace('%d', str(len(steps)))])
                        steps.append(['cmd', 'e! a'])
                        if again:
                            steps.append(['edit', 'AGAIN'])
                        steps += [['acts', FOREIGN[fk]], ['set', aw2], ['cmd', wr], ['cmd', 'e! a'], ['cmd', 'w'], ['cmd', 'q']]
                        out.append(a_case(['a', 'b'], {'a': 'old', 'b': 'old', 'c': 'old'}, steps,
                                          'after a successful autowrite by %s: %s, foreign %s, %s, then %s' % (lv1.split(' ran')[0], 'edited again' if again else 'not edited', fk, aw2, wr)))
    # 5. the refused autowrite followed by the option switched off, a re-read, a forced write
    for mid in (['set', 'noaw'], ['cmd', 'e!'], ['cmd', 'w!'], ['cmd', 'e! b']):
        for fk in ('write newer', 'replace newer'):
            for wr in ('w', 'wq', 'xa'):
                steps = [['set', 'aw'], ['edit', 'EDITED'], ['acts', FOREIGN[fk]], ['cmd', 'e b'], mid]
                if mid[1] in ('e!', 'w!'):
                    steps += [['edit', 'MORE'], ['acts', [['write', 'a', 'newer2']]], ['cmd', 'n']]
                steps += [['cmd', 'e! a'], ['cmd', wr], ['cmd', 'q']]
                out.append(a_case(['a', 'b'], {'a': 'old', 'b': 'old', 'c': 'old'}, steps, 'refused autowrite, then %s, foreign %s, then %s' % (mid[1], fk, wr)))
    # 6. a file dated in the editor's future: after a successful autowrite its stamp goes BACK
    for fk in ('mid', 'newer2'):
        for wr in ('w', 'x', 'e b'):
            steps = [['set', 'aw'], ['edit', 'EDITED'], ['cmd', 'e b'], ['cmd', 'e! a'], ['edit', 'AGAIN'], ['acts', [['write', 'a', fk]]], ['cmd', wr], ['cmd', 'q']]
            out.append(a_case(['a', 'b'], {'a': 'newer', 'b': 'old', 'c': 'old'}, steps, 'file dated in the future autowritten, foreign write stamped %s, then %s' % (fk, wr)))
    return out


def a_random(rng, n):
    out = []
    for _ in range(n):
        files = {x: rng.choice(['old', 'older']) for x in AN if x == 'b' or rng.below(6)}
        steps = []
        stamps = ['newer', 'newer2', 'newer3']
        si = 0
        nst = 4 + rng.below(9)
        for j in range(nst):
            r = rng.below(12)
            if r < 2:
                steps.append(['set', rng.choice(['aw', 'aw', 'noaw'])])
            elif r < 5:
                steps.append(['edit', 'E%d' % j])
            elif r < 7 and si < 3:
                nm = rng.choice(AN)
                steps.append(['acts', [[rng.choice(['write', 'write', 'touch', 'replace']), nm, stamps[si]]]])
                si += 1
            elif r < 10:
                c = rng.choice(['q', 'e a', 'e b', 'e c', 'n', 'b 1', 'b 0', '!touch ran.%d' % j, 'e! a', 'e! b', 'e!'])
                steps.append(['cmd', c])
            else:
                steps.append(['cmd', rng.choice(['w', 'w', 'wq', 'x', 'xa', 'w!', 'w %', 'xa!'])])
        steps += [['cmd', 'w'], ['cmd', 'q']]
        out.append(a_case(['a', 'b'] if rng.below(3) else ['a'], files, steps, 'random'))
    return out


# ---------------------------------------------------------------------------------------------- faults inside the autowrite
def a_fault_bases():
    """sessions whose leave-buffer command autowrites (option on, file untouched by others): the dry run gives the call indices"""
    out = []
    for lv in ('q', 'e b', 'n', '!touch ran.%d', 'b 2', 'wq', 'xa', 'w'):
        for bg in (False, True):
            steps = [['cmd', 'e b']]
            if bg:
                steps.append(['edit', 'B EDITED'])
            steps += [['cmd', 'e! a'], ['set', 'aw'], ['edit', 'EDITED']]
            steps.append(['cmd', lv.replace('%d', str(len(steps)))])
            steps += [['cmd', 'e! a'], ['set', 'noaw'], ['cmd', 'q'], ['cmd', 'w'], ['cmd', 'e! b'], ['cmd', 'w'], ['cmd', 'q']]
            c = a_case(['a', 'b'], {'a': 'old', 'b': 'old', 'c': 'old'}, steps,
                       'fault in the save: aw, %s%s, then noaw, q, w, q' % (lv.split(' ran')[0], ', background buffer modified' if bg else ''))
            c['fstep'] = steps.index(['set', 'aw']) + 2
            out.append(c)
    return out


def a_fault_cases(bases, dry):
    out = []
    for c, ob in zip(bases, dry):
        k = c['fstep']
        pre, post = ob['snaps'].get(k - 1), ob['snaps'].get(k) or ob['final']
        if pre is None or post is None:
            continue
        cs = [x for x in ob['calls'][pre['nlog']:post['nlog']] if x['i'] is not None]
        for j, x in enumerate(cs):
            for kind, arg in (('err', 5), ('err', 28), ('short', 1)):
                if kind == 'short' and x['op'] != 'write':
                    continue
                f = dict(c)
                f['sched'] = [[x['i'], kind, arg]]
                f['fault'] = {'step': k, 'off': j, 'kind': kind, 'arg': arg, 'op': x['op'], 'name': x['name']}
                f['tag'] = c['tag'] + ', %s %s at the %s of %s' % (kind, arg, x['op'], x['name'])
                out.append(f)
    return out


# ---------------------------------------------------------------------------------------------- the model side (driver request aw)
def a_model_request(case):
    """-> (request line, index of the model's answer word for every session step)"""
    ix = {n: i for i, n in enumerate(AN)}
    steps, at = [], []
    for st in case['steps']:
        if st[0] == 'set':
            steps.append('S@%d' % (st[1] == 'aw'))
        elif st[0] == 'edit':
            steps.append('P@' + vlib.hx(st[1].encode() + b'\n'))
        elif st[0] == 'acts':
            if not st[1]:
                steps.append('-')
            for k, (kind, name, stamp) in enumerate(st[1]):
                if kind in ('write', 'replace'):
                    steps.append('F@%s@%d@%s@%d' % (kind[0], ix[name], vlib.hx(b'foreign %d\n' % k * 3), A_MODEL_STAMP[stamp]))
                elif kind == 'touch':
                    steps.append('F@t@%d@%d' % (ix[name], A_MODEL_STAMP[stamp]))
                else:
                    steps.append('F@d@%d' % ix[name])
        else:
            kind, bang, arg = a_parse(st[1])
            a = '-' if arg == '' else arg if arg in ('%', '#') else str(ix[arg]) if arg in ix else arg
            if kind == 'w':
                steps.append('W@%s@%s' % ('!' if bang else '-', a))
            elif kind in ('q', 'wq', 'x', 'xa'):
                steps.append('Q@%s%s@%s' % (kind, '!' if bang else '', a))
            elif kind == 'e':
                steps.append('E@%s@%d' % (a, bang))
            elif kind == 'n':
                steps.append('N')
            elif kind == 'b':
                steps.append('B@%s@%d' % (arg, bang))
            else:
                steps.append('X')
        at.append(len(steps) - 1)
    fl = case.get('fault')
    req = 'aw names=%d files=%s args=%s fault=%s steps=%s' % (
        len(AN), ','.join('%d:%s:%d' % (ix[n], vlib.hx(a_c0(n)), A_MODEL_STAMP[st]) for n, st in sorted(case['files'].items())) or '-',
        ','.join(str(ix[n]) for n in case['args']),
        '%d:%d:%s:%d' % (at[fl['step']], fl['off'], fl['kind'][0], fl['arg']) if fl else '-', ';'.join(steps))
    return req, at


def a_compare(case, ob, mline):
    req, at = a_model_request(case)
    words = mline.split(' ')
    if len(words) <= max(at):
        return ['the model answered %d words for %d steps' % (len(words), max(at) + 1)]
    diffs = []
    for k, st in enumerate(case['steps']):
        mcur, mq, mst, mdir = words[at[k]].split(':')
        mcur = AN[int(mcur)] if int(mcur) >= 0 else None
        gone = st[0] == 'cmd' and not ob['back'].get(k)
        if (mq == '1') != gone:
            diffs.append('step %d `%s`: the editor is gone: model %s, editor %s' % (k, st[-1] if st[0] == 'cmd' else st[0], mq == '1', gone))
            break
        sn = ob['final'] if gone else ob['snaps'].get(k)
        if sn is None:
            diffs.append('step %d: no snapshot (the session broke down)' % k)
            break
        if not gone and sn['cur'] != mcur:
            diffs.append('step %d `%s`: current buffer: model %s, editor %s' % (k, st[-1] if st[0] == 'cmd' else st[0], mcur, sn['cur']))
            break
        for n, mv in zip(AN, mdir.split(',')):
            mval = None if mv == 'absent' else vlib.unhx(mv)
            rval = sn[n][1] if sn.get(n) else None
            if mval != rval:
                diffs.append('step %d `%s`: file %s: model %s, editor %s' % (k, st[-1] if st[0] == 'cmd' else st[0], n, base.g_show(mval), base.g_show(rval)))
        if diffs:
            break
        if st[0] == 'cmd' and not gone:
            kind, bang, arg = a_parse(st[1])
            if kind == 'w' and (mst == 'ok') != (ob['cls'].get(k) == 'ok'):
                diffs.append('step %d `%s`: message class: model %s, editor %s (%r)' % (k, st[1], mst, ob['cls'].get(k), ob['msg'].get(k)))
                break
        if gone:
            break
    return diffs


def a_quick_sample(cases, rng, per=9):
    """stratified: the same quota from every (option, kind of history, write command) stratum"""
    strata = {}
    for c in cases:
        f = c['tag'].split(',')
        key = f[0] + ' / ' + (f[2] if len(f) > 2 else '') + ' / ' + c['tag'].rsplit('then ', 1)[-1]
        strata.setdefault(key, []).append(c)
    out = []
    for k in sorted(strata):
        xs = strata[k]
        rng.fork('aw ' + k).shuffle(xs)
        out += xs[:per]
    return out


def run_aw(ctx, vi, model, awork):
    """the autowrite stream: whole histories; reference on the snapshots after every step"""
    res = ctx.res
    if not awork:
        return

    def one(case):
        ob = a_run(vi, case)
        if ob['crash']:
            ob = a_run(vi, case, timeout=90)
        return ob
    if not ctx.replay:
        fb = a_fault_bases()
        fc = a_fault_cases(fb, vlib.pmap(one, fb))
        res.extra['autowrite_stream_fault_cases_enumerated'] = len(fc)
        if ctx.quick:
            ctx.rng.fork('autowrite faults').shuffle(fc)
            fc = fc[:150]
        awork = awork + fb + fc
    obs = vlib.pmap(one, awork)
    out_m = None
    if model:
        from props import c01
        reqs = [a_model_request(c)[0] for c in awork]
        rc, out_m, err = c01.run_model(model, reqs)
        if rc != 0 or len(out_m) != len(reqs):
            res.disagree({'what': 'model driver failed on the autowrite stream: rc=%d, %d answers for %d requests' % (rc, len(out_m), len(reqs)), 'stderr': err[-800:]})
            out_m = None
    nref = nprot = ncmd = 0
    for i, (case, ob) in enumerate(zip(awork, obs)):
        res.evaluations += 1
        res.count('autowrite stream: ' + case['tag'].split(',')[0].split(':')[0])
        res.nontriv('a%d' % i)
        bad, trace = a_judge(case, ob)
        for k, t in trace.items():
            ncmd += 1
            nprot += bool(t['protected'])
            nref += bool(t['must_refuse'])
            res.count('autowrite stream cmd %s%s' % (t['cmd'].split(' ')[0], ' (reference: must be refused)' if t['must_refuse'] else ''))
        real = bad
        if real:
            res.violation({'what': real[0][0], 'all': [b[0] for b in bad], 'input': {'case': case},
                           'expected': {'reference, per command step': {str(k): {'cmd': t['cmd'], 'current buffer': t['cur'], 'protected files': t['protected'],
                                                                                   'write must be refused': t['must_refuse']} for k, t in trace.items()}},
                           'observed': {'per command step': {str(k): {'message class': ob['cls'].get(k), 'message': ob['msg'].get(k), 'editor came back': ob['back'].get(k),
                                                                       'files after': None if ob['snaps'].get(k) is None else {n: base.g_show(None if ob['snaps'][k][n] is None else ob['snaps'][k][n][1]) for n in AN},
                                                                       'stamps after (relative to the start)': None if ob['snaps'].get(k) is None else {n: None if ob['snaps'][k][n] is None else ob['snaps'][k][n][0] - ob['base'] for n in AN}}
                                                               for k in trace},
                                        'open/write/close calls of the editor': [(c['op'], c['name']) for c in ob['calls'] if c['i'] is not None][:24]},
                           'script': a_script(case).decode('latin-1')})
            continue
        if out_m is not None:
            diffs = a_compare(case, ob, out_m[i])
            if diffs:
                res.disagree({'what': 'model and editor differ (autowrite stream): ' + '; '.join(diffs), 'input': {'case': case}, 'model': out_m[i][:400],
                              'implementation': {'per command step': {str(k): {'class': ob['cls'].get(k), 'came back': ob['back'].get(k)} for k in ob['cls']}},
                              'script': a_script(case).decode('latin-1')})
        if i % 199 == 0:
            res.sample({'case': case, 'reference': {str(k): {'cmd': t['cmd'], 'protected': t['protected'], 'must_refuse': t['must_refuse'], 'class': t['class'], 'gone': t['gone']} for k, t in trace.items()}})
    res.extra['autowrite_stream_sessions'] = len(awork)
    res.extra['autowrite_stream_command_steps_judged'] = ncmd
    res.extra['autowrite_stream_steps_with_a_protected_file'] = nprot
    res.extra['autowrite_stream_writes_the_reference_says_must_be_refused'] = nref
