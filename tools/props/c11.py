"""C11 -- any pattern string is safely rejected or compiled; matching stays in bounds.

Correspondence: harness/probe_re.c (regex.c included textually, plain and ASan/UBSan builds, every
pattern and line in an exact-size heap block) versus the extracted Coq model (ReParse/ReEmit/ReVM/
RsetDefs) on: the corpus, all strings up to length 4 (quick) / 5 (thorough) over the metacharacter
alphabet, random byte strings 1..255 up to 600 bytes, metacharacter-dense random strings, structured
patterns around the limits (NREPS, NGRPS, nested counted repetitions) -- each matched against a
family of lines under all flag values.  Compared: accept/reject, emitted length, reservation,
pattern index, offsets, depth-cut counter.
Oracle (the property itself, on the implementation's answers): emitted length <= reservation,
0 <= so <= eo <= len(line) or -1/-1, character boundaries for valid UTF-8 line and pattern, groups
beyond the limit reported as -1, no sanitizer report, every call within the CPU limit.
Sequences ("rejected or compiled" must be a property of the pattern string alone; regex.c keeps the file-scope
flag re_bad between calls -- threaded explicitly in coq/ReStateDefs.v, theorems C11_parser_flag_threaded,
C11_regcomp_ignores_stale_flag, C11_regcomp_seq_pure): sessions of rset_make / bare regcomp / rset_find calls
inside ONE probe process (plain and sanitized), built from the must-reject corpus (every rejection class), its valid
neighbours, limit patterns, short metacharacter strings and malformed fragments in random contexts; every answer is
compared with the same call in a fresh process and with the threaded model.  The same through the sanitized
`vi -s -e` (:s, :g, /pat/ with rejected patterns followed by valid ones).
"""
import itertools, json, os, glob
import vlib
from props import relib
from props.relib import hx, req, parse_answer

GROUP = 're'
TRUSTED = ['clang ASan/UBSan to report reads and writes outside heap blocks (patterns and lines are exact-size blocks)',
           'ITIMER_VIRTUAL CPU-time limit per rset_find call inside the probe (2 s)']

ALPHA = [b'a', b'b', b'.', b'*', b'+', b'?', b'(', b')', b'|', b'[', b']', b'^', b'$', b'\\', b'<', b'>', b'{', b'1', b',', b'}']
LINES = [b'', b'a', b'ab\n', b'aab b1\n', 'béa1,{a}\n'.encode(), b'ba(a)[b]^$\\<>|*+?.11\n', b'\n', b'a' * 40 + b'\n']
MAXRES = 200000
# malformed constructs must be REJECTED (fix 66f245a / 3139e7f), the neighbouring valid forms accepted
MUST_REJECT = [[b'(a)(b{3,1})', b'c'], [b'ab{3,1}'], [b'a{3,1}|b'], [b'x(|)'], [b'(|)'], [b'a)'], [b'(a'], [b'a{2x'], [b'a{1('], [b'a{'], [b'a{1'],
               [b'a{1,'], [b'a{1,2'], [b'a{129}'], [b'a{2,1}'], [b'a)(b'], [b'c', b'a)(b'], [b'[a', b'b]'], [b'[a'], [b'a\\'], [b'a\\', b'b)'], [b'x', b'(y']]
MUST_ACCEPT = [[b'a{2}'], [b'a{,}'], [b'a{}'], [b'a{1,2}b'], [b'(|a)'], [b'(a|)'], [b'()'], [b'a||b'], [b'|a'], [b'a|'], [b'*a'], [b'a\\)'], [b'[)]', b'[(]'],
               [b'(a)(b)', b'c'], [b'[]a]'], [b'a\\\\']]


def cases_for(i, lines):
    return [((i + k) % 8 & 6, l) for k, l in enumerate(lines)]


def gen_requests(ctx, res):
    rng = ctx.rng.fork('C11')      # hashed: consecutive VERIF_SEED values of the SplitMix64 in vlib are the same stream shifted by one draw
    out = []          # (kind, flg, nsub, pats, cases)
    L = 4 if ctx.quick else 5
    i = 0
    small = LINES[:5] if ctx.quick else LINES[:6]
    for n in range(0, L + 1):
        for tup in itertools.product(ALPHA, repeat=n):
            p = b''.join(tup)
            i += 1
            out.append(('exhaustive', i & 1, 3, [p], cases_for(i, small if n == L else LINES)))
    nrand = 500 if ctx.quick else 20000
    for k in range(nrand):
        n = rng.choice([1, 2, 3, 5, 8, 13, 30, 80, 127, 128, 129, 200, 400, 600])
        t = rng.below(4)
        if t == 0:
            p = bytes(rng.range(1, 255) for _ in range(n))
        elif t == 1:
            p = b''.join(rng.choice(ALPHA) for _ in range(min(n, 60)))
        elif t == 2:       # bytes with many metacharacters and valid multi-byte characters
            pool = ALPHA + ['é'.encode(), '中'.encode(), '\U0001f600'.encode(), b'[:alpha:]', b'[:', b':]', b'{2,3}', b'{128}', b'{129}', b'{0}', b'{,2}', b'\xc3', b'\xf0', b'\x80']
            p = b''.join(rng.choice(pool) for _ in range(min(n, 80)))
        else:
            p = bytes(rng.choice([rng.range(1, 127), rng.range(1, 255), rng.choice(b'()[]{}*+?|\\^$.,0123456789')]) for _ in range(n))
        npat = 1 if rng.below(4) else 2
        pats = [p] if npat == 1 else [p[:len(p) // 2], p[len(p) // 2:]]
        lines = [rng.choice(LINES), p[:rng.below(40)] + b'\n', bytes(rng.range(1, 255) for _ in range(rng.below(12)))]
        out.append(('random', rng.below(2), rng.choice([1, 3, 8]), pats, cases_for(k, lines)))
    # structured, around the limits
    lim = []
    for a in (0, 1, 2, 127, 128, 129, 130, 999, 4294967295, 4294967297, 99999999999999999999):
        lim.append(b'a{%d}' % a)
        lim.append(b'a{%d,}' % a)
        lim.append(b'a{1,%d}' % a)
        lim.append(b'(a){%d,%d}' % (a, a))
        lim.append(b'a{%d,0}' % a)
        lim.append(b'a{%d,1}' % a)
    lim += [b'a{9,0}', b'a{3,1}', b'a{2,1}', b'(ab|c){3,2}', b'a{,}', b'a{,3}', b'a{', b'a{1', b'a{1,', b'a{1,2', b'a{}', b'a{x}', b'a{1x}',
            b'a*{2}', b'a+*', b'a?{3,}', b'(a{2}){3}', b'((a{3}){4}){5}', b'(a{128}){128}', b'((a{20}){20}){20}', b'(((a{128}){128}){128})',
            b'((((a{128}){128}){128}){128})', b'(a|b){128}', b'[a', b'[', b'[]', b'[]]', b'[^]', b'[^', b'[[:', b'[[:alpha:', b'[[:alpha:]', b'[[=a',
            b'[a-', b'[a-]', b'[-a]', b'[[:foo:]]', b'\\', b'a\\', b'\\\\', b'(', b')', b'()', b'(()', b'())', b'|', b'||', b'a||b', b'(|)', b'(a|)',
            b'*', b'+a', b'?', b'{1}', b'^*', b'$+', b'\\<*', b'\\>{2}', b'(' * 33 + b'a' + b')' * 33, b'(a)' * 40, b'(' * 70 + b'a' + b')' * 70,
            b'(a)' * 31 + b'(b)', b'((a)|(b))' * 12, b'a' * 600, b'(a|' * 50 + b'b' + b')' * 50]
    for k, p in enumerate(lim):
        lines = [b'a', b'a' * 130 + b'\n', b'aab\n', b'ba' * 20]
        out.append(('limits', 0, 70 if p.count(b'(') > 20 else 4, [p], cases_for(k, lines)))
    # valid UTF-8 patterns that fail at the start of a multi-byte character but would succeed inside it:
    # the start-position loop and the atoms must move by whole characters
    u8p = ['[^é]', '[^中]', '[^😀]', '[^é中]+', '[^é]$', '[^a-é]', '(.)[^é]', '[^é]*$', '.', '(.)(.)', '[é]', 'é*[^é]', '\\<[^é]', '[^é]\\>', '[^[:alpha:]é]']
    u8l = ['é', 'éé\n', '中', 'a中é\n', '😀', 'x😀é中\n', 'éa', '中中', 'é\n']
    for k, q in enumerate(u8p):
        out.append(('utf8', k & 1, 3, [q.encode()], cases_for(k, [l.encode() for l in u8l])))
    # ill-formed PATTERN bytes (stray continuation byte / truncated lead byte as the first literal) against VALID multi-byte
    # lines that contain those bytes inside a character, case sensitive and ignore-case; and multi-byte literals directly
    # before a repetition operator against lines with characters that share the lead byte(s)
    for k, e in enumerate(relib.gen_stray(rng, 200 if ctx.quick else 2000)):
        out.append(('stray-cont' if e['cont'] else 'stray-lead', k & 1 if k % 4 == 3 else 0, 3, e['pats'], cases_for(k, e['lines'])))
    for k, e in enumerate(relib.gen_mbrep(rng, 200 if ctx.quick else 2000)):
        out.append(('mbrep', k & 1, 3, e['pats'], cases_for(k, e['lines'])))
    res.extra['pattern_alphabet'] = b' '.join(ALPHA).decode()
    res.extra['exhaustive_length'] = L
    return out


def corpus_requests():
    out = []
    for f in sorted(glob.glob(os.path.join(vlib.VERIF, 'corpus', 'C11-*.json'))):
        d = json.load(open(f))
        for e in d.get('cases', []):
            out.append(('corpus', e.get('flg', 0), e.get('nsub', 3), [vlib.unhx(p) for p in e['pats']],
                        [(c[0], vlib.unhx(c[1])) for c in e['cases']]))
    return out


def oracle_case(pats, line, c, single):
    """the property on one answered call: returns None or a description"""
    if c['kind'] != 'set':
        return None
    if c['set'] < 0:
        return None
    n = len(line)
    ok8 = relib.valid_utf8(line) and all(relib.valid_utf8(p) for p in pats)
    bnd = set(relib.boundaries(line)) if ok8 else None
    # whatever bytes the PATTERN consists of: start positions are character starts of a valid UTF-8 line
    # (regexec steps by uc_len; C11_match_starts_on_boundary), so the match never begins inside a character
    if relib.valid_utf8(line) and c['g'] and c['g'][0][0] >= 0 and c['g'][0][0] not in set(relib.boundaries(line)):
        return ('the match starts at byte %d, inside a multi-byte character of the valid UTF-8 line (start positions are character starts, '
                'whatever bytes the pattern consists of)' % c['g'][0][0])
    for i, (so, eo) in enumerate(c['g']):
        if (so, eo) == (-1, -1):
            continue
        if not (0 <= so <= eo <= n):
            return 'group %d offsets %d..%d outside 0 <= so <= eo <= %d' % (i, so, eo, n)
        if bnd is not None and (so not in bnd or eo not in bnd):
            return 'group %d offsets %d..%d are not character boundaries of the valid UTF-8 line' % (i, so, eo)
        if single and i + 2 >= relib.NGRPS // 2:
            return 'group %d of the combined expression is beyond the mark limit but is reported as %d..%d' % (i + 2, so, eo)
    if c['g'][0] == (-1, -1):
        return 'a pattern index is reported but its whole-match span is unset'
    return None


SEQ_VALID = [b'a+b', b'(a|b)*c', b'[a-c]+1', b'a{2}', b'a{1,2}b', b'(a)(b)', b'^a', b'b1$', b'\\<a', b'.b', b'(ab|a)(b?)', b'[^a]b', b'a{,}', b'(|a)b', b'a||b',
             'é+'.encode(), b'[[:alpha:]]+', b'a\\)', b'[)]', b'(a{2}){2}']
SEQ_LIM = [b'a{128}', b'a{127,128}', b'(a{128}){128}', b'((a{20}){20}){20}', b'(a)' * 40, b'(' * 33 + b'a' + b')' * 33, b'(a)' * 31 + b'(b)', b'a' * 600,
           b'(a|' * 50 + b'b' + b')' * 50, b'a{0}', b'a{0,0}', b'(a{0}){128}', b'[a-', b'[[:foo:]]', b'[b-a]', b'a{,3}']


def gen_sessions(ctx, model, env):
    rng = ctx.rng.fork('C11-seq')
    nsess = 500 if ctx.quick else 5000
    valid_texts = [ps[0] for ps in MUST_ACCEPT] + SEQ_VALID

    def one_pattern():
        k = rng.below(12)
        if k < 3:
            return relib.gen_bad_pattern(rng, valid_texts)
        if k < 5:
            return rng.choice(SEQ_VALID)
        if k == 5:
            return rng.choice(SEQ_LIM)
        if k < 8:
            return b''.join(rng.choice(ALPHA) for _ in range(rng.choice([1, 2, 3, 4, 5, 6])))
        if k == 8:
            pool = ALPHA + ['é'.encode(), '中'.encode(), b'[:alpha:]', b'[:', b':]', b'{2,3}', b'{128}', b'{129}', b'{0}', b'{,2}', b'\xc3', b'\xf0', b'\x80']
            return b''.join(rng.choice(pool) for _ in range(rng.choice([2, 4, 8, 14])))
        if k == 9:
            return bytes(rng.range(1, 255) for _ in range(rng.choice([1, 2, 5, 12])))
        return rng.choice(rng.choice(MUST_REJECT + MUST_ACCEPT))

    # candidate sets; those with a nullable loop (KF-EMPTY-LOOP: exponential time) are kept out by the classifier on the model's tree
    cands = []
    for _ in range(nsess * 7):
        k = rng.below(10)
        if k < 2:
            ps = list(rng.choice(MUST_REJECT))
        elif k < 3:
            ps = list(rng.choice(MUST_ACCEPT))
        else:
            ps = [one_pattern() for _ in range(rng.choice([1, 1, 1, 2, 3]))]
            if rng.below(12) == 0:
                ps.insert(rng.below(len(ps) + 1), None)
        ps = [p for p in ps if p is None or p != b'']
        if any(p is not None for p in ps):
            cands.append(ps)
    ok = [True] * len(cands)
    if model:
        tl = ['T ' + ','.join(hx(x) for x in ps if x is not None) for ps in cands]
        tans, _ = relib.run_all(model, tl, chunk=2000, timeout=300, env=env)
        for j, a in enumerate(tans):
            if a and a.startswith('('):
                try:
                    if relib.nullable_loop(relib.parse_sexp(a)):
                        ok[j] = False
                except Exception:
                    ok[j] = False
    cands = [c for c, o in zip(cands, ok) if o]
    lines = [l for l in LINES] + [b'aab\n', b'foo aab bar\n', 'é中a\n'.encode(), b'a)b(\n', b'\xf0', b'ab\xc3']
    sessions = []
    ci = 0
    while len(sessions) < nsess and ci < len(cands):
        ops = []
        nslot = 0
        for _ in range(rng.choice([2, 3, 4, 6, 8])):
            if ci >= len(cands):
                break
            ps = cands[ci]
            ci += 1
            if rng.below(6) == 0 and ps[0] is not None and not ps[0].endswith(b'\\'):
                ops.append(('G', ps[0]))
                continue
            ops.append(('M', rng.below(2), ps))
            nslot += 1
            for _ in range(rng.choice([0, 1, 1, 2])):
                sl = nslot - 1 if rng.below(4) else rng.below(nslot)
                ops.append(('F', sl, rng.choice([1, 3, 8]), rng.choice([0, 2, 4, 6]), rng.choice(lines)))
        if ops:
            sessions.append(ops)
    return sessions


def gen_ex_scripts(ctx):
    rng = ctx.rng.fork('C11-ex')
    n = 120 if ctx.quick else 1200
    valid_texts = [ps[0] for ps in MUST_ACCEPT if len(ps) == 1] + SEQ_VALID
    file_lines = [b'ab\n', b'aab b1\n', 'béa1,{a}\n'.encode(), b'ba(a)[b]^$\\<>|*+?.11\n', b'foo aab bar\n', b'a' * 40 + b'\n', b'\n', b'a{2,1}b)\n']
    out = []
    while len(out) < n:
        lines = [rng.choice(file_lines) for _ in range(rng.choice([3, 4, 6]))]
        cmds = []
        for _ in range(rng.choice([1, 2, 3])):
            for _ in range(rng.choice([1, 1, 2])):
                bp = relib.gen_bad_pattern(rng, valid_texts) if rng.below(3) else rng.choice([ps[0] for ps in MUST_REJECT if len(ps) == 1])
                cmds.append(rng.choice([('s', 1 + rng.below(len(lines)), bp), ('g', bp), ('a', 1 + rng.below(len(lines) - 1), bp)]))
            p = rng.choice(valid_texts)
            k = rng.below(4)
            cmds.append(('s', 1 + rng.below(len(lines)), p) if k < 2 else (('g', p) if k == 2 else ('a', 1 + rng.below(len(lines) - 1), p)))
        cmds = [c for c in cmds if relib.ex_cmd_bytes(c) is not None]
        if cmds:
            out.append({'ic': rng.below(2), 'lines': lines, 'cmds': cmds})
    return out


def run_sequences(ctx, res, probe, probe_asan, model, env, sessions=None, ex_scripts=None):
    """sequences of compilations and matches in one process / one editor session (state between calls: re_bad)"""
    if sessions is None:
        sessions = gen_sessions(ctx, model, env)
    relib.check_sessions(res, [('plain probe', probe), ('sanitized probe', probe_asan)], model, sessions, env=env,
                         must_reject=MUST_REJECT, must_accept=MUST_ACCEPT)
    res.extra['sessions'] = len(sessions)
    res.count('sessions (sequences of calls in one process)', len(sessions))
    vi = vlib.build_vi(asan=True)
    if ex_scripts is None:
        scripts = gen_ex_scripts(ctx)
    else:
        scripts = []
        for r in ex_scripts:
            relib.replay_ex_item(res, vi, r)
    if scripts:
        relib.check_ex_sequences(res, vi, probe, model, scripts, env=env)
    if ex_scripts is None:
        # ill-formed pattern bytes / multi-byte literals before a repetition operator, on valid UTF-8 buffers (se noic and se ic)
        relib.check_ex_utf8(res, vi, model, relib.gen_ex_utf8(ctx.rng.fork('C11-ex-utf8'), 40 if ctx.quick else 400), env=env)


def run(ctx):
    res = ctx.res
    probe = vlib.build_probe('re', includes=['regex'])
    probe_asan = vlib.build_probe('re', includes=['regex'], asan=True)
    model = ctx.model('re')
    res.rule = ('one evaluation = one pattern set compiled and matched against its family of lines by the plain probe, the sanitized probe and the model; '
                'non-trivial = the set compiles (program emitted); distinct = distinct pattern set')
    sessions, ex_scripts = None, None
    if ctx.replay:
        rp = json.load(open(ctx.replay))
        rin = rp.get('input', [])
        reqs = [('replay', r['flg'], r['nsub'], [vlib.unhx(p) for p in r['pats']], [(c[0], vlib.unhx(c[1])) for c in r['cases']])
                for r in rin if 'pats' in r and 'cases' in r]
        sessions = [relib.q_parse_line(r['session']) for r in rin if 'session' in r]
        ex_scripts = [r for r in rin if 'ex_script' in r]
    else:
        reqs = corpus_requests() + gen_requests(ctx, res)
    lines = [req(f, n, p, c) for (_, f, n, p, c) in reqs]
    env = {'PROBE_RE_MAXRES': str(MAXRES)}

    def inp(i):
        k, f, n, p, c = reqs[i]
        return {'flg': f, 'nsub': n, 'pats': [hx(x) for x in p], 'cases': [[cf, hx(cl)] for cf, cl in c]}

    # ---- model first: it tells which inputs leave the strings (OOB) and which are too big to compile
    mans = [None] * len(lines)
    if model:
        mans, minc = relib.run_all(model, lines, chunk=1500, timeout=600, env=env)
        for (i, rc, err) in minc[:5]:
            res.disagree({'what': 'model driver crashed or hung on this request (rc=%s)' % rc, 'input': [inp(i)], 'stderr': err[-500:]})
    skip = set()
    oob = []
    for i, a in enumerate(mans):
        if a is None:
            continue
        if a.startswith('big'):
            skip.add(i)
            res.count('reservation above %d (not compiled)' % MAXRES)
        elif 'oob' in a:
            skip.add(i)
            oob.append(i)
        if 'nofuel' in a:
            res.disagree({'what': 'the model ran out of fuel (C11_terminates / C11_parse_in_bounds say it cannot)', 'input': [inp(i)], 'model': a})
    # ---- the model never leaves a string (C11_parse_in_bounds / C11_exec_no_oob); if it does, say so
    for i in oob:
        res.violation({'what': 'the model reads or steps past a terminator on this input', 'input': [inp(i)], 'model': mans[i],
                       'expected': 'no access beyond the terminator'})
        skip.discard(i)
    # ---- the implementation, plain and sanitized
    idx = [i for i in range(len(lines)) if i not in skip]
    sub = [lines[i] for i in idx]
    pans, pinc = relib.run_all(probe, sub, chunk=1500, timeout=600, env=env)
    aans, ainc = relib.run_all(probe_asan, sub, chunk=1500, timeout=900, env=env)
    for what, incs in (('plain probe', pinc), ('sanitized probe', ainc)):
        for (j, rc, err) in incs[:6]:
            res.violation({'what': '%s: crash, sanitizer report or hang while compiling/matching (rc=%s)' % (what, rc), 'input': [inp(idx[j])],
                           'observed': (err or '')[-1500:], 'expected': 'clean reject or compile, bounded matching'})
    trees = {}

    def tree_of(i):
        if i not in trees:
            k, f, n, p, c = reqs[i]
            out, rc, err = relib.run_batch(model, ['T ' + ','.join(hx(x) for x in p)], 30, env) if model else (None, 1, '')
            try:
                trees[i] = relib.parse_sexp(out[0]) if out and out[0].startswith('(') else None
            except Exception:
                trees[i] = None
        return trees[i]

    ndis = 0
    for j, i in enumerate(idx):
        k, f, n, p, c = reqs[i]
        a = pans[j]
        res.evaluations += 1
        res.count(k)
        if a is None:
            continue
        if aans[j] is not None and aans[j] != a and 'timeout' not in a and 'timeout' not in aans[j]:
            res.violation({'what': 'plain and sanitized builds answer differently (undefined behaviour)', 'input': [inp(i)], 'plain': a, 'asan': aans[j]})
        d = parse_answer(a)
        if d['status'] == 'ok':
            res.nontriv(lines[i].split(' ', 3)[3].split(' ')[0])
            res.count('compiled')
            if int(d['n']) > int(d['res']):
                res.violation({'what': 'emitted program (%s instructions) exceeds the reservation (%s)' % (d['n'], d['res']), 'input': [inp(i)],
                               'expected': 'n <= rnode_count + 3', 'observed': a})
            for (cf, cl), cc in zip(c, d['cases']):
                if cc['kind'] == 'timeout':
                    t = tree_of(i)
                    if t is not None and relib.nullable_loop(t):
                        res.violation({'what': 'a loop whose body can match the empty string makes the matcher take exponential time', 'input': [inp(i)]},
                                      kf='KF-EMPTY-LOOP')
                    else:
                        res.violation({'what': 'rset_find exceeded the CPU limit and the pattern has no nullable loop', 'input': [inp(i)], 'observed': a,
                                       'expected': 'bounded time'})
                    continue
                bad = oracle_case(p, cl, cc, len(p) == 1)
                if bad:
                    res.violation({'what': bad, 'input': [inp(i)], 'observed': cc['raw'], 'expected': '0 <= so <= eo <= len on character boundaries, or -1/-1'})
        elif d['status'] == 'rej':
            res.count('rejected')
        elif d['status'] == 'big':
            res.count('big')
        else:
            res.disagree({'what': 'unexpected probe answer', 'input': [inp(i)], 'implementation': a})
        if mans[i] is not None and mans[i] != a and 'timeout' not in a:
            ndis += 1
            res.disagree({'what': 'model and implementation differ', 'input': [inp(i)], 'implementation': a, 'model': mans[i]})
    res.extra['model_vs_probe_differences'] = ndis
    for j in range(0, len(idx), max(1, len(idx) // 5)):
        res.sample({'request': inp(idx[j]), 'answer': (pans[j] or '')[:200]})
    run_sequences(ctx, res, probe, probe_asan, model, env, sessions, ex_scripts)
    # ---- canonical inputs of the known findings of this property
    if not ctx.replay:
        kf = req(0, 2, [b'(a*)*b'], [(0, b'aaaa')])
        out, rc, err = relib.run_batch(probe, [kf], 60, env)
        if out and 'timeout' in out[0]:
            res.violation({'what': '(a*)*b on aaaa: exponential time (nullable loop body)', 'input': [{'pats': [hx(b'(a*)*b')], 'line': hx(b'aaaa')}]}, kf='KF-EMPTY-LOOP')
        # malformed constructs must be REJECTED (fix 66f245a / 3139e7f), the neighbouring valid forms accepted -- judged on the
        # implementation's answer alone
        ma = [req(0, 2, ps, [(0, b'a\n')]) for ps in MUST_REJECT + MUST_ACCEPT]
        outs_ma, _ = relib.run_all(probe, ma, chunk=100, timeout=120, env=env)
        for k, (ps, a) in enumerate(zip(MUST_REJECT + MUST_ACCEPT, outs_ma)):
            res.evaluations += 1
            want_rej = k < len(MUST_REJECT)
            if a is None:
                continue
            if want_rej != a.startswith('rej'):
                res.violation({'what': ('a malformed pattern (set) is accepted instead of rejected' if want_rej else 'a valid pattern (set) is rejected'),
                               'input': [{'pats': [hx(p) for p in ps], 'pattern_text': [p.decode('latin-1') for p in ps]}],
                               'expected': 'rej' if want_rej else 'ok ...', 'observed': a[:120]})
        # the instruction limit NINST: reservations just below and above it, compiled for real (no "big" shortcut)
        lim = [b'(((a{128}){2}){2}){126}', b'(((a{128}){2}){2}){127}', b'(((a{128}){2}){2}){126,}', b'((((a{128}){128}){128}){128})',
               b'(((((a{128}){128}){128}){128}){128})', b'((a{128}){128}){31}', b'((a{128}){128}){7}', b'((a{128}){128}){8}', b'(a{0}){128}',
               b'((((a{128}){128}){128}){0})', b'(((a|b){128}){64}){32}']
        # several SATURATING siblings (each estimate = NINST) concatenated / alternated inside 0..2 further counted
        # groups: without the saturation of every rnode_count result (also on the unrepeated-node path) 8..16 of
        # them inside one more {128} overflow int (seeded change C11-2: negative or wrapped reservation)
        U = b'((a{128}){128}){128}'
        for k in (2, 3, 7, 8, 9, 12, 15, 16, 17, 20):
            for sep in (b'', b'|'):
                body = sep.join([U] * k)
                for wrap in (b'(%s)', b'(%s){128}', b'((%s){128}){128}', b'((%s){2}){128}', b'(x|(%s){128})'):
                    lim.append(wrap % body)
        ll = ['C ' + hx(q) for q in lim]
        e2 = {'PROBE_RE_MAXRES': '100000000'}
        outs = []
        for exe in (probe, probe_asan, model):
            a, inc = relib.run_all(exe, ll, chunk=1, timeout=300, env=e2) if exe else ([None] * len(ll), [])
            outs.append(a)
            for (j, rc, err) in inc:
                res.violation({'what': 'crash or hang while compiling a pattern near the instruction limit (rc=%s)' % rc,
                               'input': [{'pats': [hx(lim[j])]}], 'observed': (err or '')[-800:]})
        for j, q in enumerate(lim):
            res.evaluations += 1
            res.count('instruction-limit patterns')
            a = outs[0][j]
            if a is None:
                continue
            d = parse_answer(a)
            if d['status'] == 'ok' and int(d['n']) > int(d['res']):
                res.violation({'what': 'emitted program (%s) exceeds the reservation (%s)' % (d['n'], d['res']), 'input': [{'pats': [hx(q)]}], 'observed': a})
            if outs[1][j] is not None and outs[1][j] != a:
                res.violation({'what': 'plain and sanitized builds answer differently near the instruction limit', 'input': [{'pats': [hx(q)]}], 'plain': a, 'asan': outs[1][j]})
            if outs[2][j] is not None and outs[2][j] != a:
                res.disagree({'what': 'model and implementation differ near the instruction limit', 'input': [{'pats': [hx(q)]}], 'implementation': a, 'model': outs[2][j]})
