"""C02 -- unsaved changes are never silently discarded on quit, :e or :b.

(1) Line-buffer interface: harness/probe_undo.c (the real lbuf_edit / lbuf_modified / lbuf_undo /
    lbuf_redo / lbuf_saved / lbuf_unsaved) and the extracted Coq model (UndoDefs.v, DirtyDefs.v) run
    the same operation lists -- every list up to a fixed length over a 10-operation alphabet
    (edits, command boundary, undo, redo, whole write, partial own-path write, reload), random
    longer lists -- and the MODIFIED FLAG, result code and text after every operation are compared.
    Oracle: a ghost `disk` text: flag off => text == disk; flag off right after a whole
    write/reload and after an undo/redo walk back to the saved position.
(2) The real binary (`vi -s -e`) with 1-4 files: generated histories over {a/i/c/d/s/pu/g, u, redo,
    w, a,bw, w other, |-joined lines around w, e!, e other, e! other, b n, q + sentinel}.
    Observed after every command: the `:b` listing (current buffer, `*` flags), the text (%p), the
    'buffer modified' message, whether the process is still alive, the file bytes (snapshots taken
    from inside with `w !cp`).  Oracle: ghost disk = file bytes; whenever text != disk the flag
    must be `*` and :q / :e / :b without ! must be refused with nothing discarded; in a saved
    state they must be allowed.
(3) The refusal logic of ec_quit / the guard of ec_edit, ec_buffer: the model (quit_scan,
    guard_current) is asked the same question with the observed flags and must predict the
    observed outcome (exit or not, which buffer becomes current).  The model's table is bufs[NBUFS] (NBUFS generated from
    ex.c): the observed buffers first, the other slots empty, scanned by the array loop ec_quit_tab.
(4) Round e: histories with NBUFS-1, NBUFS and NBUFS+1 files (gen_many): every file is opened, the modified buffer(s) sit in
    every slot of the table in turn (the last slot of a full table in particular), then q / x / wq / xa / e / b, `w`, quit
    again ... until the editor is gone; judged by the same ghost-disk oracle.
(5) Round f: writes that FAIL (gen_fault): the editor runs under the LD_PRELOAD shim harness/faultshim.c; a dry run gives the
    open/write/close calls of every command, then one call of a save (mostly the final close() of :w / :wq / :x / :xa / a
    range write) gets an error.  The ghost disk of a file is its content when last read or last SUCCESSFULLY written: a
    save with an injected error is not one.  The `*` flag must stay, :q / :e / :b must be refused, nothing may exit.  The
    model with failing writes (coq/DirtyIoDefs.v, driver model_dirtyio) is asked the same command with the same schedule.
(6) Round g: :e with an empty or self-referring argument (`e`, `e +1`, `e %`, `e #`, `e! %`; `e <own name>` was there) in every
    history: without `!` on a buffer whose text differs from its file it must be refused with the text kept, in a saved state it
    must go through (a re-read); the model (DirtyDefs.ec_edit_noarg / ec_edit_own) answers the same question (GE / GO).
    A write to a pipe (`w !cmd`) in histories and on the unnamed buffer: names, flags and ghost disks stay (fix 268c549).
(7) Round h: sessions that start WITHOUT a file name (gen_noname): the unnamed buffer -- never cleared by lbuf_saved(lb, 1), so
    useq_last = 0 -- is modified, gets its name from the first write with a path (`w name`, `1w name`, `1,2w name`), is written
    in part to its own path and undone all the way down (and further), then q / e / b; ghost disk of the unnamed buffer = empty,
    from the naming write on the bytes of that file.  Line-buffer level: every list also from the init `@` (lbuf_make;
    lbuf_saved(lb, 0) = DirtyDefs.ebuf_new), and aimed lists edit.. / whole write / partial write / undo past the start / redo.
"""
import itertools, json, os, re, glob
from concurrent.futures import ProcessPoolExecutor
import vlib
from props import c04
from props import c03
from props.c04 import hx, E, run_exe, lines_of, parse_op

GROUP = 'undo'
TRUSTED = ['the Python ghost-disk oracle of tools/props/c02.py', 'file snapshots taken from inside the editor with `w !cp file snap` (shell cp); in sessions started without a file name with `rx z cp file snap`']

# ---------------------------------------------------------------------------------------------
# line-buffer level.  'L' = reload (:e!): lbuf_edit over the whole buffer with the file content, lbuf_saved(lb, 0)

RELOAD = b'r\n'
ALPHA = [E(0, 0, b'x\n'), E(0, 1, None), E(1, 1, b''), E(0, 0, None), 'M', 'U', 'R', 'S', 'P', 'L']
INITS = [b'a\n', b'a\nb\nc\n']
NONAME = None          # init of the buffer an editor started without a file name has: lbuf_make(); lbuf_saved(lb, 0) -- request word "@"


def init_word(init):
    return '@' if init is None else hx(init)


def init_of(word):
    return None if word == '@' else vlib.unhx(word)


def expand(ops):
    out = []
    for o in ops:
        if o == 'L':
            out += [E(0, 99, RELOAD), 'S']
        else:
            out.append(o)
    return out


def oracle_flags(init, ops, answers):
    """ops: unexpanded list (with 'L'); answers: one per expanded op.  None or (op index, what, expected, observed)."""
    exp = []
    for i, o in enumerate(ops):
        exp += [(i, x) for x in ([E(0, 99, RELOAD), 'S'] if o == 'L' else [o])]
    if len(answers) != len(exp):
        return (len(answers), 'the probe answered %d of %d operations' % (len(answers), len(exp)), len(exp), len(answers))
    if init is None:
        disk = b''          # no file: the text the editor started with
    else:
        disk = init if init.endswith(b'\n') or not init else init + b'\n'
    cur = disk
    pos = 0            # net undo/redo position relative to the last save; None = the saved position is unknown or gone
    for (i, o), a in zip(exp, answers):
        try:
            rc, flag, th = a.split(',')
            now = vlib.unhx(th)
        except ValueError:
            return (i, 'malformed answer', 'rc,flag,hex', a[:200])
        k = o[0]
        in_reload = ops[i] == 'L'
        if k == 'E':
            op = parse_op(o)
            n = cur.count(b'\n')
            b, e = min(op[1], n), min(op[2], n)
            if not (b == e and op[3] is None):
                pos = None if (pos is None or pos != 0 or True) else pos
                pos = None
        elif k == 'U':
            if rc == '0' and pos is not None:
                pos -= 1
        elif k == 'R':
            if rc == '0' and pos is not None:
                pos += 1
        elif k == 'S':
            disk = now
            pos = 0
            if flag != '0':
                return (i, 'right after a write of the whole buffer to its own path (or a reload) the buffer is still reported modified', 'flag 0', 'flag ' + flag)
        elif k == 'P':
            if len(o) > 1:                              # P<b>,<e>: lines b..e-1 went to the file
                pb, pe = [int(x) for x in o[1:].split(',')]
                disk = b''.join(lines_of(now)[pb:pe])
            else:
                disk = b''.join(lines_of(now)[1:])      # ":2,$w" -- the first line is missing from the file
            pos = None
        elif k == 'M':
            if rc != flag:
                return (i, 'lbuf_modified returned %s but the dirty test reads %s' % (rc, flag), flag, rc)
        cur = now
        if in_reload and k == 'E':
            continue                # between the read and lbuf_saved of a reload the flag is not observable
        if flag == '0' and cur != disk:
            return (i, 'the dirty test reports clean while the text differs from the file', 'flag 1 (text %r, file %r)' % (cur, disk), 'flag 0')
        if flag == '1' and pos == 0:
            return (i, 'undo/redo came back to the position of the last whole write but the buffer is still reported modified', 'flag 0', 'flag 1')
    return None


def chunk_worker(args):
    probe, model, cases = args
    lines = [init_word(init) + ' ' + ' '.join(expand(ops)) for init, ops in cases]
    viol, dis = [], []
    rc, out_c, err = run_exe(probe, lines)
    if rc != 0 or len(out_c) != len(lines):
        return {'n': len(cases), 'viol': [], 'dis': [{'what': 'probe_undo exited with status %d after %d of %d answers (memory errors of the log are C04/C05 matters): %s' % (rc, len(out_c), len(lines), err[-500:])}]}
    if model:
        rc, out_m, err = run_exe(model, lines)
        if rc != 0 or len(out_m) != len(lines):
            dis.append({'what': 'model driver: rc=%d, %d answers for %d requests' % (rc, len(out_m), len(lines)), 'stderr': err[-800:]})
        else:
            for (init, ops), a, b in zip(cases, out_c, out_m):
                if a != b and len(dis) < 5:
                    dis.append({'what': 'model and implementation differ on the modified flag, the result code or the text after some operation',
                                'input': {'kind': 'lbuf', 'init': init_word(init), 'ops': ops}, 'implementation': a, 'model': b})
    for (init, ops), a in zip(cases, out_c):
        bad = oracle_flags(init, ops, a.split(' ') if a else [])
        if bad and len(viol) < 5:
            viol.append({'init': init_word(init), 'ops': ops, 'bad': bad})
    return {'n': len(cases), 'viol': viol, 'dis': dis}


def aimed_lbuf():
    """edits (each its own command), a whole write after one of them or none, a partial own-path write or none, then undo further
    than there are edits, redo all, undo all -- from the unnamed start (useq_last = 0) and from a file (useq_last >= 1)"""
    out = []
    for init in (NONAME, b'a\nb\n', b''):
        for k in (1, 2, 3, 5):
            for save_at in (None, 0, k - 1):
                for part in ('P', 'P0,1', 'P0,2', None):
                    ops = []
                    for i in range(k):
                        ops += [E(i, i, b'l%d\nm%d\n' % (i, i)), 'M']
                        if save_at == i:
                            ops += ['S', 'M']
                    if part:
                        ops += [part, 'M']
                    ops += ['U', 'M'] * (k + 2) + ['R', 'M'] * (k + 2) + ['U'] * (k + 2) + ['M']
                    out.append((init, ops))
    return out


def rand_ops(rng, n):
    ops = []
    for _ in range(n):
        k = rng.below(24)
        if k < 8:
            b = rng.below(4)
            e = b + rng.choice([0, 0, 1, 1, 2, 5])
            t = None if rng.chance(1, 3) else c04.rand_text(rng)
            ops.append(E(b, e, t))
        elif k < 11:
            ops.append('M')
        elif k < 16:
            ops.append('U')
        elif k < 19:
            ops.append('R')
        elif k < 21:
            ops.append('S')
        elif k < 22:
            ops.append('P')
        else:
            ops.append('L')
    return ops


# ---------------------------------------------------------------------------------------------
# the real binary

WORDS = ['ax', 'bxx', 'cab', 'dxa', 'eee', 'fax']


def gen_history(rng, ncmd):
    nf = rng.choice([1, 2, 2, 3, 4])
    files = {}
    for i in range(nf):
        files['f%d.txt' % (i + 1)] = ''.join('%s%d%d %s\n' % (rng.choice(WORDS), i + 1, j, rng.choice(WORDS)) for j in range(rng.range(2, 5))).encode()
    uniq = [0]
    nout = [0]

    def mod(simple=False):
        uniq[0] += 1
        u = uniq[0]
        a = rng.choice(['1', '2', '$', '1'])
        k = rng.choice([0, 4, 5, 6, 7]) if simple else rng.below(8)      # no text block inside a |-joined line: its "." could not end it
        if k == 0:
            return '%sd' % a
        if k == 1:
            return '%sa\nt%d x\n.' % (a, u)
        if k == 2:
            return '%si\nt%d x\nu%d\n.' % (a, u, u)
        if k == 3:
            return '%sc\nt%d\n.' % (rng.choice([a, '1,2']), u)
        if k == 4:
            return '%ss/x/Y%d/' % (rng.choice([a, '%']), u)
        if k == 5:
            return 'g/x/s/$/ G%d/' % u
        if k == 6:
            return '%sy|%spu' % (a, a)
        return '%ss/^/P%d/' % (a, u)

    def other():
        nout[0] += 1
        return 'out%d.txt' % nout[0]

    def quit_cmd():
        # every quit form without '!' and without 'a': plain, after a write of the buffer to its own path, after a write ELSEWHERE
        # (path argument, range + path argument, shell pipe) -- the last three leave the buffer as dirty as it was
        f = rng.choice(['q', 'q', 'q', 'wq', 'x', 'wq %s', 'x %s', '1,2wq %s', 'wq !cat >/dev/null', 'x !cat >/dev/null'])
        return ('q', f % other() if '%s' in f else f, None)

    def eself():
        # :e with an empty or self-referring argument: `e` / `e +1` re-read the file over the buffer (refused without ! on a buffer
        # that differs from its file), `e %` only "switches" to the buffer itself, `e #` goes to the alternate buffer
        t = rng.choice(['e', 'e', 'e', 'e +1', 'e %', 'e %', 'e #', 'e! %', 'w !cat >/dev/null', '1w !cat >/dev/null'])
        if t[-1] == 'l':
            return ('wpipe', t, None)
        return ('e', t, None) if t == 'e #' else ('eforce', t, None) if '!' in t else ('eself', t, None)

    cmds = []      # (kind, text, info)
    for _ in range(ncmd):
        r = rng.below(46)
        if r >= 42:
            cmds.append(eself())
        elif r >= 40:
            uniq[0] += 1
            if rng.chance(1, 2):
                cmds.append(('bulk', bulk_block(rng, rng.choice([40, 130, 260, 600]), 'b%d_' % uniq[0]), None))
            else:
                cmds.append(('ubulk', '\n'.join([rng.choice(['u', 'u', 'redo'])] * rng.choice([3, 50, 140, 700])), None))
        elif r < 12:
            cmds.append(('mod', mod(), None))
        elif r < 16:
            cmds.append(('u', 'u', None))
        elif r < 18:
            cmds.append(('r', 'redo', None))
        elif r < 22:
            cmds.append(('w', 'w', None))
        elif r < 24:
            cmds.append(('wpart', rng.choice(['1,1w', '2,$w', '1w', '1,2w']), None))
        elif r < 26:
            cmds.append(('wother', rng.choice(['w! %s', '1,2w! %s', 'w %s']) % other(), None))
        elif r < 29:
            cmds.append(('wjoin', rng.choice(['%s|w|%s' % (mod(True), mod(True)), '%s|w' % mod(True), 'w|%s' % mod(True), '%s|w|%s|w' % (mod(True), mod(True))]), None))
        elif r < 31:
            cmds.append(('reload', 'e!', None))
        elif r < 34:
            t = 'f%d.txt' % rng.range(1, nf)
            cmds.append(('e', 'e %s' % t, t))
        elif r < 35:
            t = 'f%d.txt' % rng.range(1, nf)
            cmds.append(('eforce', 'e! %s' % t, t))
        elif r < 37:
            cmds.append(('b', 'b %d' % rng.range(1, nf), None))
        else:
            cmds.append(quit_cmd())
    # shapes aimed at the bookkeeping: edit / partial own-path write / undo back / quit; edit|w|edit in one line / quit;
    # edit / write elsewhere / quit; edit / leave the buffer with ! / quit; edit / write / undo / (redo) / quit
    if rng.chance(1, 3):
        t = 'f%d.txt' % rng.range(1, nf)
        shape = rng.choice([
            [('mod', mod(True), None), ('wpart', rng.choice(['1w', '1,1w', '2,$w']), None), ('u', 'u', None), ('q', 'q', None)],
            [('wjoin', '%s|w|%s' % (mod(True), mod(True)), None), ('q', 'q', None)],
            [('mod', mod(), None), ('wother', 'w! %s' % other(), None), ('q', 'q', None)],
            [('mod', mod(), None), ('eforce', 'e! %s' % t, t), ('q', 'q', None)],
            [('mod', mod(), None), ('w', 'w', None), ('u', 'u', None), ('q', 'q', None), ('r', 'redo', None), ('q', 'q', None)],
            [('mod', mod(), None), ('mod', mod(), None), ('u', 'u', None), ('u', 'u', None), ('q', 'q', None)],
            [('mod', mod(), None), ('wpart', '1w', None), ('u', 'u', None), ('e', 'e %s' % t, t)],
            [('mod', mod(), None), ('eself', 'e', None), ('q', 'q', None)],
            [('mod', mod(), None), ('w', 'w', None), ('mod', mod(), None), ('eself', rng.choice(['e', 'e +1', 'e %']), None), ('q', 'q', None)],
            [('mod', mod(), None), ('wpart', rng.choice(['1w', '2,$w']), None), ('u', 'u', None), ('eself', 'e', None), ('q', 'q', None)],
            [('mod', mod(), None), ('u', 'u', None), ('eself', 'e', None), ('q', 'q', None)],
            [('mod', mod(), None), ('mod', mod(), None), ('wpart', rng.choice(['1w', '1,2w', '2,$w']), None)] + [('u', 'u', None)] * 3 + [rng.choice([('q', 'q', None), ('eself', 'e', None), ('b', 'b 1', None)])],
        ])
        cmds = shape + cmds[:max(0, ncmd - len(shape))]
    cmds.append(quit_cmd())
    cmds.append(('q', 'q', None))
    return files, cmds


NEWNAME = 'n1.txt'


def gen_noname(rng, aimed=True):
    """a session of an editor started WITHOUT a file name (argv has none; other files may exist and be opened later): the unnamed
    buffer is modified by a few commands, gets its name from the first write with a path (`w name`: whole; `1w name`, `1,2w name`: a
    part -- the name is adopted all the same), is modified again, written -- in part or whole -- to its own path, and then undone all
    the way down to the state before the first change (and further), with q / e / b asked on the way; then redo, and a random tail"""
    files, tail = gen_history(rng, rng.choice([3, 6, 9]))
    uniq = [0]

    def app():
        uniq[0] += 1
        u = uniq[0]
        return ('mod', rng.choice(['a\nn%da x\nn%db x\n.', 'a\nn%da x\n.', '0a\nn%dz x\nn%dy x\n.', 'a\nn%da x\nn%db x\nn%dc x\n.']).replace('%d', str(u)), None)

    def ask():
        r = rng.below(6)
        if r < 3:
            return ('q', 'q', None)
        if r == 3:
            return ('eself', rng.choice(['e', 'e %']), None)
        if r == 4:
            return ('e', 'e f1.txt', 'f1.txt')
        return ('b', 'b %d' % rng.choice([1, 2]), None)

    cmds = []
    n1 = rng.choice([1, 1, 2, 3])
    for _ in range(n1):
        cmds.append(app())
    if rng.chance(1, 3):
        # the text of the unnamed buffer goes to a pipe: it is in no file, the buffer keeps no name and stays modified
        cmds += [('wpipe', rng.choice(['w !cat >/dev/null', '1w !cat >/dev/null', 'w! !cat >/dev/null']), None), ask()]
    if rng.chance(1, 4):
        cmds += [('u', 'u', None), ask(), ('r', 'redo', None)]
    cmds.append(('wname', rng.choice(['w %s', 'w %s', '1w %s', '1,2w %s']) % NEWNAME, NEWNAME))
    if rng.chance(1, 3):
        cmds.append(ask())
    n2 = rng.choice([0, 1, 1, 2])
    for _ in range(n2):
        cmds.append(app())
    pw = rng.choice(['1,2w', '1w', '2,$w', '1,1w', 'w', None])
    if pw:
        cmds.append(('w', 'w', None) if pw == 'w' else ('wpart', pw, None))
    if aimed:
        nu = n1 + n2 + rng.choice([0, 0, 1, 2])
        for i in range(nu):
            cmds.append(('u', 'u', None))
            if i >= n1 + n2 - 1 or rng.chance(1, 3):
                cmds.append(ask())
        for _ in range(rng.choice([0, 1, nu])):
            cmds.append(('r', 'redo', None))
        cmds.append(ask())
    cmds += tail
    return files, cmds


RESCUE = 'resc.txt'


def gen_allquit(rng, ustate=None, final=None):
    """a session of an editor started WITHOUT a file name in which the unnamed start-up buffer is LEFT BEHIND (no write names it): it
    stays in the table -- empty and untouched, holding text typed into it (then it can only be left with e!), or with its text undone
    again -- while 1-3 named files are opened, some of them modified and left with e!; the buffers are moved around with :b; then a quit
    form, the `a` form (xa: every buffer is written, the first error stops the quit) among them.  After a refusal: the buffers the
    refused quit may have written are visited and undone (u, q, redo), the unnamed buffer is rescued with `w <name>`, and the quit
    forms are asked again until the editor has gone."""
    nf = rng.choice([1, 2, 2, 3])
    files = {}
    for i in range(nf):
        files['f%d.txt' % (i + 1)] = ''.join('%s%d%d %s\n' % (rng.choice(WORDS), i + 1, j, rng.choice(WORDS)) for j in range(rng.range(2, 4))).encode()
    names = sorted(files)
    uniq = [0]
    nout = [0]

    def mod():
        uniq[0] += 1
        return ('mod', rng.choice(['1s/^/M%d /', '$s/$/ M%d/', '1s/x/Y%d/', '2s/^/N%d /', '1d', '$a\nt%d x\n.']).replace('%d', str(uniq[0])), None)

    def other():
        nout[0] += 1
        return 'out%d.txt' % nout[0]

    def quit_form():
        f = final or rng.choice(['xa', 'xa', 'xa', 'xa', 'q', 'q', 'x', 'wq', 'wq %s', 'x %s'])
        return ('q', f % other() if '%s' in f else f, None)

    ustate = ustate or rng.choice(['empty', 'text', 'text', 'text', 'undone', 'text2'])
    cmds = []
    cur_mod = False
    if ustate != 'empty':
        uniq[0] += 1
        cmds.append(('mod', 'a\nscratch %d x\nmore %d\n.' % (uniq[0], uniq[0]), None))
        cur_mod = True
        if ustate == 'text2':
            cmds.append(mod())
        if ustate == 'undone':
            cmds.append(('u', 'u', None))
            cur_mod = False
    modified = set()
    for i, n in enumerate(names):
        if cur_mod and rng.chance(1, 3):
            cmds.append(('e', 'e %s' % n, n))                          # must be refused
        cmds.append(('eforce', 'e! %s' % n, n) if cur_mod else ('e', 'e %s' % n, n))
        cur_mod = False
        r = rng.below(6)
        if r < 3 and not (i == len(names) - 1 and rng.chance(1, 2)):
            cmds.append(mod())
            cur_mod = True
            modified.add(n)
            if r == 0:
                cmds += [('w', 'w', None), mod()]
            elif r == 1 and rng.chance(1, 2):
                cmds.append(('wpart', '1w', None))
    # move around: :b n (ids are given in the order of opening: 1 = the unnamed buffer), :e of an open file
    for _ in range(rng.choice([0, 0, 1, 2])):
        j = rng.range(1, nf + 1)
        if rng.chance(1, 2):
            cmds.append(('b', 'b %d' % j, None))
        else:
            n = rng.choice(names)
            cmds.append(rng.choice([('e', 'e %s' % n, n), ('eforce', 'e! %s' % n, n)]))
    if rng.chance(1, 3):
        cmds.append(mod())
    cmds.append(quit_form())
    # still there: what a refused quit has written, and what it has not
    for n in names:
        if rng.chance(2, 3):
            cmds += [('eforce', 'e! %s' % n, n), ('u', 'u', None), ('q', 'q', None)]
            if rng.chance(1, 2):
                cmds.append(('r', 'redo', None))
            if rng.chance(1, 3):
                cmds.append(('w', 'w!', None))
    cmds.append(quit_form())
    # the rescue: the current buffer is written (w! does not depend on the clock), the unnamed buffer gets a name
    cmds += [('w', 'w!', None), ('b', 'b 1', None), ('wname', 'w %s' % RESCUE, RESCUE), ('q', rng.choice(['xa', 'q', 'x']), None)]
    for _ in range(nf + 1):
        cmds += [('w', 'w!', None), ('q', rng.choice(['q', 'q', 'x', 'wq', 'xa']), None)]
    cmds.append(('q', 'q', None))
    return files, cmds


def bulk_block(rng, m, tag):
    out = []
    for i in range(m):
        r = rng.below(4)
        if r == 0:
            out.append('$a\n%s%d\n.' % (tag, i))
        elif r == 1:
            out.append('1s/$/x/')
        elif r == 2:
            out.append('2s/^/y/')
        else:
            out.append('$s/.*/%s%d/' % (tag, i))
    return '\n'.join(out)


def gen_long(rng, n, variant):
    """a history one or two orders of magnitude longer: n single-record commands in one block (crossing the growth points of
    hist[] and whatever bound a history may have), a save in the middle for some, then undo further than there are commands (or
    part of the way), redo part of the way, with the buffer list, the text and a quit observed at the checkpoints"""
    files = {'f1.txt': b'aa\nbb\ncc\n'}
    if variant % 2:
        files['f2.txt'] = b'zz\n'

    def block(m, tag):
        return bulk_block(rng, m, tag)

    cmds = []
    if variant in (2, 3):
        cmds += [('bulk', block(n // 2, 'p'), None), ('w', 'w', None), ('bulk', block(n - n // 2, 'q'), None)]
    else:
        cmds += [('bulk', block(n, 'p'), None)]
    cmds.append(('q', 'q', None))
    nu = n + 50 if variant != 4 else rng.range(1, n)
    cmds.append(('ubulk', '\n'.join(['u'] * nu), None))
    cmds.append(('q', 'q', None))
    if variant % 2:
        cmds += [('eforce', 'e! f2.txt', 'f2.txt'), ('q', 'q', None), ('q', 'q', None)]
    cmds.append(('ubulk', '\n'.join(['redo'] * rng.choice([1, 7, n // 3])), None))
    cmds.append(('q', 'wq out1.txt', None))
    cmds.append(('q', 'q', None))
    return files, cmds


def writes_files(c):
    return c[0] in ('w', 'wpart', 'wother', 'wjoin', 'wname') or (c[0] == 'q' and c[1] != 'q')


PIPE_WRITE_RE = re.compile(r'^[0-9,$%]*(w|wq|x)!?\s*!')
WRITE_RE = re.compile(r'^([0-9,$]*)(w|wq|x)(!?)(?:\s+(\S.*))?$')


def parse_write(ctext):
    """(range text, path argument or None) of a single write / write-and-quit command; None if it is not one (or a |-joined line)"""
    m = WRITE_RE.match(ctext)
    if not m or '|' in ctext:
        return None
    arg = m.group(4)
    return (m.group(1), None if (arg is None or arg.startswith('!')) else arg.strip())


def hist_names(files, cmds, noname=False):
    """the files whose bytes are snapshotted: the given ones; in a session started without a file name also every path a write
    names (the unnamed buffer takes the first one as its own)"""
    names = sorted(files)
    if noname:
        extra = set()
        for c in cmds:
            w = parse_write(c[1]) if c[0] in ('wname', 'wother', 'q') else None
            if w and w[1] and w[1] not in files:
                extra.add(w[1])
        names += sorted(extra)
    return names


def gen_many(rng, nb, nbufs, slots=None, final=None):
    """a history over nb files, nb around nbufs = LEN(bufs): every file is opened in turn (the table fills up, with nb > nbufs the
    least recently used buffer is recycled), the buffers that are modified when they are left end up in the given slots of the
    table (slot 0 = current, slot nbufs-1 = the last one of a full table); then a quit / :e / :b, `w`, quit again ... until the
    editor has gone.  slots: where the modified buffers shall sit at the end (None = random, possibly none)."""
    names = ['g%02d.txt' % i for i in range(1, nb + 1)]
    files = {n: ('%s%d x\nsecond %d %s\n' % (rng.choice(WORDS), i + 1, i + 1, rng.choice(WORDS))).encode() for i, n in enumerate(names)}
    nlive = min(nb, nbufs)
    if slots is None:
        r = rng.below(8)
        slots = [] if r == 0 else [nlive - 1] if r < 4 else sorted({rng.below(nlive) for _ in range(rng.choice([1, 1, 2, 3]))})
    dirty_idx = {nb - sl for sl in slots if 0 <= sl < nlive}           # g_i sits in slot nb - i when all are open
    uniq = [0]
    nout = [0]

    def mod():
        uniq[0] += 1
        return ('mod', rng.choice(['1s/^/M%d /', '$s/$/ M%d/', '1s/x/Y%d/', '2s/^/N%d /']) % uniq[0], None)

    def other():
        nout[0] += 1
        return 'out%d.txt' % nout[0]

    cmds = []
    for i in range(1, nb + 1):
        leave = 'e'
        if i in dirty_idx:
            sh = rng.below(5)
            if sh == 0:
                cmds += [mod(), ('wpart', '1w', None)]                          # part of the buffer written to its own path
            elif sh == 1:
                cmds += [mod(), ('w', 'w', None), mod()]
            elif sh == 2:
                cmds += [mod(), ('wother', 'w! %s' % other(), None)]
            else:
                cmds += [mod()]
            leave = 'eforce'
        else:
            r = rng.below(12)
            if r == 0:
                cmds += [mod(), ('w', 'w', None)]
            elif r == 1:
                cmds += [mod(), ('u', 'u', None)]
        if i < nb:
            cmds.append((leave, ('e! %s' if leave == 'eforce' else 'e %s') % names[i], names[i]))
    # move buffers around in the table (a refused :b / :e is judged like any other)
    if rng.chance(1, 3):
        for _ in range(rng.range(1, 4)):
            j = rng.range(1, nb)
            cmds.append(rng.choice([('b', 'b %d' % j, None), ('e', 'e %s' % names[j - 1], names[j - 1]), ('eforce', 'e! %s' % names[j - 1], names[j - 1])]))

    def quit_cmd():
        f = final or rng.choice(['q', 'q', 'x', 'wq', 'xa', 'wq %s', 'x %s'])
        if f in ('e', 'b'):
            j = rng.range(1, nb)
            return ('b', 'b %d' % j, None) if f == 'b' else ('e', 'e %s' % names[j - 1], names[j - 1])
        return ('q', f % other() if '%s' in f else f, None)

    cmds.append(quit_cmd())
    if final in ('e', 'b'):
        cmds.append(('q', 'q', None))
    for _ in range(len(dirty_idx) + 1):
        cmds += [('w', 'w', None), ('q', rng.choice(['q', 'q', 'x', 'wq']), None)]
    cmds.append(('q', 'q', None))
    return files, cmds


SAVES = [('w', 'w'), ('w', 'w'), ('w', 'w!'), ('q', 'wq'), ('q', 'wq'), ('q', 'x'), ('q', 'x'), ('q', 'xa'), ('q', 'xa'),
         ('wpart', '1,1w'), ('wpart', '2,$w'), ('wpart', '1,2w')]


def gen_fault(rng):
    """a short history over 1-3 files that ends in: modify, SAVE (:w, :w!, :wq, :x, :xa, a range write), :q, sometimes u, :w!, :q.
    One call of a save gets an error afterwards (choose_fault)."""
    files, pre = gen_history(rng, rng.choice([0, 0, 1, 2, 4]))
    pre = [c for c in pre[:-2] if c[0] not in ('q', 'bulk', 'ubulk')][:5]
    u = 900 + rng.below(90)
    kind, text = rng.choice(SAVES)
    cmds = pre + [('mod', '1s/^/F%d /' % u, None)]
    if len(files) >= 2 and rng.chance(1, 3):
        # a modified buffer that is NOT the current one when the save comes (xa writes it, q / wq / x must see it)
        cmds = [('mod', '1s/^/F%d /' % u, None), ('eforce', 'e! f2.txt', 'f2.txt')]
        if rng.chance(1, 2):
            cmds.append(('mod', '1s/^/H%d /' % u, None))
    if rng.chance(1, 4):
        cmds.append(('mod', '$s/$/ G%d/' % u, None))
    cmds.append((kind, text, None))
    save_step = len(cmds)
    cmds.append(('q', 'q', None))
    if rng.chance(1, 3):
        cmds.append(('u', 'u', None))
    if rng.chance(1, 4):
        cmds.append(('q', rng.choice(['x', 'wq']), None))
    cmds += [('w', 'w!', None), ('q', 'q', None), ('q', 'q', None)]
    return files, cmds, save_step


def choose_fault(rng, calls, save_step):
    """calls: {step: [(idx, op, err, name, n)]} of the dry run.  Mostly the close() of the SAVE step; also a write() error, a
    failing open(), a short write (which is retried: no failure), and saves of earlier steps."""
    steps = [k for k in sorted(calls) if k <= save_step and calls[k]]
    if not steps:
        return None
    k = save_step if (save_step in calls and calls[save_step] and not rng.chance(1, 6)) else rng.choice(steps)
    cs = calls[k]
    r = rng.below(20)
    want = 'close' if r < 13 else 'write' if r < 17 else 'open'
    cand = [c for c in cs if c[1] == want] or [c for c in cs if c[1] == 'close'] or cs
    c = rng.choice(cand)
    if c[1] == 'write' and rng.chance(1, 3):
        return [(c[0], 'short', max(1, c[4] // 2))]
    return [(c[0], 'err', rng.choice([28, 5, 122]))]          # ENOSPC, EIO, EDQUOT


def build_script(files, cmds, every=False, noname=False):
    """every: file snapshots and the line count of the shim log after EVERY command (fault histories)"""
    s = []
    names = hist_names(files, cmds, noname)

    def observe(k):
        s.append('ec @@B%d@@' % k)
        s.append('b')
        s.append('ec @@T%d@@' % k)
        s.append('%p')
        s.append('ec @@-@@')

    observe(0)
    for i, (kind, text, info) in enumerate(cmds):
        k = i + 1
        s.append('ec @@C%d@@' % k)
        s.append(text)
        s.append('ec @@A%d@@' % k)          # still alive after the command
        if every or writes_files((kind, text)):
            for j, n in enumerate(names):
                if noname:
                    # the snapshot must not depend on what ec_write does to a buffer WITHOUT a name (before fix 268c549 `w !cmd` made
                    # "!cmd" its name: the observation must stay the same on such a tree, so that the violation is reported as what it
                    # is).  rx = pipe a register through a command: no buffer, no guard involved
                    s.append('rx z cp %s snap_%d_%d 2>/dev/null' % (n, k, j))
                else:
                    s.append('%%w !cp %s snap_%d_%d 2>/dev/null' % (n, k, j))          # %: does not depend on the current line
        if every:
            s.append('%%w !cat shim.log 2>/dev/null | wc -l >nlog_%d' % k)
        observe(k)
    s.append('ec @@END@@')
    s.append('q!')
    return ('\n'.join(s) + '\n').encode()


LIST_RE = re.compile(rb'\s*(\d+) (.) (\S*) (.)')          # the path of the unnamed buffer is empty


def parse_run(out, ncmd):
    """returns a list of observations per step k=0..: dict(listing, text, cmdout, alive) until the output ends"""
    parts = re.split(rb'@@([A-Z]+\d*|-)@@', out)
    seg = {}
    for i in range(1, len(parts) - 1, 2):
        seg.setdefault(parts[i], parts[i + 1])
    obs = []
    for k in range(ncmd + 1):
        bk, tk = b'B%d' % k, b'T%d' % k
        if bk not in seg or tk not in seg:
            break
        listing = [(int(m.group(1)), m.group(2).decode(), m.group(3).decode(), m.group(4).decode()) for m in LIST_RE.finditer(seg[bk])]
        o = {'listing': listing, 'text': seg[tk], 'cmdout': seg.get(b'C%d' % k, b''), 'alive': (b'A%d' % k) in seg or k == 0}
        obs.append(o)
    exited_at = None
    if len(obs) <= ncmd:
        k = len(obs)
        if (b'C%d' % k) in seg and (b'A%d' % k) not in seg:
            exited_at = k
    return obs, exited_at, b'END' in seg


def as_text(b):
    return b''.join(lines_of(b))


def whole_range(loc, n):
    if loc == '':
        return True
    m = {'1,1': (0, 1), '2,$': (1, n), '1': (0, 1), '1,2': (0, 2)}.get(loc)
    return m is not None and m[0] == 0 and m[1] == n


def oracle_history(files, cmds, obs, exited_at, snaps, fault=None, final=None, nbufs=16, notes=None, names=None):
    """The property on the observations.  Returns None or (step, what, expected, observed).
    fault (histories under the shim): {'status': {step: {file: 'failed' | 'saved'}}} -- the outcome, read off the shim log, of the
    last save of that file in that step ('failed' = one of its open/write/close calls got an injected error).  The ghost disk of a
    file is its content when last read or last SUCCESSFULLY written: a failed save does not move it.
    final: file bytes after the run (for xa, which exits without a later observation).  nbufs = LEN(bufs).
    names: the snapshotted files in snapshot order (default: the given files).  A buffer with the empty path '' is the unnamed
    buffer of an editor started without a file name: it has no file, its ghost disk is the empty text it started with; the first
    write with a path gives it that path (ec_write adopts it), from then on its ghost disk is the bytes of that file."""
    names = sorted(files) if names is None else names
    content = {n: files[n] for n in names if n in files}          # ghost disk: file bytes when last read / last successfully written
    stale = {}                                      # file -> the real file may differ from the ghost disk (a save of it failed)
    text = {}                                       # path -> text when last current
    state = {}                                      # path -> depth relative to the saved position (int) or None (unknown/gone)
    if not obs:
        return (0, 'no observation at all', 'listing', b'')
    o0 = obs[0]
    curp = [p for (_, c, p, _) in o0['listing'] if c == '%']
    if not curp:
        return (0, 'no current buffer in the listing', '%', o0['listing'])
    text[curp[0]] = o0['text']
    state[curp[0]] = 0
    prev_cur = curp[0]

    def dirty(p):
        if content.get(p, b'') is None:             # ghost disk unknown (see 'mixed'): neither a refusal nor an allowance is demanded for p
            return False
        return text[p] != as_text(content.get(p, b''))

    for k in range(1, len(cmds) + 1):
        kind, ctext_full, info = cmds[k - 1]
        ctext = ctext_full if len(ctext_full) <= 60 else ctext_full[:40] + ' ... (%d lines)' % (ctext_full.count('\n') + 1)
        before_paths = set(text)
        dirty_before = {p: dirty(p) for p in text}
        saved_state_before = {p: (state.get(p) == 0 and not dirty_before[p] and content.get(p, b'') is not None) for p in text}
        gone = exited_at == k
        sv_here = fault['status'].get(k, {}) if fault else {}
        wq = parse_write(ctext_full) if kind == 'q' else None
        if kind == 'q' and prev_cur == '' and wq is not None:
            # the unnamed buffer: wq / x without a path cannot write ("write failed": no exit is demanded, none forbidden beyond the
            # rule below); with a path the buffer takes that name and is written there, whole (then it is saved) or in part
            saved_state_before = {p: False for p in saved_state_before}
            if wq[1] is not None:
                dirty_before[prev_cur] = False
        elif kind == 'q' and ctext in ('wq', 'x'):
            # the current buffer is first written whole to its own path (x: if it is reported modified): for the decision it is saved --
            # under the shim only if the log shows a save of it in this step without an injected error
            if (sv_here.get(prev_cur) == 'saved') if fault else True:
                dirty_before[prev_cur] = False
                saved_state_before[prev_cur] = True
        if kind == 'q' and ctext == 'xa':
            # every buffer is written to its own file, then the editor exits (the buffers are not marked saved)
            if gone:
                for p in sorted(text):
                    if sv_here.get(p) == 'failed' and dirty_before[p]:
                        return (k, ':xa exited although the save of %s failed and its text differs from what the file held when last successfully written' % p,
                                'no exit; text of %s = %r, last successfully written = %r' % (p, text[p], content.get(p)), 'editor exited')
                    if final is not None and p == '' and text[p] != b'':
                        return (k, ':xa exited although the buffer without a name holds text: it is in no file, the text is discarded',
                                'no exit (a buffer without a name cannot be written: "cannot create file"); its text = %r' % text[p], 'editor exited')
                    if final is not None and sv_here.get(p) != 'failed' and as_text(final.get(p) or b'') != text[p]:
                        return (k, ':xa exited but the file of buffer %s does not hold its text: the changes are discarded' % p,
                                'file = text %r' % text[p], 'editor exited; file = %r' % final.get(p))
                return None
            for p in dirty_before:
                if (sv_here.get(p) == 'saved') if fault else False:
                    dirty_before[p] = False
            saved_state_before = {p: False for p in saved_state_before}         # no demand that xa goes through
        if kind == 'q':
            if any(dirty_before.values()):
                if gone:
                    p = sorted(p for p in dirty_before if dirty_before[p])[0]
                    return (k, ':%s exited although buffer %s differs from its file%s: the changes are discarded' % (ctext.split()[0] if ctext.split()[0] in ('wq', 'x', 'xa') else 'q', p,
                                ' (the content it had when last read or last successfully written)' if fault else ''),
                            'refusal; text of %s = %r, file = %r' % (p, text[p], content.get(p)), 'editor exited')
            elif all(saved_state_before.values()):
                # (under the shim: a wq / x whose own write part reports failure -- e.g. "file changed" after an earlier failed save has
                # stamped the file -- stays because of that failure; more refusal, never less: no exit is demanded then)
                # (with or without the shim: a failed write part is a refusal, never an exit)
                wfail = ctext in ('wq', 'x') and k < len(obs) and b'write failed' in obs[k]['cmdout']
                if not gone and not wfail:
                    return (k, ':q refused although every buffer is in its saved state', 'editor exits', 'still alive: ' + repr(obs[k]['cmdout'] if k < len(obs) else b''))
            if gone:
                return None
        elif gone:
            return (k, 'the editor exited at a command that is not a quit', 'alive', ctext)
        if k >= len(obs):
            return None             # output ended (e.g. a script problem); nothing more to judge
        o = obs[k]
        lst = o['listing']
        curl = [p for (_, c, p, _) in lst if c == '%']
        if not curl:
            return (k, 'no current buffer in the listing', '%', lst)
        cur = curl[0]
        listed = {p for (_, _, p, _) in lst}
        prevl0 = obs[k - 1]['listing']
        # a write of the buffer to a PIPE (w !cmd, b,ew !cmd) is not a write to a file: no buffer changes its name, its flag or its place
        # (fix 268c549: it used to give the unnamed buffer the name "!cmd" and mark it saved)
        if kind == 'wpipe' and PIPE_WRITE_RE.match(ctext_full):
            was = [(p, f) for (_, _, p, f) in prevl0]
            now_ = [(p, f) for (_, _, p, f) in lst]
            if was != now_:
                return (k, 'a write to a pipe (%r) changed the buffer list: the %s buffer is now listed as %r' % (ctext, 'unnamed' if prev_cur == '' else 'current', now_[0] if now_ else None),
                        'names and modified flags as before: %r' % (was,), repr(now_))
        # the unnamed buffer takes the path of the first write that names one
        wr = parse_write(ctext_full) if kind in ('w', 'wpart', 'wother', 'wname', 'q') else None
        # (after wq <path> / x <path> that was refused because of ANOTHER buffer, that other buffer is the current one now)
        if prev_cur == '' and '' in text and '' not in listed and wr is not None and wr[1] in listed and wr[1] not in text:
            nm = wr[1]
            for dct in (text, state, dirty_before, saved_state_before):
                if '' in dct:
                    dct[nm] = dct.pop('')
            content.pop('', None)
            before_paths.discard('')
            before_paths.add(nm)
            prev_cur = nm
        # a full table: :e of a file that is not open recycles the last slot (the least recently used buffer).  More than LEN(bufs)
        # buffers are outside the property's quantifier; a modified buffer lost that way is DESIGN section 9 row 17 (C20): not judged
        prevl = obs[k - 1]['listing']
        if kind in ('e', 'eforce') and len(prevl) >= nbufs and cur == info and info not in {p for (_, _, p, _) in prevl}:
            ev = prevl[-1][2]
            if ev in text and ev not in listed:
                if dirty_before.get(ev):
                    if notes is not None:
                        notes['evicted_modified'] = k
                    return None
                text.pop(ev)
                state.pop(ev, None)
                before_paths.discard(ev)
        # nothing is discarded: every buffer is still there, and a buffer that becomes current again has its text
        for p in before_paths:
            if p not in listed:
                return (k, 'buffer %s disappeared from the buffer list after %r' % (p, ctext), 'still open', lst)
        # file contents (snapshots exist after writing commands)
        if fault is None:
            if kind in ('w', 'wpart', 'wother', 'wjoin', 'wname') or (kind == 'q' and ctext != 'q'):
                for j, n in enumerate(names):
                    sn = snaps.get('snap_%d_%d' % (k, j))
                    if sn is not None:
                        content[n] = sn
            # a REFUSED :xa has written the buffers in front of the refusing slot and (since fix 37c81b2) recorded it: a buffer whose text
            # differed from its file before and whose file holds its text now is at its saved position (its flag must be off from here on)
            if kind == 'q' and ctext == 'xa':
                for p in sorted(text):
                    if p and dirty_before.get(p) and content.get(p) is not None and as_text(content[p]) == text[p]:
                        state[p] = 0
        else:
            for j, n in enumerate(names):
                sn = snaps.get('snap_%d_%d' % (k, j))
                if sn is None:
                    continue
                if sv_here.get(n) == 'failed':
                    stale[n] = True                 # not a successful write: the ghost disk stays
                elif sv_here.get(n) == 'mixed':
                    stale[n] = True
                    content[n] = None
                elif stale.get(n):
                    if sv_here.get(n) == 'saved' or (kind in ('reload', 'eself') and prev_cur == n and b'[r]' in o['cmdout']):      # the buffer was (re-)read from its file: the ghost disk is what was read
                        content[n] = sn
                        stale[n] = False
                else:
                    content[n] = sn
        refused = b'buffer modified' in o['cmdout']
        # :e! on the unnamed buffer reads nothing and marks it saved as it is: the property speaks of "its
        # file"; from here on the ghost disk of that buffer is unknown (not judged) until a write gives it a file
        if prev_cur == '' and cur == '' and kind == 'reload':
            content[''] = None
        # refusal of :e (other file, no file name, own name) / :b n without ! when the current buffer differs from its file
        skip = False
        if kind == 'b':
            ids_before = {i for (i, _, _, _) in obs[k - 1]['listing']}
            skip = int(ctext.split()[1]) not in ids_before          # "no such buffer": refused for another reason
        if kind == 'e' and ctext == 'e #' and len(obs[k - 1]['listing']) < 2:
            skip = True                                             # no alternate buffer: "pathname ... is not set", whatever the order of the two tests
        if kind in ('e', 'b', 'eself') and not skip:
            if dirty_before[prev_cur]:
                if cur != prev_cur or not refused:
                    return (k, '%r went through although the current buffer %s differs from its file' % (ctext, prev_cur or '(no name)'),
                            'refused with "buffer modified", %s stays current with its text %r' % (prev_cur or '(no name)', text[prev_cur]),
                            'current %s, message %r, text %r' % (cur or '(no name)', o['cmdout'][:80], o['text'][:200]))
                if o['text'] != text[prev_cur]:
                    return (k, '%r was refused but the text of the modified buffer %s changed: unsaved changes are discarded' % (ctext, prev_cur or '(no name)'),
                            text[prev_cur], o['text'])
            elif saved_state_before[prev_cur]:
                if refused:
                    return (k, '%r was refused although the current buffer %s is in its saved state' % (ctext, prev_cur), 'allowed', 'buffer modified')
        # (under the shim: a wq / x whose own write part failed stays where it is because of that failure, not because of the scan)
        # (the same when the write part was refused by the mtime guards -- "write failed: file changed" after an earlier FAILED save has stamped the
        # file and the clock second has moved on: no open() call appears in the shim log, ec_quit returns 1 before its scan)
        wq_failed = ctext.split()[0] in ('wq', 'x') and b'write failed' in o['cmdout']
        if kind == 'q' and ctext != 'xa' and any(dirty_before.values()) and not any(v != 'saved' for v in sv_here.values()) and not wq_failed:
            starred = {p for (_, _, p, f) in obs[k - 1]['listing'] if f == '*'}
            if not dirty_before.get(cur, False) and cur not in starred:      # a buffer reported modified while equal to its file (e.g. :e! then u) may be the one
                return (k, ':q was refused but did not switch to a buffer that differs from its file or is reported modified', 'a modified buffer current', cur)
        # text of the current buffer
        if cur in text and cur != prev_cur and kind != 'reload':
            if o['text'] != text[cur]:
                return (k, 'buffer %s came back with a different text than it had when it was left' % cur, text[cur], o['text'])
        changed = (cur == prev_cur and o['text'] != text.get(cur))
        if cur not in text:
            state[cur] = 0                  # freshly opened
        text[cur] = o['text']
        # saved-position tracker of the buffer the command worked on: number of undo steps above the saved
        # position (negative = below), None = unknown or the saved position is gone
        if cur == prev_cur:
            p = cur
            st = state.get(p)
            wrote = re.search(rb'"' + re.escape(p.encode()) + rb'"  \[=\d+\]  \[w\]', o['cmdout']) is not None
            if kind == 'mod':
                state[p] = st + 1 if (changed and st is not None and st >= 0) else None
            elif kind == 'u':       # an undo that leaves the text as it was may have failed or undone an identity step (e.g. the read of :e!)
                state[p] = st - 1 if (changed and st is not None) else None
            elif kind == 'r':
                state[p] = st + 1 if (changed and st is not None) else None
            elif kind == 'w':
                if wrote:
                    state[p] = 0
            elif kind == 'wpart':
                if wrote:
                    state[p] = 0 if whole_range(ctext_full[:-1], text[p].count(b'\n')) else None
            elif kind == 'wjoin':
                state[p] = 0 if (ctext_full.endswith('|w') and wrote) else None
            elif kind == 'reload':
                state[p] = 0 if re.search(rb'\[r\]', o['cmdout']) else None
            elif kind == 'eself':
                # `e` / `e +cmd` that went through re-read the file ([r]); refused, or `e %` (no read): the position stays
                if re.search(rb'\[r\]', o['cmdout']):
                    state[p] = 0
            elif kind in ('wname', 'wother'):
                # a write with a path: it concerns the saved position only if that path is the buffer's own (the naming write of the
                # unnamed buffer, or its own name spelled out)
                if wr is not None and wr[1] == p and wrote:
                    state[p] = 0 if whole_range(wr[0], text[p].count(b'\n')) else None
            elif kind in ('bulk', 'ubulk'):
                state[p] = None
        if kind == 'q' and ctext in ('wq', 'x') and prev_cur in text:
            if re.search(rb'"' + re.escape(prev_cur.encode()) + rb'"  \[=\d+\]  \[w\]', o['cmdout']):
                state[prev_cur] = 0
        # an unchanged text after u/redo may be a failed or an empty step: the position is then uncertain only if it was not at an end
        # the dirty indicator never reports clean while text and file differ
        for (_, c, p, f) in lst:
            if p in text and f == ' ' and dirty(p):
                return (k, 'the buffer list shows %s as unmodified while its text differs from its file (after %r)' % (p, ctext),
                        "'*' (text %r, file %r)" % (text[p], content.get(p)), "' '")
            if p in text and f == '*' and state.get(p) == 0 and not dirty(p) and content.get(p, b'') is not None and kind in ('w', 'reload', 'u', 'r', 'wjoin', 'wpart', 'wname', 'eself'):
                return (k, 'the buffer list shows %s as modified in its saved state (after %r)' % (p, ctext), "' '", "'*'")
        prev_cur = cur
    return None


def parse_shim(files_back, ncmd):
    """the shim log by step.  Returns (calls, status): calls[k] = [(idx, op, err, name)] of step k in program order;
    status[k][name] = 'failed' | 'saved' for the LAST open..close group of that file in step k."""
    log = (files_back.get('shim.log') or b'').decode('latin-1').split('\n')
    marks = []
    last = 0
    for k in range(1, ncmd + 1):
        v = files_back.get('nlog_%d' % k)
        try:
            last = int(v.split()[0]) if v and v.split() else None
        except ValueError:
            last = None
        marks.append(last)
    total = len([l for l in log if l.strip()])
    # a missing mark (the editor went away at that step) takes everything that is left
    for i in range(len(marks)):
        if marks[i] is None:
            marks[i] = total
    calls, status = {}, {}
    lines = [l for l in log if l.strip()]
    for ln_no, l in enumerate(lines):
        w = l.split()
        if len(w) < 4 or w[0] == '-':
            continue
        k = next((i + 1 for i, m in enumerate(marks) if ln_no < m), ncmd)
        op = w[1]
        err = (w[2] == 'err') if op != 'write' else (w[3] == 'err')
        calls.setdefault(k, []).append((int(w[0]), op, err, w[-1], int(w[2]) if op == 'write' else 0))
    for k, cs in calls.items():
        groups = {}
        for (idx, op, err, name, n) in cs:
            if op == 'open':
                groups.setdefault(name, []).append(not err)
            elif err and groups.get(name):
                groups[name][-1] = False
        # 'mixed' = a save of the file succeeded and a LATER one of the same step failed (xa writes a modified current buffer twice): the
        # file was successfully written in between, with a content nobody has seen
        status[k] = {name: ('saved' if g[-1] else 'failed' if not any(g) else 'mixed') for name, g in groups.items()}
    return calls, status


def run_history(exe, model_q, files, cmds, timeout=30, nbufs=16, shim=None, sched=(), noname=False):
    """shim: path of the LD_PRELOAD fault injector (fault histories: snapshots and the shim log after every command);
    sched: [(call index, 'err' | 'short', errno | count)]; noname: the editor is started without a file name"""
    script = build_script(files, cmds, every=shim is not None, noname=noname)
    names = hist_names(files, cmds, noname)
    argv = [] if noname else names[:1]
    env = None
    if shim is None:
        snapn = ['snap_%d_%d' % (k + 1, j) for k, c in enumerate(cmds) if writes_files(c) for j in range(len(names))]
        extra = []
    else:
        snapn = ['snap_%d_%d' % (k + 1, j) for k in range(len(cmds)) for j in range(len(names))]
        extra = ['nlog_%d' % (k + 1) for k in range(len(cmds))] + ['shim.log']
        env = {'LD_PRELOAD': shim, 'NVSHIM_TARGETS': ':'.join(names), 'NVSHIM_LOG': 'shim.log',
               'NVSHIM_SCHED': ','.join('%d:%s:%d' % tuple(x) for x in sched)}
    r = vlib.run_ex(exe, script, files=files, args=argv, readback=snapn + names + extra, timeout=timeout, env=env)
    if r.timed_out or r.crashed():
        r = vlib.run_ex(exe, script, files=files, args=argv, readback=snapn + names + extra, timeout=3 * timeout, env=env)
        if r.timed_out or r.crashed():
            return {'status': 'crash', 'what': 'editor crashed or hung (rc=%s timed_out=%s): %s' % (r.rc, r.timed_out, r.err[-400:])}
    obs, exited_at, ended = parse_run(r.out, len(cmds))
    fault, calls = None, {}
    if shim is not None:
        calls, status = parse_shim(r.files, len(cmds))
        fault = {'status': status}
    notes = {}
    bad = oracle_history(files, cmds, obs, exited_at, r.files, fault=fault, final={n: r.files.get(n) for n in names}, nbufs=nbufs, notes=notes, names=names)
    # questions for the model of the refusal logic
    qs = []
    for k in range(1, min(len(obs), len(cmds)) + (1 if exited_at else 0)):
        kind = cmds[k - 1][0]
        if kind not in ('q', 'e', 'b', 'eself') or k - 1 >= len(obs):
            continue
        if notes.get('evicted_modified') and k >= notes['evicted_modified']:
            break
        flags = [('1' if f == '*' else '0') for (_, _, _, f) in obs[k - 1]['listing']]
        paths = [p for (_, _, p, _) in obs[k - 1]['listing']]
        if kind == 'q' and cmds[k - 1][1] in ('wq', 'x', 'xa'):
            continue
        if kind == 'q' and paths and paths[0] == '' and (parse_write(cmds[k - 1][1]) or ('', None))[1] is not None:
            continue            # wq <path> / x <path> on the buffer without a name: it takes the name and is saved there first
        if kind == 'q':
            if exited_at == k:
                qs.append(('Q ' + ' '.join(flags), 'quit', k))
            elif k < len(obs):
                cur = [p for (_, c, p, _) in obs[k]['listing'] if c == '%']
                if cur and cur[0] in paths and (b'buffer modified' in obs[k]['cmdout']):
                    qs.append(('Q ' + ' '.join(flags), 'stay %d' % paths.index(cur[0]), k))
        elif kind == 'eself':
            # :e without a file name / :e %: the model of that very path through ec_edit (GE = ec_edit_noarg, GO = ec_edit_own) says
            # refused, or pass and the flag the current buffer has afterwards
            if k < len(obs) and flags and obs[k]['listing']:
                ans = 'refused' if b'buffer modified' in obs[k]['cmdout'] else 'pass %s' % ('1' if obs[k]['listing'][0][3] == '*' else '0')
                qs.append((('GO ' if '%' in cmds[k - 1][1] else 'GE ') + ' '.join(flags), ans, k))
        elif kind == 'e' and cmds[k - 1][1] == 'e #' and len(obs[k - 1]['listing']) < 2:
            pass
        elif k < len(obs) and not (kind == 'b' and int(cmds[k - 1][1].split()[1]) not in {i for (i, _, _, _) in obs[k - 1]['listing']}):
            qs.append(('G ' + ' '.join(flags), 'refused' if b'buffer modified' in obs[k]['cmdout'] else 'pass', k))
    # every quit form without a path argument over the table of named / unnamed buffers: the model DirtyAllDefs.ec_quit_n (every
    # save of a path succeeds, the empty path cannot be created) says exit or which buffer is the current one afterwards
    aqs = []
    if shim is None:
        for k in range(1, min(len(obs), len(cmds)) + (1 if exited_at else 0)):
            kind, ctext = cmds[k - 1][0], cmds[k - 1][1]
            if kind != 'q' or ctext not in ('q', 'wq', 'x', 'xa') or k - 1 >= len(obs):
                continue
            if notes.get('evicted_modified') and k >= notes['evicted_modified']:
                break
            before = obs[k - 1]['listing']
            paths = [p for (_, _, p, _) in before]
            if not before or before[0][1] != '%' or paths.count('') > 1 or len(set(paths)) != len(paths):
                continue
            slots = ['%s%s' % ('u' if p == '' else 'n', '1' if f == '*' else '0') for (_, _, p, f) in before]
            if exited_at == k:
                aqs.append(('A %s %s' % (ctext, ' '.join(slots)), 'quit', k))
            elif k < len(obs):
                co = obs[k]['cmdout']
                if b'write failed: file' in co or (b'write failed' in co and b'cannot create' not in co and paths[0] != ''):
                    continue            # a save refused by the mtime guards / failed in the environment: not the model's "every save succeeds"
                cur = [p for (_, c, p, _) in obs[k]['listing'] if c == '%']
                if cur and cur[0] in paths:
                    aqs.append(('A %s %s' % (ctext, ' '.join(slots)), 'stay %d' % paths.index(cur[0]), k))
    # the first step with an injected error: the same command with the same schedule for the model with failing writes
    fq = None
    if shim is not None and sched:
        fq = fault_question(files, cmds, obs, exited_at, calls, fault['status'])
    return {'status': 'bad' if bad else 'ok', 'bad': bad, 'nobs': len(obs), 'exited_at': exited_at, 'qs': qs, 'aqs': aqs, 'fq': fq, 'calls': calls,
            'maxbufs': max([len(o['listing']) for o in obs] or [0]), 'notes': notes,
            'refusals': sum(1 for o in obs if b'buffer modified' in o['cmdout']), 'out': r.out[-400:] if bad else b''}


WPART_RNG = {'1,1w': (0, 1), '1w': (0, 1), '1,2w': (0, 2)}


def fault_question(files, cmds, obs, exited_at, calls, status):
    """(request line for model_dirtyio, observed answer, step) for the first step in which a call got an injected error or a
    short count -- None if the command is not one the model has (|-joined lines, writes elsewhere) or the state is not known."""
    ks = sorted(k for k, cs in calls.items() if any(err for (_, _, err, _, _) in cs))
    shorts = sorted(k for k, cs in calls.items() if cs)
    if not ks:
        return None
    k = ks[0]
    if k - 1 >= len(obs) or k > len(cmds):
        return None
    kind, ctext, info = cmds[k - 1]
    before = obs[k - 1]['listing']
    paths = [p for (_, _, p, _) in before]
    if not before or before[0][1] != '%':
        return None
    n0 = obs[k - 1]['text'].count(b'\n')
    if kind == 'w' and ctext in ('w', 'w!'):
        cmd = ctext
    elif kind == 'wpart' and ctext in WPART_RNG:
        cmd = 'R%d,%d' % WPART_RNG[ctext]
    elif kind == 'wpart' and ctext == '2,$w' and n0 >= 2:
        cmd = 'R1,%d' % n0
    elif kind == 'q' and ctext in ('wq', 'x', 'xa'):
        cmd = ctext
    else:
        return None
    # texts: the current buffer's is observed; for the others only the number of write calls matters (one per save here)
    bufs = []
    for i, (_, c, pth, f) in enumerate(before):
        t = as_text(obs[k - 1]['text']) if i == 0 else as_text(files.get(pth, b'x\n'))
        bufs.append('%s:%s' % ('1' if f == '*' else '0', hx(t)))
    first = calls[k][0][0]
    sch = []
    for (idx, op, err, name, n) in calls[k]:
        sch.append('e' if err else 'o')
        if err:
            break
    req = 'F %s %s %s' % (cmd, ','.join(sch), ' '.join(bufs))
    if exited_at == k:
        ans = 'quit'
    elif k < len(obs):
        after = obs[k]['listing']
        cur = [p for (_, c, p, _) in after if c == '%']
        fl = {p: ('1' if f == '*' else '0') for (_, _, p, f) in after}
        if not cur or cur[0] not in paths or any(p not in fl for p in paths):
            return None
        ans = 'stay %d %s' % (paths.index(cur[0]), ''.join(fl[p] for p in paths))
    else:
        return None
    return (req, ans, k)


# ---------------------------------------------------------------------------------------------


def run(ctx):
    res, rng = ctx.res, ctx.rng
    probe = vlib.build_probe('undo', includes=['lbuf'])
    model = ctx.model('undo')
    vi = vlib.build_vi()
    L = 4 if ctx.quick else 6
    res.rule = ('lbuf = one operation list (edits, command boundary, undo, redo, whole write, partial own-path write, reload) through the real lbuf_* API and the '
                'extracted model; flag, result and text compared after every operation; ghost-disk oracle; every list up to length %d over a %d-operation alphabet, '
                'random lists up to length 50.  history = one vi -s -e run over 1-4 files with the buffer list, the text, the messages and file snapshots observed '
                'after every command; also histories over LEN(bufs)-1, LEN(bufs), LEN(bufs)+1 files with the modified buffer in every slot of the table, and fault '
                'histories = the same under harness/faultshim.c with an error injected into one open/write/close call of a save (ghost disk = content when '
                'last read or last SUCCESSFULLY written), each preceded by a dry run that lists the calls; every history contains :e with an empty or self-referring argument '
                '(e, e +1, e %%, e #, e! %%); histories of an editor started WITHOUT a file name (the unnamed buffer gets its name from its first write with a path; partial '
                'own-path write; undo down to the first state; q / e / b); histories in which the unnamed start-up buffer is LEFT BEHIND in the table (empty / holding text / text undone) among 1-3 named files, '
                'followed by every quit form incl. xa, and after a refusal undo in the buffers the quit has written, rescue of the unnamed buffer by `w name`, quit again; every q / wq / x / xa is also put to the '
                'extracted ec_quit_n (named / unnamed slots, reported modified or not); lbuf lists also from the unnamed start (lbuf_make; lbuf_saved(lb, 0)).  non-trivial = a history in which some :q/:e/:b was '
                'refused or a save failed; distinct = distinct history') % (L, len(ALPHA))

    def lbuf_fails(init):
        def f(sub):
            rc, out, err = run_exe(probe, [init_word(init) + ' ' + ' '.join(expand(sub))])
            return rc == 0 and len(out) == 1 and oracle_flags(init, sub, out[0].split(' ') if out[0] else []) is not None
        return f

    def report_lbuf(init, ops, bad):
        small = vlib.shrink(ops, lbuf_fails(init))
        rc, out, err = run_exe(probe, [init_word(init) + ' ' + ' '.join(expand(small))])
        b2 = oracle_flags(init, small, out[0].split(' ') if out and out[0] else []) or bad
        res.violation({'what': 'lbuf interface, operation %d (%s): %s' % (b2[0] + 1, small[b2[0]] if b2[0] < len(small) else '?', b2[1]),
                       'input': {'kind': 'lbuf', 'init': init_word(init), 'ops': small, 'legend': 'init: hex of the file read into the buffer (lbuf_saved(lb, 1)), @ = the buffer of an editor started without a file name (lbuf_make; lbuf_saved(lb, 0)); E<b>,<e>,<hex> lbuf_edit; M lbuf_modified; U undo; R redo; S whole write (lbuf_saved 0); P / P<b>,<e> partial own-path write (lbuf_unsaved; lines 1.. resp. b..e-1 are in the file); L reload'},
                       'expected': repr(b2[2]), 'observed': repr(b2[3]), 'answers': out[0] if out else ''})

    nb_box = [16]

    def hist_fails(files, noname=False):
        def f(sub):
            r = run_history(vi, None, files, sub, nbufs=nb_box[0], noname=noname)
            return r['status'] == 'bad'
        return f

    def report_fault(files, cmds, sched, r):
        bad = r['bad']
        res.violation({'what': 'history with a failing save, command %d (%r): %s' % (bad[0], cmds[bad[0] - 1][1][:60] if 0 < bad[0] <= len(cmds) else '', bad[1]),
                       'input': {'kind': 'fault-history', 'files': {k: v.decode('latin-1') for k, v in files.items()}, 'cmds': [list(c) for c in cmds],
                                 'sched': [list(x) for x in sched],
                                 'legend': 'sched = [call index, err|short, errno|count]: the open/write/close calls on the files are numbered in program order (harness/faultshim.c)'},
                       'expected': repr(bad[2]), 'observed': repr(bad[3]),
                       'calls_of_the_faulted_steps': {str(k): [list(c) for c in cs] for k, cs in r.get('calls', {}).items() if any(c[2] for c in cs)},
                       'output_tail': r['out'].decode('latin-1')})

    def hist_input(files, cmds, noname=False):
        inp = {'kind': 'history', 'files': {k: v.decode('latin-1') for k, v in files.items()}, 'cmds': [list(c) for c in cmds]}
        if noname:
            inp['noname'] = True
            inp['legend'] = 'noname: the editor is started WITHOUT a file name (vi -s -e, no argument); the files exist in its directory'
        return inp

    def report_hist(files, cmds, r, noname=False):
        small = vlib.shrink(cmds, hist_fails(files, noname), max_steps=100)
        r2 = run_history(vi, None, files, small, nbufs=nb_box[0], noname=noname)
        if r2['status'] != 'bad':
            small, r2 = cmds, r
        bad = r2['bad']
        res.violation({'what': '%s, command %d (%r): %s' % ('history of an editor started without a file name' if noname else 'history', bad[0],
                                                            small[bad[0] - 1][1][:60] if 0 < bad[0] <= len(small) else '', bad[1]),
                       'input': hist_input(files, small, noname),
                       'expected': repr(bad[2]), 'observed': repr(bad[3]), 'output_tail': r2['out'].decode('latin-1')})

    def run_input(inp):
        if inp.get('kind') == 'lbuf':
            init, ops = init_of(inp['init']), list(inp['ops'])
            rc, out, err = run_exe(probe, [init_word(init) + ' ' + ' '.join(expand(ops))])
            res.evaluations += 1
            bad = oracle_flags(init, ops, out[0].split(' ') if rc == 0 and out and out[0] else [])
            if bad:
                report_lbuf(init, ops, bad)
        elif inp.get('kind') == 'history':
            files = {k: v.encode('latin-1') for k, v in inp['files'].items()}
            cmds = [tuple(c) for c in inp['cmds']]
            nn = bool(inp.get('noname'))
            r = run_history(vi, None, files, cmds, nbufs=nb_box[0], noname=nn)
            res.evaluations += 1
            if r['status'] == 'bad':
                report_hist(files, cmds, r, nn)
            elif r['status'] == 'crash':
                res.violation({'what': r['what'], 'input': inp})
        elif inp.get('kind') == 'fault-history':
            files = {k: v.encode('latin-1') for k, v in inp['files'].items()}
            cmds = [tuple(c) for c in inp['cmds']]
            sched = [tuple(x) for x in inp.get('sched', [])]
            r = run_history(vi, None, files, cmds, nbufs=nb_box[0], shim=c03.build_shim(), sched=sched)
            res.evaluations += 1
            if r['status'] == 'bad':
                report_fault(files, cmds, sched, r)
            elif r['status'] == 'crash':
                res.violation({'what': r['what'], 'input': inp})

    # LEN(bufs): the model's table has NSLOTS = NBUFS slots, NBUFS generated from ex.c by tools/translate.py
    NB = 16
    if model:
        rc, out, err = run_exe(model, ['N'])
        if rc == 0 and out and out[0].isdigit():
            NB = int(out[0])
        else:
            res.disagree({'what': 'model driver does not answer the table size (N): rc=%d %r' % (rc, out[:1])})
    nb_box[0] = NB
    res.extra['LEN(bufs) in the model (generated from ex.c)'] = NB
    if ctx.replay:
        run_input(json.load(open(ctx.replay)).get('input', {}))
        return
    for fn in sorted(glob.glob(os.path.join(vlib.VERIF, 'corpus', 'C02-*.json'))):
        run_input(json.load(open(fn)).get('input', {}))
        res.count('corpus cases')

    # ---- line-buffer level
    cases = []
    for init in INITS + [NONAME]:
        depth = L if (ctx.quick or init == INITS[1] or init is NONAME) else L - 1
        for n in range(1, depth + 1):
            for ops in itertools.product(ALPHA, repeat=n):
                cases.append((init, list(ops)))
    res.count('lbuf exhaustive lists', len(cases))
    r2 = rng.fork('lbuf-random')
    rcases = [(r2.choice(INITS + [b'', b'l1\nl2\nl3\nl4\n', NONAME, NONAME]), rand_ops(r2, r2.choice([6, 10, 16, 30, 50]))) for _ in range(3000 if ctx.quick else 100000)]
    res.count('lbuf random lists', len(rcases))
    lcases = []
    for n in ([130, 1000, 4200] if ctx.quick else [127, 128, 129, 257, 600, 1000, 2100, 4200, 5000, 8300]):
        for mid in (False, True):
            ops = []
            for i in range(n):
                ops += [E(i % 2, i % 2 + 1, b'%d\n' % i), 'M']        # replaces one line: the text stays two lines long
                if mid and i == n // 2:
                    ops += ['S']
            ops += ['U'] * (n + 5) + ['M', 'R', 'R', 'M'] + ['U'] * 3 + ['M']
            lcases.append((b'a\nb\n', ops))
    res.count('lbuf long lists (up to %d edits, undone past the start)' % max(len(o) for _, o in lcases), len(lcases))
    acases = aimed_lbuf()
    res.count('lbuf aimed lists (edits, whole write, partial write, undo past the start, redo; unnamed start and file start)', len(acases))
    res.count('lbuf lists from the unnamed start (lbuf_make; lbuf_saved(lb, 0): useq_last = 0)', sum(1 for i, _ in cases + rcases + acases if i is NONAME))
    allc = cases + rcases + lcases + acases
    nchunk = max(16, len(allc) // 40000)
    size = (len(allc) + nchunk - 1) // nchunk
    jobs = [(probe, model, allc[i:i + size]) for i in range(0, len(allc), size)]
    with ProcessPoolExecutor(max_workers=16) as ex:
        outs = list(ex.map(chunk_worker, jobs))
    for o in outs:
        res.evaluations += o['n']
        for d in o['dis']:
            res.disagree(d)
        for v in o['viol'][:2]:
            if len(res.violations) < 3:
                report_lbuf(init_of(v['init']), v['ops'], v['bad'])
    for init, ops in rcases[:2] + cases[3000:3002]:
        res.sample({'kind': 'lbuf', 'init': init_word(init), 'ops': ' '.join(ops)})

    # ---- histories on the real binary
    nh = 250 if ctx.quick else 6000
    r3 = rng.fork('history')
    hs = [gen_history(r3, r3.choice([4, 7, 10, 14])) for _ in range(nh)]
    r4 = rng.fork('long')
    longs = [(1000, 0), (2100, 1), (4200, 0), (4200, 2), (4200, 4)] if ctx.quick else \
            [(n, v) for n in (130, 260, 600, 1000, 2100, 4200, 5000, 8300) for v in range(5)]
    hs += [gen_long(r4, n, v) for n, v in longs]
    res.count('long histories (one block of 130..8300 commands, undone past the start)', len(longs))
    # round e: LEN(bufs)-1, LEN(bufs), LEN(bufs)+1 files; the modified buffer in every slot of the table, every quit form / :e / :b
    r5 = rng.fork('many')
    finals = ['q', 'x', 'wq', 'xa', 'q', 'e', 'b', 'q']
    many = []
    for nb in (NB - 1, NB, NB + 1):
        if nb < 2:
            continue
        for sl in range(min(nb, NB)):
            many.append(gen_many(r5, nb, NB, slots=[sl], final=finals[(sl + nb) % len(finals)]))
        many.append(gen_many(r5, nb, NB, slots=[min(nb, NB) - 1], final='q'))
        many.append(gen_many(r5, nb, NB, slots=[min(nb, NB) - 1, 0], final='x'))
    for _ in range(40 if ctx.quick else 1500):
        many.append(gen_many(r5, r5.choice([NB - 1, NB, NB, NB, NB + 1, NB + 1, 3, 6]), NB))
    res.count('histories over LEN(bufs)-1 .. LEN(bufs)+1 files (modified buffer in every slot)', len(many))
    nmany0 = len(hs)
    hs += many
    # round h: sessions of an editor started without a file name
    r7 = rng.fork('noname')
    nns = [gen_noname(r7, aimed=(i % 4 != 3)) for i in range(120 if ctx.quick else 3000)]
    res.count('histories of an editor started without a file name (unnamed buffer named by its first write; partial own-path write; undo to the first state)', len(nns))
    n_named = len(hs)
    hs += nns
    # round j: the unnamed start-up buffer left behind in the table (empty / holding text / text undone), 1-3 named files, every quit
    # form incl. xa; after a refusal the written buffers are undone and the unnamed buffer is rescued
    r8 = rng.fork('allquit')
    aq = [gen_allquit(r8, ustate=u, final=f) for u in ('empty', 'text', 'undone', 'text2') for f in ('xa', 'xa', 'q', 'x', 'wq', 'wq %s')]
    aq += [gen_allquit(r8) for _ in range(100 if ctx.quick else 3000)]
    res.count('histories with the unnamed start-up buffer left behind in the table (empty / holding text / undone) and every quit form incl. xa', len(aq))
    hs += aq
    houts = vlib.pmap(lambda ih: run_history(vi, None, ih[1][0], ih[1][1], timeout=60, nbufs=NB, noname=ih[0] >= n_named), list(enumerate(hs)))
    questions = []
    aquestions = []
    nref = 0
    for hi, ((files, cmds), r) in enumerate(zip(hs, houts)):
        nn = hi >= n_named
        res.evaluations += 1
        res.count('histories with %d file(s)' % len(files) + (' besides the unnamed buffer' if nn else ''))
        for c in cmds:
            res.count('cmd ' + c[0])
        if r['status'] == 'crash':
            res.violation({'what': r['what'], 'input': hist_input(files, cmds, nn)})
            continue
        if r['refusals']:
            nref += 1
            res.nontriv(repr((sorted(files.items()), cmds)))
        if r.get('notes', {}).get('evicted_modified'):
            res.count('histories not judged past the point where a full table recycled a modified buffer (outside the quantifier, C20 row 17)')
        if len(files) >= NB and r.get('maxbufs', 0) != NB and r['status'] == 'ok' and not nn:
            res.disagree({'what': 'the model\'s table has %d slots (NBUFS generated from ex.c) but with %d files opened the buffer list shows at most %d buffers' % (NB, len(files), r.get('maxbufs', 0)),
                          'input': {'kind': 'history', 'files': {k: v.decode('latin-1') for k, v in files.items()}, 'cmds': [list(c) for c in cmds]}})
        if r['status'] == 'bad' and sum(1 for v in res.violations if v.get('input', {}).get('kind') == 'history' and bool(v['input'].get('noname')) == nn) < 3:
            report_hist(files, cmds, r, nn)
        questions += [(q, a, files, cmds, k, nn) for (q, a, k) in r['qs']]
        aquestions += [(q, a, files, cmds, k, nn) for (q, a, k) in r.get('aqs', [])]
    res.extra['histories_with_a_refusal'] = nref
    if hs:
        res.sample({'kind': 'history', 'files': sorted(hs[0][0]), 'cmds': [c[1] for c in hs[0][1]]})
    # ---- the model of the refusal logic answers the same questions
    if model and questions:
        rc, out, err = run_exe(model, [q[0] for q in questions])
        if rc != 0 or len(out) != len(questions):
            res.disagree({'what': 'model driver (refusal logic): rc=%d, %d answers for %d questions' % (rc, len(out), len(questions))})
        else:
            res.count('refusal-logic questions answered by the model', len(questions))
            res.count('of these: :e without a file name / :e % (ec_edit_noarg / ec_edit_own)', sum(1 for q in questions if q[0][:2] in ('GE', 'GO')))
            for (q, a, files, cmds, k, nn), m in zip(questions, out):
                if a != m:
                    res.disagree({'what': 'model of ec_quit / the :e :b guard and the implementation decide differently',
                                  'input': hist_input(files, cmds, nn),
                                  'question': q, 'step': k, 'implementation': a, 'model': m})

    # ---- round f: saves that fail (LD_PRELOAD shim): dry run -> the calls of every step -> one call gets an error
    shim = c03.build_shim()
    model_f = ctx.model('dirtyio')
    # ---- every quit form over named / unnamed buffers: DirtyAllDefs.ec_quit_n answers the same questions
    if model_f and aquestions:
        rc, out, err = run_exe(model_f, [q[0] for q in aquestions])
        if rc != 0 or len(out) != len(aquestions):
            res.disagree({'what': 'model driver (quit forms over named / unnamed buffers): rc=%d, %d answers for %d questions: %s' % (rc, len(out), len(aquestions), err[-300:])})
        else:
            res.count('quit commands (q / wq / x / xa) answered by the model of every quit form over named / unnamed buffers', len(aquestions))
            res.count('of these: xa', sum(1 for q in aquestions if q[0].startswith('A xa ')))
            res.count('of these: with the unnamed buffer in the table', sum(1 for q in aquestions if ' u' in q[0]))
            for (q, a, files, cmds, k, nn), m in zip(aquestions, out):
                if ' '.join(m.split()[:2 if m.startswith('stay') else 1]) != a:
                    res.disagree({'what': 'model of ec_quit over named / unnamed buffers (DirtyAllDefs.ec_quit_n) and the implementation decide differently (exit? / which buffer is current afterwards)',
                                  'input': hist_input(files, cmds, nn),
                                  'question': q, 'step': k, 'implementation': a, 'model': m})
    r6 = rng.fork('fault')
    fcases = [gen_fault(r6) for _ in range(160 if ctx.quick else 4000)]
    dry = vlib.pmap(lambda c: run_history(vi, None, c[0], c[1], timeout=60, nbufs=NB, shim=shim, sched=()), fcases)
    jobs = []
    for (files, cmds, save_step), d in zip(fcases, dry):
        res.evaluations += 1
        if d['status'] == 'crash':
            res.violation({'what': d['what'] + ' (under the shim, no fault)', 'input': {'kind': 'fault-history', 'files': {k: v.decode('latin-1') for k, v in files.items()}, 'cmds': [list(c) for c in cmds], 'sched': []}})
            continue
        if d['status'] == 'bad':
            if sum(1 for v in res.violations if v.get('input', {}).get('kind') == 'fault-history') < 3:
                report_fault(files, cmds, [], d)
            continue
        sched = choose_fault(r6, d['calls'], save_step)
        if sched is None:
            res.count('fault histories without a save call (skipped)')
            continue
        jobs.append((files, cmds, sched, save_step, d))
    fouts = vlib.pmap(lambda j: run_history(vi, None, j[0], j[1], timeout=60, nbufs=NB, shim=shim, sched=j[2]), jobs)
    fqs = []
    nfailed = 0
    for (files, cmds, sched, save_step, d), r in zip(jobs, fouts):
        res.evaluations += 1
        inp = {'kind': 'fault-history', 'files': {k: v.decode('latin-1') for k, v in files.items()}, 'cmds': [list(c) for c in cmds], 'sched': [list(x) for x in sched]}
        if r['status'] == 'crash':
            res.violation({'what': r['what'] + ' (under the shim, fault %r)' % (sched,), 'input': inp})
            continue
        hit = [c for cs in r['calls'].values() for c in cs if c[0] == sched[0][0]]
        op = hit[0][1] if hit else 'none'
        res.count('fault: %s %s of %r' % (op, sched[0][1], cmds[save_step - 1][1] if any(c[0] == sched[0][0] for c in r['calls'].get(save_step, [])) else 'an earlier save'))
        if any(c[2] for cs in r['calls'].values() for c in cs):
            nfailed += 1
            res.nontriv(repr((sorted(files.items()), cmds, sched)))
        if r['status'] == 'bad' and sum(1 for v in res.violations if v.get('input', {}).get('kind') == 'fault-history') < 3:
            report_fault(files, cmds, sched, r)
        if r.get('fq'):
            fqs.append((r['fq'], inp))
    res.extra['fault_histories_in_which_a_save_failed'] = nfailed
    if jobs:
        res.sample({'kind': 'fault-history', 'files': sorted(jobs[0][0]), 'cmds': [c[1] for c in jobs[0][1]], 'sched': [list(x) for x in jobs[0][2]]})
    if model_f and fqs:
        rc, out, err = run_exe(model_f, [q[0] for q, _ in fqs])
        if rc != 0 or len(out) != len(fqs):
            res.disagree({'what': 'model driver (failing writes): rc=%d, %d answers for %d questions: %s' % (rc, len(out), len(fqs), err[-300:])})
        else:
            res.count('failing-save commands answered by the model with failing writes', len(fqs))
            for ((req, ans, k), inp), m in zip(fqs, out):
                w = m.split()
                mans = 'quit' if len(w) >= 2 and w[1] == 'quit' else ('stay %s %s' % (w[2], w[3]) if len(w) >= 4 else m)
                if mans != ans:
                    res.disagree({'what': 'model of ec_write / ec_quit under a fault schedule and the implementation differ (exit?, current buffer, modified flags)',
                                  'input': inp, 'question': req, 'step': k, 'implementation': ans, 'model': m})

